"""C18 - operators are persistent values; flatten/unflatten round trip; independence of construction history.

Registry part
  (1) The per-class `_dynamic` registry is modelled in Registry.tla.  The instance templates of the model are
      EXTRACTED from the current tree: every template is constructed once in a fresh interpreter under a recorder
      on LinearOperator.__setattr__ (order of first assignments, shape of every assigned value: array / operator
      / containers / opaque leaves), together with the classes that exist at import and their parents.
  (2) TLC (MC_Registry) explores every construction order up to a length, predicts for each step the leaves
      flatten() yields and judges them against the property oracle (leaves = exactly the array parameters).
  (3) spec -> code: every order is replayed in a FRESH interpreter; observed registry, flatten() leaves, unflatten
      round trip and leaf substitution are compared with the oracle (VIOLATION) and with the model (MODEL-DRIFT).
Persistence part
  (4) Persist.tla is the frame-condition specification; MC_Persist enumerates all well-typed sequences of
      public operations over a pool of operators and caller-owned arrays; they are executed against real cola
      with SHA-256 digests of every caller-owned array and of (dense, annotations, flatten leaves) of every live
      operator after every call; Trace_Persist.tla validates the recording (negative controls included).
      Seeded longer random sequences go through the same validation.
  (5) layout sweep (mode "sweep" of MC_Persist): for every path (products, solves / inverses through Triangular,
      Cholesky, LU, Auto, CG, GMRES and the structured rules, matrix functions, decompositions, constructors) x side
      (right / left product, plain argument) x value class, TLC enumerates the sequences of memory layouts (1-D,
      column, C / Fortran order, transposed view, strided and reversed slices, read-only, float32) in which the SAME
      value is handed over; the argument, every other layout and the operator are digested before / after every call
      and Trace_Persist validates the frame condition and that the result does not depend on the layout; per case one
      more behaviour repeats a call after an unrelated call on the same operator object.
  (6) operator algebra (mode "algebra"): every operation of the algebra (neg, sub, scalar mul / div on both sides with
      positive / negative / integer / complex / zero scalars, add, matmul, kron, kronsum, block_diag, .T, .H, slicing,
      declaration wrappers, application) on PSD / SelfAdjoint / Unitary / Stiefel / undeclared operands; the FULL
      observable state of every pre-existing operator (matrix, annotations, leaves, shape, dtype, __dict__
      recursively) is digested after every call of every mode and validated by Trace_Persist (den / ann / lea / hid)."""
import hashlib
import json
import os
import random
import subprocess
import sys
import threading
import time
import warnings

from .. import common, tla
from ..common import Violation

PROP = "C18"
BASE_ATTRS = ("xnp", "shape", "dtype", "device", "annotations")

ASSUMPTIONS = [
    "the array parameters of an operator are the arrays reachable from its attributes through operators, tuples, "
    "lists, dicts and None (what optree can traverse in namespace 'cola'); arrays inside opaque objects (an "
    "algorithm dataclass such as CG(x0=...), a closure, the scipy CSR matrix the shim builds for Sparse) are not "
    "counted either way",
    "a fresh interpreter is a forked child of a zygote process (started as `python -B -c ...`) that has imported "
    "third-party libraries only (numpy, scipy, optree, plum, beartype, tqdm; asserted: no cola module); cola and "
    "the shim are imported anew in every child.  A subset of orders is also run as plain `python -B -c` "
    "subprocesses and must give identical observations",
    "instance templates are a finite catalog (harness/props/c18.py: TEMPLATES); the conflict group (same class, "
    "same attribute, array in one instance and non-array in another) is permuted exhaustively, the kind-coverage "
    "group is constructed alone (quick) and in all ordered pairs (thorough)",
    "substitution replaces one array leaf by an equal-shaped copy + 1 and compares attribute-level array "
    "parameters only (the represented matrix is not recomputed: Sparse caches a CSR matrix built by the shim)",
    "persistence sequences share prefixes when replayed (siblings run on the same live objects; every call is "
    "followed by a digest of every caller-owned array and every live operator, so a mutation is detected at the "
    "call that performs it; after a detected mutation the worker rebuilds the state from scratch)",
    "the harness's own to_dense() of every live operator after each step is itself a public call: a change of "
    "flatten() leaves across it is reported under action 'to_dense'",
    "in the persistence replay every process first constructs I[idx, idx], exp(A, Lanczos(start_vector=v)) and "
    "exp(A, Arnoldi(start_vector=v)): the registry (which is history dependent, see the known findings) is then the "
    "same in all worker processes whose recordings are merged, and it is the history in which index arrays and "
    "start vectors are leaves, so that the mutation of LanczosUnary.kwargs is observable through flatten()",
    "exceptions raised by an operation are treated as its (repeatable) result; dtype moves are not exercised "
    "(LinearOperator.to documents them as unsupported), device is None",
    "MC_Persist has no mechanism model: TLC enumerates the well-typed sequences and validates recordings "
    "against the frame conditions; results of iterative routines are compared bitwise between repeated calls",
    "layout sweep: operators are 4x4 float64 (operands float64, plus float32 classes), k = 3 columns; the layouts of one "
    "value are separate arrays (own buffers), a view is digested together with the whole buffer it is a view of and "
    "with its shape / strides / flags; results of one (path, side, value) are identified up to a tolerance (1e-6 "
    "relative, 1e-3 for the float32 classes; exception class otherwise), so 'the result does not depend on the layout' "
    "means equal within that tolerance; every case is one chain executed on one live operator (after a mutation the "
    "chain goes on with the mutated arrays); quick replays, per case, sequences of 2 layouts in which every layout "
    "comes first exactly once (thorough: 3)",
    "the full observable state of an operator = dense matrix, annotations, flatten() leaves, shape, dtype and its "
    "__dict__ digested recursively (arrays by bytes; nested operators, algorithm objects, containers recursively; "
    "callables / classes / modules by name).  The attribute `info` of IterativeOperatorWInfo is skipped: it is the "
    "documented diagnostics channel of the lazy inverse (iteration log with wall-clock times), rewritten by every "
    "application; whether anything an application leaves behind influences later results is decided behaviourally "
    "instead: the same call repeated on ONE operator object (other layouts of the argument, and after an unrelated "
    "call with another value of the same shape and dtype) must return the same result (sweep paths inv_cg_op / "
    "inv_gmres_op use 2 iterations, so the iterate - not the limit - is compared)",
    "operator algebra (mode 'algebra'): two operands X (Dense) and Y (Diagonal / Dense) per declaration PSD / "
    "SelfAdjoint / Unitary / Stiefel / none, built from matrices that have the declared property; the result of an "
    "operation is a value (kind, shape, dtype, annotations, matrix) and is dropped; quick replays, per declaration, "
    "sequences of 2 operations in which every operation comes first exactly once (thorough: 3); a chain goes on "
    "with the operands as they are after a detected change",
    "the persistence part runs in its own process beside the registry part (they share nothing)",
]


# =================================================================================================
#                                   REGISTRY: templates
# =================================================================================================
def _np():
    import numpy as np
    return np


def _M(n, m=None, seed=0, dt="float64"):
    np = _np()
    rng = np.random.RandomState(100 + seed)
    return rng.randint(-3, 4, size=(n, m or n)).astype(dt)


def _S(n, seed=0):
    np = _np()
    B = _M(n, seed=seed)
    return B @ B.T + n * np.eye(n)


def _templates():
    """name -> thunk building the instance through cola's public API (called inside a child process)."""
    np = _np()
    import cola
    from cola import ops
    from cola.linalg.decompositions.decompositions import Arnoldi, Lanczos
    from cola.linalg.inverse.cg import CG
    from cola.linalg.inverse.gmres import GMRES
    from cola.linalg.inverse.pinv import LSTSQ
    from cola.linalg.preconditioning.preconditioners import NystromPrecond
    from .. import shim
    D = lambda n=3, s=0: ops.Dense(_M(n, seed=s))          # noqa: E731
    I = lambda n=3: ops.Identity((n, n), np.float64)       # noqa: E731,E741
    T = {}
    # ---- conflict group: same class and attribute, array-valued in one instance, not in another
    T["Sliced_ss"] = lambda: ops.Sliced(D(), (slice(0, 2), slice(1, 3)))
    T["Sliced_as"] = lambda: ops.Sliced(D(), (np.array([0, 2]), slice(0, 2)))
    T["Sliced_aa"] = lambda: ops.Sliced(D(), (np.array([0, 2]), np.array([1, 2])))
    T["BlockDiag_list"] = lambda: ops.BlockDiag(D(2), D(2, 1), multiplicities=[1, 2])
    T["BlockDiag_arr"] = lambda: ops.BlockDiag(D(2), D(2, 1), multiplicities=np.array([1, 2]))
    T["LanczosUnary_plain"] = lambda: cola.linalg.exp(cola.SelfAdjoint(ops.Dense(_S(3))), Lanczos(max_iters=3))
    T["LanczosUnary_sv"] = lambda: cola.linalg.exp(cola.SelfAdjoint(ops.Dense(_S(3))),
                                                   Lanczos(start_vector=np.ones(3), max_iters=3))
    T["GetItem_ss"] = lambda: D()[0:2, 1:3]
    T["GetItem_aa"] = lambda: I()[np.array([0, 2]), np.array([1, 2])]
    T["GetItem_s"] = lambda: D()[1:3]
    T["Product_II"] = lambda: ops.Product(I(), I())
    T["Product_DD"] = lambda: ops.Product(D(), D(3, 1))
    T["Product_SsSs"] = lambda: ops.Product(ops.Sliced(I(), (slice(0, 2), slice(0, 3))),
                                            ops.Sliced(I(), (slice(0, 3), slice(0, 2))))
    T["Product_SaSa"] = lambda: ops.Product(ops.Sliced(I(), (np.array([0, 1]), np.array([0, 1, 2]))),
                                            ops.Sliced(I(), (np.array([0, 1, 2]), np.array([0, 1]))))
    conflict = list(T)
    # ---- kind coverage
    T["Dense"] = lambda: D()
    T["Triangular"] = lambda: ops.Triangular(np.tril(_M(3)) + 4 * np.eye(3), lower=True)
    T["Sparse"] = lambda: ops.Sparse(np.array([2., 1., 3.]), np.array([0, 1, 1]), np.array([1, 0, 2]), shape=(2, 3))
    T["ScalarMul"] = lambda: ops.ScalarMul(2.5, (3, 3), dtype=np.float64)
    T["Identity"] = lambda: I()
    T["Diagonal"] = lambda: ops.Diagonal(np.array([1., 2., 3.]))
    T["Tridiagonal"] = lambda: ops.Tridiagonal(np.array([1., 2.]), np.array([3., -1., 2.]), np.array([-1., 1.]))
    T["Transpose"] = lambda: ops.Transpose(D())
    T["Adjoint"] = lambda: ops.Adjoint(ops.Dense(_M(3) + 1j * _M(3, seed=1)))
    T["Sum_DD"] = lambda: ops.Sum(D(), D(3, 1))
    T["Kronecker_DD"] = lambda: ops.Kronecker(D(2), D(2, 1))
    T["Kronecker_II"] = lambda: ops.Kronecker(I(2), I(2))
    T["KronSum_DD"] = lambda: ops.KronSum(D(2), D(2, 1))
    T["Permutation"] = lambda: ops.Permutation(np.array([2, 0, 1]))
    T["Concatenated"] = lambda: ops.Concatenated(D(2), D(2, 1), axis=0)
    T["Householder"] = lambda: ops.Householder(np.array([[1.], [1.], [0.]]), beta=1.)
    T["Kernel"] = lambda: ops.Kernel(np.array([0., 1.]), np.array([1., 2.]),
                                     lambda a, b: a[:, None] * b[None, :] + 1, 1, 2)
    T["FFT"] = lambda: ops.FFT(4, dtype=np.complex64)
    T["Jacobian"] = lambda: ops.Jacobian(shim.PolyFn(np.array([[1, 0], [2, 1], [0, 3]]), np.array([[1, 1], [0, 2], [1, 0]])),
                                         np.array([1., 2.]))
    T["Hessian"] = lambda: ops.Hessian(shim.PolyFn(np.array([[1, 0], [2, 1]]), np.array([[1, 1], [0, 2]]), scalar=True),
                                       np.array([1., 2.]))
    T["Generic_matmat"] = lambda: cola.fns.no_dispatch(D())
    T["PSD_Dense"] = lambda: cola.PSD(ops.Dense(_S(3)))
    T["NystromPrecond"] = lambda: NystromPrecond(cola.PSD(ops.Dense(_S(4))), rank=2, key=5)
    T["TriangularInv"] = lambda: cola.linalg.inv(ops.Triangular(np.tril(_M(3)) + 4 * np.eye(3), lower=True))
    T["LSTSQSolve"] = lambda: cola.linalg.pinv(ops.Dense(_M(3, 2)), LSTSQ())
    T["ArnoldiUnary_plain"] = lambda: cola.linalg.exp(D(), Arnoldi(max_iters=3))
    T["ArnoldiUnary_sv"] = lambda: cola.linalg.exp(D(), Arnoldi(start_vector=np.ones(3), max_iters=3))
    T["IterOp_CG"] = lambda: cola.linalg.inv(cola.PSD(ops.Dense(_S(3))), CG())
    T["IterOp_CGx0"] = lambda: cola.linalg.inv(cola.PSD(ops.Dense(_S(3))), CG(x0=np.ones(3)))
    T["IterOp_GMRESx0"] = lambda: cola.linalg.inv(D(), GMRES(x0=np.ones(3)))
    T["Product_DgD"] = lambda: ops.Product(D(), ops.Diagonal(np.array([1., 2., 3.])), D(3, 1))
    return T, conflict


CONFLICT = ["Sliced_ss", "Sliced_as", "Sliced_aa", "GetItem_ss", "GetItem_aa", "BlockDiag_list", "BlockDiag_arr",
            "LanczosUnary_plain", "LanczosUnary_sv", "Product_II", "Product_DD", "Product_SsSs", "Product_SaSa"]


# =================================================================================================
#                       child side: walking real objects (runs inside fresh interpreters)
# =================================================================================================
def _is_op(x):
    from cola.ops import LinearOperator
    return isinstance(x, LinearOperator)


def _cls_name(c):
    return c.__name__.replace("cola.ops.operators.", "").replace("cola.ops.operator_base.", "")


def _items(val, path):
    """Pre-flattened item list of a value in optree order: ('arr', path, obj) | ('na', path, typename) |
    ('op', path, obj)."""
    np = _np()
    if isinstance(val, np.ndarray):
        return [("arr", path, val)]
    if _is_op(val):
        return [("op", path, val)]
    if val is None:
        return []
    if isinstance(val, (tuple, list)) and not hasattr(val, "_fields"):
        out = []
        for i, x in enumerate(val):
            out += _items(x, path + [str(i)])
        return out
    if isinstance(val, dict):
        out = []
        for k in sorted(val, key=str):
            out += _items(val[k], path + [str(k)])
        return out
    return [("na", path, type(val).__name__)]


def array_params(obj, path=None):
    """[(path string, array)] of every array parameter, attributes in sorted order, depth first."""
    path = path or []
    out = []
    for key in sorted(vars(obj)):
        for kind, p, x in _items(vars(obj)[key], path + [key]):
            if kind == "arr":
                out.append((".".join(p), x))
            elif kind == "op":
                out += array_params(x, p)
    return out


def classes_of(obj, acc=None):
    acc = {} if acc is None else acc
    c = type(obj)
    acc[_cls_name(c)] = {k: bool(v) for k, v in c._dynamic.items()}
    for key in sorted(vars(obj)):
        for kind, _, x in _items(vars(obj)[key], []):
            if kind == "op":
                classes_of(x, acc)
    return acc


def culprits(obj, acc=None):
    """(class, attribute) pairs whose registry entry disagrees with what the attribute holds in this instance."""
    acc = [] if acc is None else acc
    c = type(obj)
    base = _cls_name(c).split("[")[0]
    for key in sorted(vars(obj)):
        its = _items(vars(obj)[key], [])
        has_na = any(k == "na" for k, _, _ in its)
        has_arr = any(k == "arr" for k, _, _ in its) or any(k == "op" and array_params(x) for k, _, x in its)
        reg = c._dynamic.get(key)
        if reg and has_na:
            acc.append(f"{base}.{key}:nonarray_leaf")
        if reg is False and has_arr:
            acc.append(f"{base}.{key}:hidden_array")
        for k, _, x in its:
            if k == "op":
                culprits(x, acc)
    return acc


def describe_leaves(obj):
    """flatten() leaves labelled by the array parameter they ARE (identity), or by type for non-arrays."""
    np = _np()
    params = array_params(obj)
    by_id = {id(a): p for p, a in params}
    leaves = obj.flatten()[0]
    lab = []
    for x in leaves:
        if isinstance(x, np.ndarray):
            lab.append("arr:" + by_id.get(id(x), "?"))
        else:
            lab.append("na:" + type(x).__name__)
    return lab, [p for p, _ in params]


def heavy_observe(obj):
    """leaf substitution, then unflatten round trip (the round trip densifies, which is a public call that may
    itself touch the operator, so it comes last)."""
    np = _np()
    res = {}
    leaves, unflatten = obj.flatten()
    params = array_params(obj)
    sub = []
    for i, x in enumerate(leaves):
        if not isinstance(x, np.ndarray):
            continue
        marker = np.array(x, copy=True)
        marker[...] = ~marker if marker.dtype == bool else marker + 1
        new = list(leaves)
        new[i] = marker
        try:
            o3 = unflatten(new)
            p3 = array_params(o3)
            changed = []
            if [p for p, _ in p3] != [p for p, _ in params]:
                changed = ["<structure>"]
            else:
                for (p, a), (_, b) in zip(params, p3):
                    if b is marker or a.shape != b.shape or a.dtype != b.dtype or a.tobytes() != b.tobytes():
                        changed.append(p)
            target = next((p for p, a in params if a is x), "?")
            sub.append({"leaf": i, "target": target, "changed": changed})
        except Exception as e:  # noqa: BLE001
            sub.append({"leaf": i, "exc": f"{type(e).__name__}: {str(e)[:120]}"})
    res["substitution"] = sub
    try:
        o2 = unflatten(leaves)
        rt = {"kind": type(o2) is type(obj), "shape": tuple(o2.shape) == tuple(obj.shape), "dtype": o2.dtype == obj.dtype,
              "annotations": o2.annotations == obj.annotations}
        with warnings.catch_warnings(), np.errstate(all="ignore"):
            warnings.simplefilter("ignore")
            d1, d2 = np.asarray(obj.to_dense()), np.asarray(o2.to_dense())
        rt["dense"] = bool(d1.shape == d2.shape and np.array_equal(d1, d2, equal_nan=True))
        res["roundtrip"] = rt
    except Exception as e:  # noqa: BLE001
        res["roundtrip"] = {"exc": f"{type(e).__name__}: {str(e)[:120]}"}
    return res


def run_order(order, heavy=True):
    """Executed in a fresh interpreter: construct the templates in `order`, observe."""
    from .. import fastimport
    fastimport.install()
    from .. import build  # noqa: F401  installs the shim, imports cola
    np = _np()
    T, _ = _templates()
    objs, steps = [], []
    for name in order:
        try:
            with warnings.catch_warnings(), np.errstate(all="ignore"):
                warnings.simplefilter("ignore")
                obj = T[name]()
        except Exception as e:  # noqa: BLE001
            objs.append(None)
            steps.append({"t": name, "exc": f"{type(e).__name__}: {str(e)[:160]}"})
            continue
        objs.append(obj)
        try:
            lab, params = describe_leaves(obj)
            steps.append({"t": name, "cls": _cls_name(type(obj)), "leaves": lab, "params": params, "dyn": classes_of(obj),
                          "culprits": sorted(set(culprits(obj)))})
        except Exception as e:  # noqa: BLE001
            steps.append({"t": name, "cls": _cls_name(type(obj)), "exc": f"flatten: {type(e).__name__}: {str(e)[:160]}"})
    # leaves must not move once an instance exists: re-observe at the end
    for st, obj in zip(steps, objs):
        if obj is not None and "leaves" in st:
            try:
                st["leaves_end"] = describe_leaves(obj)[0]
            except Exception as e:  # noqa: BLE001
                st["leaves_end"] = [f"exc:{type(e).__name__}"]
    if heavy:
        for st, obj in zip(steps, objs):
            if obj is not None and "leaves" in st:
                st.update(heavy_observe(obj))
    return {"order": list(order), "steps": steps}


# ---- extraction of the model (also in a fresh interpreter, under a recorder) ------------------------
def extract_templates(names):
    from .. import fastimport
    fastimport.install()
    from .. import build  # noqa: F401
    np = _np()
    from cola.ops import LinearOperator

    def subclasses(c, acc):
        for s in c.__subclasses__():
            if s not in acc:
                acc.add(s)
                subclasses(s, acc)
        return acc

    T, _ = _templates()      # imports every module that defines operator classes before the snapshot
    born0 = {LinearOperator} | subclasses(LinearOperator, set())
    cname = {}

    def uname(c):
        """unique name: plum's parametric wrapper and the class it wraps share __name__"""
        if c not in cname:
            nm = _cls_name(c)
            while nm in cname.values():
                nm += "^"
            cname[c] = nm
        return cname[c]

    # deeper first so that a parametric wrapper (subclass) keeps the plain name and the wrapped original gets "^"
    for c in sorted(born0, key=lambda c: (-len(c.__mro__), c.__name__)):
        uname(c)
    born0_reg = {uname(c): {k: bool(v) for k, v in c._dynamic.items()} for c in born0}
    inst_ids, insts, keep = {}, [], []
    log = []
    orig = LinearOperator.__setattr__

    def shape_of(val):
        its = _items(val, [])
        enc = []
        for kind, p, x in its:
            if kind == "op":
                enc.append({"t": "op", "p": p, "obj": x})
            elif kind == "arr":
                enc.append({"t": "arr", "p": p})
            else:
                enc.append({"t": "na", "p": p, "py": x})
        return {"dd": bool(isinstance(val, np.ndarray) or _is_op(val)), "items": enc}

    def rec_setattr(self, name, value):
        if id(self) not in inst_ids:
            inst_ids[id(self)] = len(insts)
            insts.append({"obj": self, "cls": type(self), "first": {}, "order": []})
            keep.append(self)
        ent = insts[inst_ids[id(self)]]
        if name not in ent["first"]:
            ent["first"][name] = shape_of(value)
            ent["order"].append(name)
            log.append((inst_ids[id(self)], name))
        return orig(self, name, value)

    out = {}
    LinearOperator.__setattr__ = rec_setattr
    try:
        for nm in names:
            start = len(log)
            with warnings.catch_warnings(), np.errstate(all="ignore"):
                warnings.simplefilter("ignore")
                obj = T[nm]()
            keep.append(obj)
            out[nm] = {"root": inst_ids[id(obj)], "ev": log[start:]}
    finally:
        LinearOperator.__setattr__ = orig

    # encode instances (final values), resolve op references to instance ids
    def enc_shape(sh):
        items = []
        for it in sh["items"]:
            if it["t"] == "op":
                if id(it["obj"]) not in inst_ids:   # operator never assigned through __setattr__ (cannot happen)
                    raise RuntimeError("unrecorded operator instance")
                items.append({"t": "op", "p": it["p"], "i": inst_ids[id(it["obj"])]})
            else:
                items.append({k: v for k, v in it.items() if k != "obj"})
        return {"dd": sh["dd"], "items": items}

    classes = {}

    def reg_class(c):
        nm = uname(c)
        if nm in classes:
            return nm
        par = next((b for b in c.__mro__[1:] if hasattr(b, "_dynamic")), None)
        classes[nm] = {"parent": reg_class(par) if par is not None else "", "import_time": c in born0}
        return nm

    enc = []
    for ent in insts:
        obj = ent["obj"]
        attrs = []
        for name in ent["order"]:
            fin = shape_of(vars(obj)[name]) if name in vars(obj) else {"dd": False, "items": []}
            attrs.append({"n": name, "first": enc_shape(ent["first"][name]), "fin": enc_shape(fin),
                          "present": name in vars(obj)})
        enc.append({"cls": reg_class(ent["cls"]), "attrs": attrs})
    return {"templates": {nm: {"root": v["root"], "ev": [[i, insts[i]["order"].index(a)] for i, a in v["ev"]]}
                          for nm, v in out.items()},
            "insts": enc, "classes": classes, "born0_reg": born0_reg}


# ---- process plumbing: zygotes and plain subprocesses ------------------------------------------
def _child_env():
    env = dict(os.environ)
    env["PYTHONPATH"] = os.pathsep.join(p for p in sys.path if p)
    env.setdefault("PYTHONHASHSEED", "0")
    for k in ("OMP_NUM_THREADS", "OPENBLAS_NUM_THREADS", "MKL_NUM_THREADS"):
        env[k] = "1"
    return env


def _dispatch_job(job):
    if job["kind"] == "order":
        return run_order(job["order"], heavy=job.get("heavy", True))
    if job["kind"] == "extract":
        return extract_templates(job["names"])
    raise ValueError(job["kind"])


def zygote_main():
    """`python -B -c "from harness.props import c18; c18.zygote_main()"`: preload third-party libraries, then serve
    jobs (one JSON line each) by forking a child that imports cola afresh."""
    import numpy, scipy, scipy.linalg, scipy.sparse, scipy.sparse.linalg, scipy.signal, optree, plum  # noqa: E401,F401
    import beartype, beartype.door, tqdm.auto  # noqa: E401,F401
    assert not any(m == "cola" or m.startswith("cola.") for m in sys.modules), "zygote must not hold cola"
    out = sys.stdout
    out.write(json.dumps({"ready": True}) + "\n")
    out.flush()
    for line in sys.stdin:
        line = line.strip()
        if not line:
            continue
        job = json.loads(line)
        r, w = os.pipe()
        pid = os.fork()
        if pid == 0:
            os.close(r)
            try:
                res = _dispatch_job(job)
            except BaseException as e:  # noqa: BLE001
                import traceback
                res = {"child_error": f"{type(e).__name__}: {e}", "tb": traceback.format_exc()[-800:]}
            data = json.dumps(res, default=str).encode()
            with os.fdopen(w, "wb") as fh:
                fh.write(data)
            os._exit(0)
        os.close(w)
        chunks = []
        with os.fdopen(r, "rb") as fh:
            while True:
                b = fh.read(1 << 16)
                if not b:
                    break
                chunks.append(b)
        os.waitpid(pid, 0)
        out.write(b"".join(chunks).decode() + "\n")
        out.flush()


def oneshot_main():
    """`python -B -c "from harness.props import c18; c18.oneshot_main()"` with the job on stdin: a plain fresh
    interpreter (no zygote)."""
    job = json.loads(sys.stdin.read())
    print(json.dumps(_dispatch_job(job), default=str))


class FreshPool:
    """Pool of zygotes; map(jobs) -> results in order."""
    def __init__(self, width=16):
        self.procs = []
        env = _child_env()
        for _ in range(width):
            p = subprocess.Popen([sys.executable, "-B", "-c", "from harness.props import c18; c18.zygote_main()"],
                                 stdin=subprocess.PIPE, stdout=subprocess.PIPE, stderr=subprocess.DEVNULL, env=env,
                                 text=True, cwd=common.VERIF)
            self.procs.append(p)
        for p in self.procs:
            line = p.stdout.readline()
            if not line or not json.loads(line).get("ready"):
                raise RuntimeError("zygote failed to start")

    def map(self, jobs):
        jobs = list(jobs)
        results = [None] * len(jobs)
        lock = threading.Lock()
        nxt = [0]

        def feed(p):
            while True:
                with lock:
                    i = nxt[0]
                    nxt[0] += 1
                if i >= len(jobs):
                    return
                p.stdin.write(json.dumps(jobs[i]) + "\n")
                p.stdin.flush()
                line = p.stdout.readline()
                if not line:
                    raise RuntimeError("zygote died")
                results[i] = json.loads(line)

        th = [threading.Thread(target=feed, args=(p, )) for p in self.procs]
        for t in th:
            t.start()
        for t in th:
            t.join()
        bad = [r for r in results if r is None or "child_error" in r]
        if bad:
            raise RuntimeError(f"fresh interpreter failed: {bad[0]}")
        return results

    def close(self):
        for p in self.procs:
            try:
                p.stdin.close()
            except Exception:  # noqa: BLE001
                pass
        for p in self.procs:
            try:
                p.wait(timeout=10)
            except Exception:  # noqa: BLE001
                p.kill()


def run_oneshot(jobs, width=16):
    """Plain `python -B -c` subprocesses, `width` at a time."""
    env = _child_env()
    results = [None] * len(jobs)

    def work(i):
        p = subprocess.run([sys.executable, "-B", "-c", "from harness.props import c18; c18.oneshot_main()"],
                           input=json.dumps(jobs[i]), capture_output=True, text=True, env=env, cwd=common.VERIF)
        line = [ln for ln in p.stdout.splitlines() if ln.startswith("{")]
        if p.returncode != 0 or not line:
            raise RuntimeError(f"subprocess failed: {p.stderr[-600:]}")
        results[i] = json.loads(line[-1])

    from concurrent.futures import ThreadPoolExecutor
    with ThreadPoolExecutor(max_workers=width) as ex:
        list(ex.map(work, range(len(jobs))))
    return results


# =================================================================================================
#                               REGISTRY: model rendering, TLC, comparison
# =================================================================================================
def render_registry_model(X, names, max_len, known_bad=(), all_len=None, conflict=None):
    """Generated module RegistryModel from the extraction X, restricted to templates `names`."""
    insts = X["insts"]
    used_cls = set()

    def collect(c):
        while c and c not in used_cls:
            used_cls.add(c)
            c = X["classes"][c]["parent"]

    need = set()
    for nm in names:
        for i, _ in X["templates"][nm]["ev"]:
            need.add(i)
    # instances referenced through items must be present as well
    frontier = list(need)
    while frontier:
        i = frontier.pop()
        for at in insts[i]["attrs"]:
            for sh in (at["first"], at["fin"]):
                for it in sh["items"]:
                    if it["t"] == "op" and it["i"] not in need:
                        need.add(it["i"])
                        frontier.append(it["i"])
    order = sorted(need)
    renum = {old: k + 1 for k, old in enumerate(order)}
    attrs_all = set(BASE_ATTRS)
    for i in order:
        collect(insts[i]["cls"])
        for at in insts[i]["attrs"]:
            attrs_all.add(at["n"])
    for c in used_cls:
        for a in X["born0_reg"].get(c, {}):
            attrs_all.add(a)

    def sh(s):
        return {"dd": s["dd"],
                "items": [{"t": it["t"], "p": list(it["p"]), "i": renum[it["i"]] if it["t"] == "op" else 0} for it in s["items"]]}

    inst_tla = []
    for i in order:
        at = insts[i]["attrs"]
        srt = sorted((k for k in range(len(at)) if at[k]["present"]), key=lambda k: at[k]["n"])
        inst_tla.append({"cls": insts[i]["cls"],
                         "attrs": [{"n": a["n"], "first": sh(a["first"]), "fin": sh(a["fin"])} for a in at],
                         "sorted": [k + 1 for k in srt]})
    tmpl = [{"name": nm, "root": renum[X["templates"][nm]["root"]],
             "ev": [{"i": renum[i], "a": a + 1} for i, a in X["templates"][nm]["ev"]]} for nm in names]
    classes = sorted(used_cls)
    parent = {c: X["classes"][c]["parent"] for c in classes}
    born0 = sorted(c for c in classes if X["classes"][c]["import_time"])
    dyn0 = {}
    for c in classes:
        reg = X["born0_reg"].get(c, {}) if X["classes"][c]["import_time"] else {}
        dyn0[c] = {a: ("unset" if a not in reg else ("dyn" if reg[a] else "static")) for a in sorted(attrs_all)}
    txt = ["---- MODULE RegistryModel ----", "\\* generated by harness/props/c18.py from the current source tree",
           "EXTENDS Integers, Sequences, TLC",
           f"RG_Classes == {tla.to_tla(set(classes))}",
           f"RG_Parent == {fn_tla(parent)}",
           f"RG_Born0 == {tla.to_tla(set(born0))}",
           f"RG_Dyn0 == {fn_tla(dyn0, render=fn_tla)}",
           f"RG_Inst == {tla.to_tla(inst_tla)}",
           f"RG_Templates == {tla.to_tla(tmpl)}",
           f"RG_MaxLen == {max_len}",
           "RG_KnownBad == {" + ", ".join(json.dumps(x) for x in sorted(known_bad)) + "}",
           f"RG_AllLen == {max_len if all_len is None else all_len}",
           "RG_Conflict == {" + ", ".join(json.dumps(x) for x in sorted(conflict if conflict is not None else names)) + "}",
           "===="]
    return "\n".join(txt) + "\n"


def fn_tla(d, render=tla.to_tla):
    """{string key: value} -> TLA+ function (k1 :> v1 @@ k2 :> v2 ...).  tla.to_tla renders a dict as a record,
    but class names such as 'Product[Dense, Dense]' are not valid field names."""
    if not d:
        raise ValueError("empty function")
    return "(" + " @@ ".join(f"{json.dumps(k)} :> {render(v)}" for k, v in d.items()) + ")"


def _model_leaves(lv):
    return [("arr", ".".join(x[1])) if x[0] == "arr" else ("na", None) for x in lv]


def _obs_leaves(lab):
    return [("arr", x[4:]) if x.startswith("arr:") else ("na", None) for x in lab]


def _model_reg(reg):
    out = {}
    for c, row in reg:
        out[c] = {a: (v == "dyn") for a, v in row}
    return out


def registry_part(tier, wd, viol, cov, extra):
    T_all = list(_template_names())
    pool = FreshPool(16)
    try:
        X = pool.map([{"kind": "extract", "names": T_all}])[0]
        runs = []
        L = 3 if tier == "quick" else 4
        all_len = 1 if tier == "quick" else 2
        plan = [("conflict", CONFLICT, L), ("all", T_all, all_len)]
        res = tla.run_tlc("MC_Registry", "SPECIFICATION MCSpec\nINVARIANT Emit\n", wd,
                          gen_files={"RegistryModel.tla": render_registry_model(X, T_all, L, all_len=all_len, conflict=CONFLICT)})
        if res.error or res.violated:
            raise tla.TLCError(f"MC_Registry failed: {res.error or res.violated}\n" + res.out[-2500:])
        runs.append(res)
        lines_by = {"all": res.json_lines()}
        # the orders to replay (deduplicated across the two runs)
        model = {}
        for tag in lines_by:
            for ln in lines_by[tag]:
                model.setdefault(tuple(ln["h"]), ln)
        longest = max(len(o) for o in model)
        full = 2 if tier == "quick" else 3      # orders up to this length are all replayed
        if longest > full:
            # of the longer orders: every one the model marks as genuinely sensitive to its whole history (the
            # prediction for the last template is none of the predictions after the orders with one earlier template
            # removed), and a seeded sample of the rest
            def sig(o):
                pm = model[o]["pred"][-1]
                return json.dumps([pm["leaves"], pm["reg"]], sort_keys=True)
            sel = {o for o in model if len(o) <= full}
            rest = []
            for o in sorted(model):
                if len(o) > full:
                    subs = {sig(o[:k] + o[k + 1:]) for k in range(len(o) - 1)}
                    if sig(o) not in subs:
                        sel.add(o)
                    else:
                        rest.append(o)
            random.Random(common.seed()).shuffle(rest)
            sel |= set(rest[:160 if tier == "quick" else 2000])
        else:
            sel = set(model)
        # model-level counterexamples one step beyond the explored orders (`bad`: templates for which the property
        # fails if built next): one shortest witness order per template is replayed as well, so that every template
        # TLC flags is confirmed (or refuted) on the code
        look = {}
        for o in sorted(model, key=lambda x: (len(x), x)):
            for b in model[o]["bad"]:
                if b not in look and o + (b, ) not in model:
                    look[b] = o + (b, )
        sel |= set(look.values())
        prefixes = {o[:k] for o in sel for k in range(1, len(o))}
        orders = sorted(o for o in sel if o not in prefixes)
        n_selected = len(sel)
        obs = pool.map([{"kind": "order", "order": list(o)} for o in orders])
        # cross-check of the zygote mechanism against plain `python -B -c` subprocesses
        sub_orders = [o for o in orders if len(o) <= 2][:: max(1, len([o for o in orders if len(o) <= 2]) // (16 if tier == "quick" else 96))]
        sub_orders = sub_orders[:16 if tier == "quick" else 96]
        if not sub_orders:
            sub_orders = orders[:16]
        plain = run_oneshot([{"kind": "order", "order": list(o)} for o in sub_orders])
        by_order = dict(zip(orders, obs))
        mism = [o for o, r in zip(sub_orders, plain) if json.dumps(r, sort_keys=True) != json.dumps(by_order[o], sort_keys=True)]
        if mism:
            again = run_oneshot([{"kind": "order", "order": list(o)} for o in mism])
            still = [(o, r) for o, r in zip(mism, again) if json.dumps(r, sort_keys=True) != json.dumps(by_order[o], sort_keys=True)]
            if still:
                o, r = still[0]
                raise RuntimeError(f"zygote children and plain subprocesses disagree on {len(still)} orders, e.g. {o}:\n"
                                   f"zygote: {json.dumps(by_order[o], sort_keys=True)[:1500]}\nplain : {json.dumps(r, sort_keys=True)[:1500]}")
            extra.append(f"NOTE: {len(mism)} plain-subprocess observation(s) differed once and agreed on repetition: {mism[:2]}")
    finally:
        pool.close()
    # ---- comparison
    agg = {}

    def add(clause, tname, sig, order, attrs, detail):
        key = (clause, tname, sig)
        ent = agg.get(key)
        if ent is None:
            agg[key] = [1, list(order), attrs, detail]
        else:
            ent[0] += 1
            if len(order) < len(ent[1]):
                ent[1], ent[2], ent[3] = list(order), attrs, detail
    drift = {}
    variants = {}
    model_bad = set()
    steps_checked = 0
    for o in orders:
        r = by_order[o]
        for j, st in enumerate(r["steps"]):
            prefix = list(o[:j + 1])
            tname = st["t"]
            m = model.get(tuple(prefix))
            pm = m["pred"][j] if m is not None else None
            if pm is not None and not pm["ok"]:
                model_bad.add((tuple(prefix[:-1]), tname))
            steps_checked += 1
            if "exc" in st:
                add("leaves", tname, "exc:" + st["exc"][:40], prefix,
                    {"template": tname, "cls": st.get("cls", "?").split("[")[0], "order": prefix, "exc": st["exc"].split(":")[0],
                     "culprit": "exception"},
                    f"construction / flatten raised {st['exc']}")
                continue
            ol = _obs_leaves(st["leaves"])
            want = [("arr", p) for p in st["params"]]
            cul = "+".join(sorted({c.split(":")[0] for c in st["culprits"]})) or "none"
            base_attrs = {"template": tname, "cls": st["cls"].split("[")[0], "order": prefix, "culprit": cul,
                          "culprit_kinds": sorted({c.split(":")[1] for c in st["culprits"]}),
                          "first": prefix[0]}
            variants.setdefault(tname, {}).setdefault(json.dumps(st["leaves"]), prefix)
            if ol != want:
                hidden = [p for p in st["params"] if ("arr", p) not in ol]
                nonarr = [x[3:] for x in st["leaves"] if x.startswith("na:")]
                add("leaves", tname, cul + "|" + json.dumps(st["leaves"]), prefix, dict(base_attrs, hidden=hidden, nonarray=nonarr),
                    f"flatten() leaves {st['leaves']} but the array parameters are {st['params']} "
                    f"(registry disagreements: {st['culprits']})")
            if st.get("leaves_end") != st["leaves"]:
                add("history_dependence", tname, "moved", list(o), dict(base_attrs, order=list(o), moved=True),
                    f"leaves of an existing instance changed after later constructions: {st['leaves']} -> {st.get('leaves_end')}")
            rt = st.get("roundtrip", {})
            if "exc" in rt or not all(rt.get(k, False) for k in ("kind", "shape", "dtype", "annotations", "dense")):
                failed = ["exc"] if "exc" in rt else [k for k in ("kind", "shape", "dtype", "annotations", "dense") if not rt.get(k)]
                add("roundtrip", tname, json.dumps(failed), prefix, dict(base_attrs, failed=failed, exc=rt.get("exc", "").split(":")[0]),
                    f"unflatten(flatten(A)) differs in {failed} {rt.get('exc', '')}")
            for sb in st.get("substitution", []):
                if "exc" in sb or sb["changed"] != [sb["target"]]:
                    add("substitution", tname, json.dumps([sb.get("target"), sb.get("changed"), sb.get("exc", "")[:30]]), prefix,
                        dict(base_attrs, target=sb.get("target"), changed=sb.get("changed"), exc=sb.get("exc", "").split(":")[0]),
                        f"substituting leaf {sb['leaf']} (parameter {sb.get('target')}) changed {sb.get('changed')} {sb.get('exc', '')}")
            # model drift
            if pm is None:
                continue
            if _model_leaves(pm["leaves"]) != ol:
                drift.setdefault("leaves", []).append((prefix, _model_leaves(pm["leaves"]), ol))
            mr = _model_reg(pm["reg"])
            for c, row in st["dyn"].items():
                if c in mr:
                    got = {a: v for a, v in row.items()}
                    if any(mr[c].get(a) != v for a, v in got.items()) or any(a not in got for a in mr[c]):
                        drift.setdefault("registry", []).append((prefix, c, mr[c], got))
    for tname, var in variants.items():
        if len(var) > 1:
            items = sorted(var.items(), key=lambda kv: (len(kv[1]), kv[1]))
            (l1, o1), (l2, o2) = items[0], items[1]
            cul = set()
            for o in orders:
                for st in by_order[o]["steps"]:
                    if st["t"] == tname:
                        cul |= {c.split(":")[0] for c in st.get("culprits", [])}
            add("history_dependence", tname, "variants", o2,
                {"template": tname, "cls": by_order[tuple(o1) if tuple(o1) in by_order else orders[0]]["steps"][0].get("cls", "").split("[")[0]
                 if False else next(st["cls"].split("[")[0] for o in orders for st in by_order[o]["steps"] if st["t"] == tname and "cls" in st),
                 "order": o2, "other_order": o1, "variants": len(var), "culprit": "+".join(sorted(cul)) or "none"},
                f"{len(var)} different flatten() results for the same template: after {o1}: {json.loads(l1)}; "
                f"after {o2}: {json.loads(l2)}")
    for (clause, tname, sig), (cnt, order, attrs, detail) in sorted(agg.items(), key=lambda kv: (kv[0][0], kv[0][1], kv[0][2])):
        viol.append(Violation(PROP, clause, f"{tname} after {order[:-1] if clause != 'history_dependence' else order}",
                              attrs, f"{detail} [{cnt} replayed step(s)]",
                              replay={"kind": "order", "order": order, "template": tname, "clause": clause}))
    if drift:
        for k, v in drift.items():
            extra.append(f"MODEL-DRIFT: registry model and code disagree on {k} in {len(v)} step(s), e.g. {v[0]}")
    # the property as a TLC invariant, modulo the templates excused by committed known findings
    new_v, seen_v, _ = common.triage(PROP, [v for v in viol if v.clause in ("leaves", "history_dependence")])
    excused = {v.attrs["template"] for vs in seen_v.values() for v in vs} - {v.attrs.get("template") for v in new_v}
    inv = tla.run_tlc("MC_Registry", "SPECIFICATION MCSpec\nINVARIANT HistoryIndependentModuloKnown\n", wd,
                      gen_files={"RegistryModel.tla": render_registry_model(X, T_all, L, known_bad=excused, all_len=all_len,
                                                                            conflict=CONFLICT)})
    if inv.error:
        raise tla.TLCError("MC_Registry (invariant run) failed: " + inv.error + "\n" + inv.out[-2000:])
    runs.append(inv)
    inv_verdict = "holds" if not inv.violated else "violated"
    if inv.violated and not new_v:
        extra.append("MODEL-DRIFT: TLC reports HistoryIndependentModuloKnown violated on the model although the replay "
                     "found no new violation")
    n_model_bad = len(model_bad)
    bad_next = sorted({(tuple(ln['h']), b) for tag in lines_by for ln in lines_by[tag] for b in ln["bad"]})
    cov.update({
        "registry_states": sum(r.distinct for r in runs), "registry_transitions": sum(r.states for r in runs),
        "registry_orders_replayed_in_fresh_interpreters": len(orders), "registry_steps_observed": steps_checked,
        "registry_orders_model_checked": len(model), "registry_orders_covered_by_replay": n_selected,
        "registry_templates": len(T_all), "registry_conflict_templates": len(CONFLICT),
        "registry_order_length": {t: ml for t, _, ml in plan}, "registry_orders_all_replayed_up_to_length": full,
        "registry_model_counterexamples": n_model_bad + len(bad_next),
        "registry_model_drift": {k: len(v) for k, v in drift.items()},
        "registry_invariant_modulo_known_findings": inv_verdict, "registry_templates_excused_by_known_findings": sorted(excused),
        "registry_plain_subprocess_crosschecks": len(sub_orders),
        "registry_instances_in_model": len(X["insts"]), "registry_classes_in_model": len(X["classes"]),
    })
    samples = [" -> ".join(o) for o in orders[:: max(1, len(orders) // 3)][:3]]
    return runs, len(orders), samples


def _template_names():
    # names only (no cola import in the parent for this): keep in sync with _templates()
    return CONFLICT + ["Dense", "Triangular", "Sparse", "ScalarMul", "Identity", "Diagonal", "Tridiagonal", "Transpose",
                       "Adjoint", "Sum_DD", "Kronecker_DD", "Kronecker_II", "KronSum_DD", "Permutation", "Concatenated",
                       "Householder", "Kernel", "FFT", "Jacobian", "Hessian", "Generic_matmat", "PSD_Dense",
                       "NystromPrecond", "TriangularInv", "LSTSQSolve", "ArnoldiUnary_plain", "ArnoldiUnary_sv",
                       "IterOp_CG", "IterOp_CGx0", "IterOp_GMRESx0", "Product_DgD", "GetItem_s"]


# =================================================================================================
#                                        PERSISTENCE
# =================================================================================================
# (name, requirement on the operand, descriptor of the created operator) - rendered into PersistModel.tla
PERSIST_ACTS = [
    ("matmul", "any", "none"), ("rmatmul", "any", "none"), ("to_dense", "any", "none"), ("diag_trace", "any", "none"),
    ("solve_cg", "spd", "none"), ("solve_gmres", "any", "none"), ("lanczos", "spd", "none"), ("arnoldi", "any", "none"),
    ("T", "any", "same"), ("H", "any", "same"), ("smul", "any", "same"), ("annotate", "spd", "same"),
    ("flatten_unflatten", "any", "same"), ("to", "any", "same"), ("getitem", "n3", "sub"),
    ("inv_cg", "spd", "spd"), ("inv_gmres", "any", "same"), ("exp", "any", "same"), ("exp_lanczos", "spd", "spd"),
    ("add", "same", "and"), ("dot", "same", "gen"), ("kron", "kron", "kron"),
]
PERSIST_POOL = [{"n": 3, "spd": True}, {"n": 3, "spd": True}, {"n": 4, "spd": False}, {"n": 3, "spd": False},
                {"n": 3, "spd": True}]      # PSD Dense, Diagonal, Kronecker, Permutation, Identity
DIMS = (2, 3, 4, 6, 9, 12)


def render_persist_model(max_len, sample_mod=1, sample_res=0, sweep_len=2, sweep_all=False, sweep_res=0, alg_len=2,
                         alg_all=False):
    acts = [{"name": a, "req": r, "out": o} for a, r, o in PERSIST_ACTS]
    paths = [{"name": nm, "role": role} for nm, role in SWEEP_PATHS]
    return ("---- MODULE PersistModel ----\n\\* generated by harness/props/c18.py\nEXTENDS Integers, Sequences\n"
            f"PM_Pool == {tla.to_tla(PERSIST_POOL)}\nPM_Acts == {tla.to_tla(acts)}\nPM_MaxLen == {max_len}\n"
            f"PM_SampleMod == {sample_mod}\nPM_SampleRes == {sample_res}\n"
            f"PM_Paths == {tla.to_tla(paths)}\nPM_Roles == {tla.to_tla(SWEEP_ROLES)}\n"
            f"PM_Classes == {tla.to_tla(SWEEP_CLASSES)}\nPM_SweepLen == {sweep_len}\n"
            f"PM_SweepAll == {tla.to_tla(bool(sweep_all))}\nPM_SweepRes == {sweep_res}\n"
            f"PM_Decls == {tla.to_tla(ALG_DECLS)}\n"
            f"PM_Algebra == {tla.to_tla([{'name': nm, 'arity': ar} for nm, ar in ALG_OPS])}\n"
            f"PM_AlgLen == {alg_len}\nPM_AlgAll == {tla.to_tla(bool(alg_all))}\nPM_AlgRes == {sweep_res}\n====\n")


def _enabled(req, d, pool=PERSIST_POOL):
    if req == "any":
        return True
    if req == "spd":
        return d["spd"]
    if req == "n3":
        return d["n"] >= 3
    if req == "same":
        return any(p["n"] == d["n"] for p in pool)
    if req == "kron":
        return d["n"] * pool[1]["n"] <= 12
    raise ValueError(req)


def _result(out, d, pool=PERSIST_POOL):
    if out == "none":
        return None
    if out == "same":
        return dict(d)
    if out == "spd":
        return {"n": d["n"], "spd": True}
    if out == "sub":
        return {"n": 2, "spd": d["spd"]}
    base = next((p for p in pool if p["n"] == d["n"]), None)
    if out == "and":
        return {"n": d["n"], "spd": d["spd"] and base["spd"]}
    if out == "gen":
        return {"n": d["n"], "spd": False}
    if out == "kron":
        return {"n": d["n"] * pool[1]["n"], "spd": d["spd"] and pool[1]["spd"]}
    raise ValueError(out)


def random_sequences(count, length, seed):
    """Seeded well-typed sequences (same applicability rules as MC_Persist)."""
    rng = random.Random(seed)
    out = []
    for _ in range(count):
        live = [dict(p) for p in PERSIST_POOL]
        seq = []
        for _ in range(length):
            for _try in range(50):
                ai = rng.randrange(len(PERSIST_ACTS))
                x = rng.randrange(len(live))
                # prefer operating on recently created operators
                if rng.random() < 0.5:
                    x = len(live) - 1 - min(rng.randrange(3), len(live) - 1)
                name, req, res = PERSIST_ACTS[ai]
                if _enabled(req, live[x]) and (res == "none" or len(live) < 9):
                    break
            else:
                break
            seq.append((ai + 1, x + 1))
            r = _result(res, live[x])
            if r is not None:
                live.append(r)
        out.append(tuple(seq))
    return out


def _hx(*parts):
    h = hashlib.sha256()
    for p in parts:
        h.update(p if isinstance(p, bytes) else str(p).encode())
        h.update(b"|")
    return h.hexdigest()[:16]


def _arr_digest(a):
    np = _np()
    a = np.asarray(a)
    return _hx(str(a.dtype), a.shape, np.ascontiguousarray(a).tobytes())


def _val_digest(x):
    np = _np()
    if isinstance(x, np.ndarray) or isinstance(x, np.generic):
        return _arr_digest(x)
    if _is_op(x):
        return _hx("op", type(x).__name__.split("[")[0], *[_val_digest(v) for v in x.flatten()[0]])
    if isinstance(x, (tuple, list)):
        return _hx("seq", *[_val_digest(v) for v in x])
    if isinstance(x, dict):
        return "info"
    return _hx(repr(x))


HIDDEN_SKIP = ("info", )        # diagnostics channel of IterativeOperatorWInfo (wall-clock times, iteration logs)


def _obj_digest(x, depth=0):
    """Identity of an arbitrary attribute value: arrays by bytes, operators / algorithm objects / containers
    recursively, scalars by repr, callables and classes by name."""
    np = _np()
    import types
    if isinstance(x, (np.ndarray, np.generic)):
        return _arr_digest(x)
    if x is None or isinstance(x, (bool, int, float, complex, str, bytes, slice, range)):
        return _hx(type(x).__name__, repr(x))
    if isinstance(x, (np.dtype, type)):
        return _hx("cls", getattr(x, "__name__", None) or str(x))
    if isinstance(x, types.ModuleType):
        return _hx("mod", x.__name__)
    if depth > 6:
        return _hx("deep", type(x).__name__)
    if isinstance(x, (tuple, list)):
        return _hx(type(x).__name__, *[_obj_digest(v, depth + 1) for v in x])
    if isinstance(x, (set, frozenset)):
        return _hx("set", *sorted(_obj_digest(v, depth + 1) for v in x))
    if isinstance(x, dict):
        return _hx("dict", *[_hx(repr(k), _obj_digest(x[k], depth + 1)) for k in sorted(x, key=repr)])
    if isinstance(x, (types.FunctionType, types.BuiltinFunctionType, types.MethodType)):
        return _hx("fn", getattr(x, "__module__", ""), getattr(x, "__qualname__", type(x).__name__))
    d = getattr(x, "__dict__", None)
    if isinstance(d, dict):
        items = [_hx(k, _obj_digest(d[k], depth + 1)) for k in sorted(d) if not (k in HIDDEN_SKIP and _is_op(x))]
        return _hx("obj", type(x).__name__.split("[")[0], *items)
    return _hx("opaque", type(x).__name__)


def _state_digest(A):
    """Full observable state of an operator: shape, dtype and every attribute reachable from the instance, hidden
    ones included (annotations are part of it, and are recorded separately as well)."""
    try:
        return _hx(tuple(A.shape), str(A.dtype), _obj_digest(A))
    except Exception as e:  # noqa: BLE001
        return "exc:" + type(e).__name__


_PINNED = []


def persist_pin():
    """The registry of a process depends on what it constructed first (the known first-assignment defects); the
    persistence replay merges recordings of several worker processes, so every process starts from the same
    registry: index-array slicing, Lanczos / Arnoldi with a start vector are constructed first (the histories in
    which index arrays and start vectors ARE leaves)."""
    if _PINNED:
        return
    np = _np()
    import cola
    from cola import ops
    from cola.linalg.decompositions.decompositions import Arnoldi, Lanczos
    I3 = ops.Identity((3, 3), np.float64)
    _PINNED.append(I3[np.array([0, 1]), np.array([0, 1])])
    with warnings.catch_warnings():
        warnings.simplefilter("ignore")
        _PINNED.append(cola.linalg.exp(cola.SelfAdjoint(ops.Dense(np.eye(3))), Lanczos(start_vector=np.ones(3), max_iters=2)))
        _PINNED.append(cola.linalg.exp(ops.Dense(np.eye(3)), Arnoldi(start_vector=np.ones(3), max_iters=2)))


class World:
    """Caller-owned arrays and the live operators of one replayed path."""
    def __init__(self):
        np = _np()
        import cola
        from cola import ops
        persist_pin()
        rng = np.random.RandomState(1818)
        self.owned = {}
        for n in DIMS:
            self.owned[f"b{n}"] = rng.randint(-3, 4, size=(n, )).astype(np.float64)
            self.owned[f"B{n}"] = rng.randint(-3, 4, size=(n, 2)).astype(np.float64)
            self.owned[f"x0{n}"] = rng.randint(-2, 3, size=(n, )).astype(np.float64)
            self.owned[f"v0{n}"] = rng.randint(1, 4, size=(n, )).astype(np.float64)
        self.owned["idx_r"] = np.array([0, 2])
        self.owned["idx_c"] = np.array([0, 2])
        self.owned["S3"] = _S(3, seed=7)
        self.owned["d3"] = np.array([2., 1., 3.])
        self.owned["a2"] = _M(2, seed=3) + 3 * np.eye(2)
        self.owned["c2"] = _M(2, seed=4) - 3 * np.eye(2)
        self.owned["perm3"] = np.array([2, 0, 1])
        self.names = sorted(self.owned)
        o = self.owned
        self.ops = [cola.PSD(ops.Dense(o["S3"])), ops.Diagonal(o["d3"]),
                    ops.Kronecker(ops.Dense(o["a2"]), ops.Dense(o["c2"])), ops.Permutation(o["perm3"], dtype=np.float64),
                    ops.Identity((3, 3), np.float64)]

    def arr(self, name):
        return self.owned[name]

    def apply(self, ai, x):
        """Execute action ai (1-based) on live operator x (1-based).  Returns the result digest; appends a created
        operator to self.ops."""
        np = _np()
        name, _, out = PERSIST_ACTS[ai - 1]
        A = self.ops[x - 1]
        try:
            with warnings.catch_warnings(), np.errstate(all="ignore"):
                warnings.simplefilter("ignore")
                r = _do(self, name, A)
        except Exception as e:  # noqa: BLE001
            return "exc:" + type(e).__name__
        if out != "none":
            if not _is_op(r):
                return "notop:" + _val_digest(r)
            self.ops.append(r)
            return "op"          # completed below with the triple of the new operator
        return _val_digest(r)

    def snapshot(self):
        """(owned digests, [(dense, ann, leaves before densifying, leaves after, kind, full state)], indices whose leaves
        moved while densifying)."""
        np = _np()
        trip, moved = [], []
        for i, A in enumerate(self.ops):
            l1 = _leaves_digest(A)
            try:
                with warnings.catch_warnings(), np.errstate(all="ignore"):
                    warnings.simplefilter("ignore")
                    d = _arr_digest(np.asarray(A.to_dense()))
            except Exception as e:  # noqa: BLE001
                d = "exc:" + type(e).__name__
            l2 = _leaves_digest(A)
            ann = ",".join(sorted(a.__name__ for a in A.annotations))
            trip.append([d, ann, l1, l2, type(A).__name__.split("[")[0], None])
            if l1 != l2:
                moved.append(i)
        for t, A in zip(trip, self.ops):      # after every operator was densified (densifying is a public call too)
            t[5] = _state_digest(A)
        ow = [_arr_digest(self.owned[k]) for k in self.names]     # after densifying: that is a public call too
        return ow, trip, moved


def _leaves_digest(A):
    try:
        return _hx(*[_val_digest(v) if not _is_op(v) else "op" for v in A.flatten()[0]])
    except Exception as e:  # noqa: BLE001
        return "exc:" + type(e).__name__


def _do(w, name, A):
    import cola
    from cola.linalg.decompositions.arnoldi import arnoldi
    from cola.linalg.decompositions.decompositions import Lanczos
    from cola.linalg.decompositions.lanczos import lanczos
    from cola.linalg.inverse.cg import CG
    from cola.linalg.inverse.gmres import GMRES
    n = A.shape[0]
    b, B, x0, v0 = w.arr(f"b{n}"), w.arr(f"B{n}"), w.arr(f"x0{n}"), w.arr(f"v0{n}")
    def g(f):     # sub-calls fail independently (an exception class is a repeatable result too)
        try:
            return f()
        except Exception as e:  # noqa: BLE001
            return "exc:" + type(e).__name__

    if name == "matmul":
        return (g(lambda: A @ b), g(lambda: A @ B))
    if name == "rmatmul":
        return (g(lambda: b @ A), g(lambda: B.T @ A))
    if name == "to_dense":
        return A.to_dense()
    if name == "diag_trace":
        return (g(lambda: cola.linalg.diag(A, 0)), g(lambda: cola.linalg.diag(A, 1)), g(lambda: cola.linalg.trace(A)))
    if name == "solve_cg":
        return cola.linalg.solve(A, b, CG(x0=x0, tol=1e-8, max_iters=40))
    if name == "solve_gmres":
        return cola.linalg.solve(A, b, GMRES(x0=x0, tol=1e-8, max_iters=n))
    if name == "lanczos":
        return lanczos(A, start_vector=v0, max_iters=n)[:2]
    if name == "arnoldi":
        return arnoldi(A, start_vector=v0, max_iters=n)[:2]
    if name == "T":
        return A.T
    if name == "H":
        return A.H
    if name == "smul":
        return 2.0 * A
    if name == "annotate":
        return cola.PSD(A)
    if name == "flatten_unflatten":
        leaves, unflatten = A.flatten()
        return unflatten(leaves)
    if name == "to":
        return A.to(None)
    if name == "getitem":
        return A[w.arr("idx_r"), w.arr("idx_c")]
    if name == "inv_cg":
        return cola.linalg.inv(A, CG(x0=x0, tol=1e-8, max_iters=40))
    if name == "inv_gmres":
        return cola.linalg.inv(A, GMRES(x0=x0, tol=1e-8, max_iters=n))
    if name == "exp":
        return cola.linalg.exp(A)
    if name == "exp_lanczos":
        return cola.linalg.exp(A, Lanczos(start_vector=v0, max_iters=n))
    base = next((i for i, p in enumerate(PERSIST_POOL) if p["n"] == n), None)
    if name == "add":
        return A + w.ops[base]
    if name == "dot":
        return A @ w.ops[base]
    if name == "kron":
        return cola.kron(A, w.ops[1])
    raise ValueError(name)


def _persist_task(task):
    """task = (prefix, suffixes): execute the prefix from a fresh world, then the suffix trie depth-first on the
    same live objects.  Returns [(path, sig, res, ow, triples)] (path () = initial snapshot)."""
    from .. import fastimport
    fastimport.install()
    from .. import build  # noqa: F401
    prefix, suffixes, record_prefix = task
    out = []

    def fresh(path, record):
        w = World()
        ow, trip, moved = w.snapshot()
        trip = [[t[0], t[1], t[2], t[4], t[5]] for t in trip]
        if record:
            out.append(((), None, "init", ow, trip))
        prev = (ow, trip)
        p = ()
        alive = True
        for k, (ai, x) in enumerate(path):
            n_ops = len(w.ops)
            prev, p, _ = step(w, p, ai, x, prev, record and (record_prefix or k == len(path) - 1))
            if PERSIST_ACTS[ai - 1][2] != "none" and len(w.ops) == n_ops:
                alive = False
                break
        return w, prev, p, alive

    def step(w, path, ai, x, prev, record):
        """apply + snapshot (+ synthetic observe node).  Returns (new prev, new path, dirty)."""
        res = w.apply(ai, x)
        ow, trip, moved = w.snapshot()
        if res == "op":
            res = "op:" + _hx(*trip[-1][:3])
        p2 = path + ((ai, x), )
        # the recorded leaves are those BEFORE the harness densified; if densifying moved them, a synthetic
        # `to_dense` event follows whose leaves are the ones after
        pre = [[t[0], t[1], t[2], t[4], t[5]] for t in trip]
        post = [[t[0], t[1], t[3], t[4], t[5]] for t in trip]
        dirty = ow != prev[0] or any(a[:3] + a[4:] != b[:3] + b[4:] for a, b in zip(prev[1], pre))
        if record:
            out.append((p2, (ai, x), res, ow, pre))
        if moved:
            p2 = p2 + ((0, moved[0] + 1), )
            if record:
                out.append((p2, (0, moved[0] + 1), "obs", ow, post))
            dirty = True
        return (ow, post), p2, dirty

    def dfs(w, prev, path, logical, sub):
        """`logical` is the action path (without synthetic nodes) used to rebuild."""
        dirty_any = False
        for key in sorted(sub):
            ai, x = key
            n_ops = len(w.ops)
            prev2, p2, dirty = step(w, path, ai, x, prev, True)
            created = len(w.ops) > n_ops
            if PERSIST_ACTS[ai - 1][2] != "none" and not created:
                # the producer raised instead of creating an operator: later steps would refer to an operator that
                # does not exist; the rest of this branch is not executable (counted by the caller)
                d2 = False
            else:
                d2 = dfs(w, prev2, p2, logical + (key, ), sub[key]) if sub[key] else False
            if dirty or d2:
                dirty_any = True
                w2, prevr, _, _ = fresh(logical, False)
                w.owned, w.ops, w.names = w2.owned, w2.ops, w2.names
            else:
                del w.ops[n_ops:]
        return dirty_any

    w, prev, p, alive = fresh(prefix, True)
    if not alive:
        return out
    trie = {}
    for s in suffixes:
        d = trie
        for a in s:
            d = d.setdefault(tuple(a), {})
    dfs(w, prev, p, tuple(tuple(a) for a in prefix), trie)
    return out


def persist_execute(seqs, split):
    groups = {}
    for s in seqs:
        s = tuple(tuple(a) for a in s)
        groups.setdefault(s[:split], []).append(s[split:])
    tasks = []
    seen = set()
    for pre in sorted(groups):
        # record the earlier prefix nodes once (by the first task that shares them)
        rec = pre[:-1] not in seen
        seen.add(pre[:-1])
        tasks.append((pre, [x for x in groups[pre] if x], rec))
    res = common.pmap(_persist_task, tasks, chunksize=2)
    nodes = {}
    for lst in res:
        for path, sig, r, ow, trip in lst:
            nodes.setdefault(path, (sig, r, ow, trip))
    return nodes


def persist_records(nodes):
    """BFS numbering with contiguous children; interning of digests."""
    intern = {}

    def iid(x):
        return intern.setdefault(x, len(intern) + 1)

    kids = {}
    for p in nodes:
        if p != ():
            kids.setdefault(p[:-1], []).append(p)
    for k in kids:
        kids[k].sort()
    order = [()]
    i = 0
    while i < len(order):
        order.extend(kids.get(order[i], []))
        i += 1
    pos = {p: k + 1 for k, p in enumerate(order)}
    recs = []
    for p in order:
        sig, r, ow, trip = nodes[p]
        ch = kids.get(p, [])
        recs.append({"p": pos[p[:-1]] if p != () else 0, "fc": pos[ch[0]] if ch else 1, "nc": len(ch),
                     "sig": iid(("sig", sig)) if sig else 0, "res": iid(("res", r)),
                     "ow": iid(("ow", tuple(ow))), "ab": 0, "aa": 0,
                     "ops": [{"d": iid(("d", t[0])), "a": iid(("a", t[1])), "l": iid(("l", t[2])), "h": iid(("h", t[4]))}
                             for t in trip]})
    return recs, order


def persist_validate(wd, recs, tag="persist", workers=16):
    path = os.path.join(wd, f"{tag}.ndjson")
    with open(path, "w") as fh:
        for r in recs:
            fh.write(json.dumps(r, separators=(",", ":")) + "\n")
    os.environ["TRACE_FILE"] = path
    try:
        res = tla.run_tlc("Trace_Persist", "SPECIFICATION Spec\nINVARIANT Verdict\n", wd, workers=workers)
    finally:
        os.environ.pop("TRACE_FILE", None)
    if res.error or res.violated:
        raise tla.TLCError(f"Trace_Persist failed: {res.error or res.violated}\n" + res.out[-2000:])
    if res.distinct != len(recs):
        raise tla.TLCError(f"Trace_Persist visited {res.distinct} of {len(recs)} recorded events")
    return res, {r["l"]: r["v"] for r in res.json_lines()}


def _act_name(key):
    ai, x = key
    return "to_dense" if ai == 0 else PERSIST_ACTS[ai - 1][0]


def _path_str(p):
    return " ; ".join(f"{_act_name(k)}(#{k[1]})" for k in p)


# =================================================================================================
#                       PERSISTENCE: layout sweep of caller-owned arguments
# =================================================================================================
SW_N, SW_K = 4, 3
# value class -> the memory layouts in which ONE value of that class is handed over
SWEEP_CLASSES = {
    "vec": ["v1", "v1s", "v1n", "v1ro"],                        # 1-D: contiguous, strided slice, reversed view, read-only
    "col": ["C", "S", "T", "Cro"],                              # (n,1) right / (1,n) left
    "mat": ["C", "F", "T", "S", "R", "N", "Cro", "Fro"],        # (n,k) right / (k,n) left
    "vec32": ["v1", "v1s"],                                     # float32 operands of float64 operators
    "mat32": ["C", "F"],
    "ivec": ["v1", "v1s", "v1n", "v1ro"],                       # int64 index arrays, with NEGATIVE entries
    "ivec32": ["v1", "v1s", "v1ro"],                            # the same as int32
    "sq": ["C", "F", "T", "S", "N", "Cro", "Fro"],              # (n,n) arrays operators are constructed from
}
SWEEP_ROLES = {
    "rhs": {"sides": ["R", "L"], "classes": ["vec", "col", "mat", "vec32", "mat32"]},
    "start": {"sides": ["A"], "classes": ["vec", "vec32"]},
    "guess": {"sides": ["A"], "classes": ["vec"]},
    "guessm": {"sides": ["A"], "classes": ["mat"]},
    "index": {"sides": ["A"], "classes": ["ivec", "ivec32"]},
    "ctor": {"sides": ["A"], "classes": ["sq"]},
    "ctorv": {"sides": ["A"], "classes": ["vec"]},
}
SWEEP_PATHS = [
    # products
    ("dense", "rhs"), ("triangular", "rhs"), ("diagonal", "rhs"), ("identity", "rhs"), ("scalarmul", "rhs"),
    ("permutation", "rhs"), ("kronecker", "rhs"), ("kronsum", "rhs"), ("sum_I_A", "rhs"), ("sum_A_I", "rhs"),
    ("product", "rhs"), ("transpose", "rhs"), ("adjoint", "rhs"), ("blockdiag", "rhs"), ("tridiagonal", "rhs"),
    ("sliced", "rhs"), ("psd_dense", "rhs"), ("smul", "rhs"),
    # solves / inverses: Triangular, Cholesky, LU, Auto, CG, GMRES, structured rules, least squares
    ("inv_tri_lower", "rhs"), ("inv_tri_upper", "rhs"), ("solve_cholesky", "rhs"), ("solve_lu", "rhs"),
    ("solve_auto_psd", "rhs"), ("solve_auto_gen", "rhs"), ("solve_cg", "rhs"), ("solve_gmres", "rhs"),
    ("inv_diagonal", "rhs"), ("inv_identity", "rhs"), ("inv_scalarmul", "rhs"), ("inv_permutation", "rhs"),
    ("inv_kronecker", "rhs"), ("inv_blockdiag", "rhs"), ("inv_product", "rhs"), ("inv_tridiagonal", "rhs"),
    ("inv_sum", "rhs"), ("inv_unitary", "rhs"), ("pinv", "rhs"),
    # ONE lazy inverse object applied again and again (truncated iterations, no initial guess: the iterate, not the limit)
    ("inv_cg_op", "rhs"), ("inv_gmres_op", "rhs"),
    # matrix functions
    ("exp_dense", "rhs"), ("exp_lanczos", "rhs"), ("exp_arnoldi", "rhs"), ("sqrt_psd", "rhs"), ("log_psd", "rhs"),
    ("pow2", "rhs"),
    # decompositions / matrix functions: start vectors;  iterative solves: initial guesses
    ("lanczos", "start"), ("arnoldi", "start"), ("exp_lanczos_sv", "start"), ("exp_arnoldi_sv", "start"),
    ("cg_x0", "guess"), ("gmres_x0", "guess"), ("cg_x0_block", "guessm"), ("gmres_x0_block", "guessm"),
    # index arrays
    ("getitem_rows", "index"), ("getitem_cols", "index"), ("getitem_rows_only", "index"), ("sliced_ctor", "index"),
    ("permutation_ctor", "index"),
    # arrays operators are constructed from, followed by the factorisation / decomposition that consumes them
    ("dense_ctor", "ctor"), ("triangular_inv_ctor", "ctor"), ("cholesky_ctor", "ctor"), ("lu_ctor", "ctor"),
    ("eig_ctor", "ctor"), ("logdet_ctor", "ctor"), ("diagonal_ctor", "ctorv"),
]


def _sw_mats():
    """Fresh copies of the fixed arrays the swept operators are built from (caller-owned as well)."""
    np = _np()
    n = SW_N
    rng = np.random.RandomState(1805)
    M = rng.randint(-3, 4, size=(n, n)).astype(np.float64)
    Q, _ = np.linalg.qr(M + 5 * np.eye(n))
    return {"S": M @ M.T + n * np.eye(n), "G": M + 5 * np.eye(n), "Lw": np.tril(M) + 5 * np.eye(n),
            "Up": np.triu(M) + 5 * np.eye(n), "d": np.array([2., 1., 3., -2.]), "Q": Q,
            "a2": np.array([[3., 1.], [0., 2.]]), "c2": np.array([[2., -1.], [1., 3.]]),
            "tl": np.array([1., 2., -1.]), "td": np.array([4., 5., 6., 4.]), "tu": np.array([-1., 1., 2.]),
            "perm": np.array([2, 0, 3, 1]), "b0": np.array([1., -2., 3., 1.]),
            "B0": rng.randint(-3, 4, size=(n, SW_K)).astype(np.float64), "cols": np.array([0, 1, 3])}


def sweep_paths():
    """name -> dict(make(m) -> operator or None, R / L / A (A, arg, m) -> result).  m = _sw_mats() of the case."""
    np = _np()
    import cola
    from cola import ops
    from cola.linalg.decompositions.arnoldi import arnoldi
    from cola.linalg.decompositions.decompositions import LU, Arnoldi, Cholesky, Lanczos
    from cola.linalg.decompositions.lanczos import lanczos
    from cola.linalg.inverse.cg import CG
    from cola.linalg.inverse.gmres import GMRES
    n = SW_N
    f64 = np.float64
    I = lambda: ops.Identity((n, n), f64)                       # noqa: E731,E741
    psd = lambda m: cola.PSD(ops.Dense(m["S"]))                 # noqa: E731
    gen = lambda m: ops.Dense(m["G"])                           # noqa: E731
    cg = lambda **kw: CG(tol=1e-10, max_iters=60, **kw)         # noqa: E731
    gm = lambda **kw: GMRES(tol=1e-10, max_iters=n, **kw)       # noqa: E731
    P = {}

    def op(name, make):
        P[name] = {"make": make, "R": lambda A, b, m: A @ b, "L": lambda A, b, m: b @ A}

    def solve(name, base, alg):
        P[name] = {"make": base, "R": lambda A, b, m: cola.solve(A, b, alg()), "L": lambda A, b, m: b @ cola.linalg.inv(A, alg())}

    op("dense", gen)
    op("triangular", lambda m: ops.Triangular(m["Lw"], lower=True))
    op("diagonal", lambda m: ops.Diagonal(m["d"]))
    op("identity", lambda m: I())
    op("scalarmul", lambda m: ops.ScalarMul(2.5, (n, n), dtype=f64))
    op("permutation", lambda m: ops.Permutation(m["perm"], dtype=f64))
    op("kronecker", lambda m: ops.Kronecker(ops.Dense(m["a2"]), ops.Dense(m["c2"])))
    op("kronsum", lambda m: ops.KronSum(ops.Dense(m["a2"]), ops.Dense(m["c2"])))
    op("sum_I_A", lambda m: I() + gen(m))
    op("sum_A_I", lambda m: gen(m) + I())
    op("product", lambda m: gen(m) @ ops.Diagonal(m["d"]))
    op("transpose", lambda m: gen(m).T)
    op("adjoint", lambda m: gen(m).H)
    op("blockdiag", lambda m: ops.BlockDiag(ops.Dense(m["a2"]), ops.Dense(m["c2"])))
    op("tridiagonal", lambda m: ops.Tridiagonal(m["tl"], m["td"], m["tu"]))
    op("sliced", lambda m: ops.Dense(np.pad(m["G"], ((0, 1), (0, 1))))[:n, :n])
    op("psd_dense", psd)
    op("smul", lambda m: 2.0 * gen(m))
    op("inv_tri_lower", lambda m: cola.linalg.inv(ops.Triangular(m["Lw"], lower=True)))
    op("inv_tri_upper", lambda m: cola.linalg.inv(ops.Triangular(m["Up"], lower=False)))
    solve("solve_cholesky", psd, Cholesky)
    solve("solve_lu", gen, LU)
    P["solve_auto_psd"] = {"make": psd, "R": lambda A, b, m: cola.solve(A, b), "L": lambda A, b, m: b @ cola.linalg.inv(A)}
    P["solve_auto_gen"] = {"make": gen, "R": lambda A, b, m: cola.solve(A, b), "L": lambda A, b, m: b @ cola.linalg.inv(A)}
    solve("solve_cg", psd, cg)
    solve("solve_gmres", gen, gm)
    op("inv_diagonal", lambda m: cola.linalg.inv(ops.Diagonal(m["d"])))
    op("inv_identity", lambda m: cola.linalg.inv(I()))
    op("inv_scalarmul", lambda m: cola.linalg.inv(ops.ScalarMul(2.5, (n, n), dtype=f64)))
    op("inv_permutation", lambda m: cola.linalg.inv(ops.Permutation(m["perm"], dtype=f64)))
    op("inv_kronecker", lambda m: cola.linalg.inv(ops.Kronecker(ops.Dense(m["a2"]), ops.Dense(m["c2"]))))
    op("inv_blockdiag", lambda m: cola.linalg.inv(ops.BlockDiag(ops.Dense(m["a2"]), ops.Dense(m["c2"]))))
    op("inv_product", lambda m: cola.linalg.inv(gen(m) @ ops.Diagonal(m["d"])))
    op("inv_tridiagonal", lambda m: cola.linalg.inv(ops.Tridiagonal(m["tl"], m["td"], m["tu"])))
    op("inv_sum", lambda m: cola.linalg.inv(I() + gen(m)))
    op("inv_unitary", lambda m: cola.linalg.inv(cola.Unitary(ops.Dense(m["Q"]))))
    op("pinv", lambda m: cola.linalg.pinv(gen(m)))
    op("inv_cg_op", lambda m: cola.linalg.inv(psd(m), CG(tol=1e-12, max_iters=2)))
    op("inv_gmres_op", lambda m: cola.linalg.inv(gen(m), GMRES(tol=1e-12, max_iters=2)))
    op("exp_dense", lambda m: cola.linalg.exp(ops.Dense(m["G"] / 4)))
    op("exp_lanczos", lambda m: cola.linalg.exp(cola.PSD(ops.Dense(m["S"] / 8)), Lanczos(max_iters=n)))
    op("exp_arnoldi", lambda m: cola.linalg.exp(ops.Dense(m["G"] / 4), Arnoldi(max_iters=n)))
    op("sqrt_psd", lambda m: cola.linalg.sqrt(psd(m)))
    op("log_psd", lambda m: cola.linalg.log(psd(m)))
    op("pow2", lambda m: cola.linalg.pow(gen(m), 2))
    P["lanczos"] = {"make": psd, "A": lambda A, v, m: lanczos(A, start_vector=v, max_iters=n)[:2]}
    P["arnoldi"] = {"make": gen, "A": lambda A, v, m: arnoldi(A, start_vector=v, max_iters=n)[:2]}
    P["exp_lanczos_sv"] = {"make": lambda m: cola.PSD(ops.Dense(m["S"] / 8)),
                           "A": lambda A, v, m: cola.linalg.exp(A, Lanczos(start_vector=v, max_iters=n)) @ m["b0"]}
    P["exp_arnoldi_sv"] = {"make": lambda m: ops.Dense(m["G"] / 4),
                           "A": lambda A, v, m: cola.linalg.exp(A, Arnoldi(start_vector=v, max_iters=n)) @ m["b0"]}
    P["cg_x0"] = {"make": psd, "A": lambda A, v, m: cola.solve(A, m["b0"], cg(x0=v))}
    P["gmres_x0"] = {"make": gen, "A": lambda A, v, m: cola.solve(A, m["b0"], gm(x0=v))}
    P["cg_x0_block"] = {"make": psd, "A": lambda A, v, m: cola.solve(A, m["B0"], cg(x0=v))}
    P["gmres_x0_block"] = {"make": gen, "A": lambda A, v, m: cola.solve(A, m["B0"], gm(x0=v))}
    P["getitem_rows"] = {"make": gen, "A": lambda A, v, m: A[v, m["cols"]].to_dense()}
    P["getitem_cols"] = {"make": gen, "A": lambda A, v, m: A[m["cols"], v].to_dense()}
    P["getitem_rows_only"] = {"make": gen, "A": lambda A, v, m: A[v].to_dense()}
    P["sliced_ctor"] = {"make": gen, "A": lambda A, v, m: ops.Sliced(A, (v, slice(0, 3))) @ m["b0"][:3]}
    P["permutation_ctor"] = {"A": lambda A, v, m: ops.Permutation(v, dtype=f64) @ m["b0"], "value": "perm"}
    P["dense_ctor"] = {"A": lambda A, v, m: (ops.Dense(v) @ m["b0"], m["b0"] @ ops.Dense(v)), "value": "G"}
    P["triangular_inv_ctor"] = {"A": lambda A, v, m: cola.linalg.inv(ops.Triangular(v, lower=True)) @ m["b0"], "value": "Lw"}
    P["cholesky_ctor"] = {"A": lambda A, v, m: cola.solve(cola.PSD(ops.Dense(v)), m["b0"], Cholesky()), "value": "S"}
    P["lu_ctor"] = {"A": lambda A, v, m: cola.solve(ops.Dense(v), m["b0"], LU()), "value": "G"}
    P["eig_ctor"] = {"A": lambda A, v, m: cola.linalg.eig(cola.SelfAdjoint(ops.Dense(v)), k=n)[0], "value": "S"}
    P["logdet_ctor"] = {"A": lambda A, v, m: cola.linalg.logdet(cola.PSD(ops.Dense(v))), "value": "S"}
    P["diagonal_ctor"] = {"A": lambda A, v, m: cola.linalg.inv(ops.Diagonal(v)) @ m["b0"], "value": "d"}
    if sorted(P) != sorted(nm for nm, _ in SWEEP_PATHS):
        raise RuntimeError("SWEEP_PATHS and sweep_paths() are out of sync")
    return P


def sweep_value(pname, role, side, cls, m, P):
    """The logical value of the swept argument (what every layout of the class holds)."""
    np = _np()
    n, k = SW_N, SW_K
    rng = np.random.RandomState(1806)
    vec = rng.randint(-3, 4, size=(n, )).astype(np.float64)
    mat = rng.randint(-3, 4, size=(n, k)).astype(np.float64)
    if role == "rhs":
        v = {"vec": vec, "vec32": vec, "col": mat[:, :1], "mat": mat, "mat32": mat}[cls]
        v = v.T if (side == "L" and v.ndim == 2) else v
        return v.astype(np.float32) if cls.endswith("32") else v
    if role == "start":
        v = np.array([1., 2., 3., 1.])
        return v.astype(np.float32) if cls.endswith("32") else v
    if role == "guess":
        return np.array([1., 0., -1., 2.])
    if role == "guessm":
        return rng.randint(-2, 3, size=(n, k)).astype(np.float64)
    idt = np.int32 if cls == "ivec32" else np.int64
    if role == "index" and "value" not in P:
        return np.array([0, -2, -1], dtype=idt)           # entries counting from the end: rows / columns 0, 2, 3
    v = np.array(m[P["value"]], copy=True)
    return v.astype(idt) if role == "index" else v


def make_layout(kind, vals):
    """(array handed to the call, the buffer it is a view of or None)."""
    np = _np()
    v = np.array(vals, copy=True)
    if kind in ("v1", "C"):
        return np.ascontiguousarray(v), None
    if kind in ("v1ro", "Cro", "Fro"):
        a = np.asfortranarray(v) if kind == "Fro" else np.ascontiguousarray(v)
        a.setflags(write=False)
        return a, None
    if kind == "F":
        return np.asfortranarray(v), None
    if kind == "v1s":
        base = np.full(2 * len(v), 77, dtype=v.dtype)
        base[::2] = v
        return base[::2], base
    if kind == "v1n":
        rev = v[::-1].copy()
        return rev[::-1], rev
    if kind == "T":
        bt = np.ascontiguousarray(v.T)
        return bt.T, bt
    if kind == "S":
        base = np.full((v.shape[0], 2 * v.shape[1]), 77, dtype=v.dtype)
        base[:, ::2] = v
        return base[:, ::2], base
    if kind == "R":
        base = np.full((2 * v.shape[0], v.shape[1]), 77, dtype=v.dtype)
        base[::2] = v
        return base[::2], base
    if kind == "N":
        rev = v[::-1, ::-1].copy()
        return rev[::-1, ::-1], rev
    raise ValueError(kind)


def _layout_digest(arr, base):
    np = _np()
    d = _hx(str(arr.dtype), arr.shape, arr.strides, arr.flags.writeable, arr.flags.c_contiguous, arr.flags.f_contiguous,
            np.ascontiguousarray(arr).tobytes())
    return d if base is None else _hx(d, base.shape, base.flags.writeable, np.ascontiguousarray(base).tobytes())


def _sw_value(r):
    """Result -> nested list of dense arrays (operators densified) or a string for anything else."""
    np = _np()
    if isinstance(r, (tuple, list)):
        return [_sw_value(x) for x in r]
    if _is_op(r):
        return np.asarray(r.to_dense())
    if isinstance(r, (np.ndarray, np.generic, int, float, complex)):
        return np.asarray(r)
    return repr(type(r))


def _sw_close(a, b, tol):
    np = _np()
    if isinstance(a, list) or isinstance(b, list):
        return isinstance(a, list) and isinstance(b, list) and len(a) == len(b) and all(_sw_close(x, y, tol) for x, y in zip(a, b))
    if isinstance(a, str) or isinstance(b, str):
        return a == b
    if a.shape != b.shape or a.dtype != b.dtype:
        return False
    scale = float(np.max(np.abs(b))) if b.size and np.all(np.isfinite(b)) else 1.0
    return bool(np.allclose(a, b, rtol=tol, atol=tol * max(1.0, scale), equal_nan=True))


class SweepCase:
    """One (path, side, value class): the operator, the value in every layout of the class, the fixed arrays."""
    def __init__(self, pname, side, cls):
        np = _np()
        persist_pin()
        self.pname, self.side, self.cls = pname, side, cls
        self.role = dict(SWEEP_PATHS)[pname]
        self.P = sweep_paths()[pname]
        self.m = _sw_mats()
        vals = sweep_value(pname, self.role, side, cls, self.m, self.P)
        self.kinds = SWEEP_CLASSES[cls]
        self.lay = {kd: make_layout(kd, vals) for kd in self.kinds}
        # another value of the same class (same shape and dtype) for the unrelated call
        other = np.array(vals[::-1], copy=True)
        other = other if other.dtype.kind in "iu" else (other * 2 + 1).astype(vals.dtype)
        self.lay["other"] = (np.ascontiguousarray(other), None)
        self.other_classes = []
        self.fixed = sorted(self.m)
        self.tol = 1e-3 if cls.endswith("32") else 1e-6
        self.classes = []           # representatives of the result classes seen so far
        with warnings.catch_warnings(), np.errstate(all="ignore"):
            warnings.simplefilter("ignore")
            self.A = self.P["make"](self.m) if "make" in self.P else None

    def arg_digest(self, kind):
        return _layout_digest(*self.lay[kind])

    def owned(self):
        return [self.arg_digest(kd) for kd in self.kinds + ["other"]] + [_arr_digest(self.m[k]) for k in self.fixed]

    def owned_names(self):
        return [f"{self.cls}:{kd}" for kd in self.kinds + ["other"]] + ["fixed:" + k for k in self.fixed]

    def ops(self):
        """[[dense, annotations, leaves before densifying, kind]] of the swept operator (none for constructor paths)."""
        np = _np()
        if self.A is None:
            return []
        l1 = _leaves_digest(self.A)
        try:
            with warnings.catch_warnings(), np.errstate(all="ignore"):
                warnings.simplefilter("ignore")
                d = _arr_digest(np.asarray(self.A.to_dense()))
        except Exception as e:  # noqa: BLE001
            d = "exc:" + type(e).__name__
        ann = ",".join(sorted(a.__name__ for a in self.A.annotations))
        return [[d, ann, l1, type(self.A).__name__.split("[")[0], _state_digest(self.A)]]

    def call(self, kind):
        """-> (result identity, argument digest before, after).  Results equal within tolerance share an identity."""
        np = _np()
        arr = self.lay[kind][0]
        ab = self.arg_digest(kind)
        try:
            with warnings.catch_warnings(), np.errstate(all="ignore"):
                warnings.simplefilter("ignore")
                val = _sw_value(self.P[self.side](self.A, arr, self.m))
        except Exception as e:  # noqa: BLE001
            return "exc:" + type(e).__name__, ab, self.arg_digest(kind), f"{type(e).__name__}: {str(e)[:120]}"
        aa = self.arg_digest(kind)
        classes = self.other_classes if kind == "other" else self.classes
        for i, rep in enumerate(classes):
            if _sw_close(val, rep, self.tol):
                return f"val{i}", ab, aa, ""
        classes.append(val)
        return f"val{len(classes) - 1}", ab, aa, ""


def _sweep_task(task):
    """task = (path, side, class, [segments of layout kinds]): the segments one after the other on one SweepCase.
    Returns [(kind or None, res, ab, aa, owned digests, ops, note)] (first entry: the initial snapshot)."""
    from .. import fastimport
    fastimport.install()
    from .. import build  # noqa: F401
    pname, side, cls, segments = task
    try:
        c = SweepCase(pname, side, cls)
    except Exception as e:  # noqa: BLE001   the swept operator cannot even be built: reported by the caller
        return [(None, "ctor-exc:" + type(e).__name__ + ": " + str(e)[:120], "", "", [], [], "")]
    out = [(None, "init", "", "", c.owned(), c.ops(), "")]
    for seg in segments:
        for kind in seg:
            res, ab, aa, note = c.call(kind)
            out.append((kind, res, ab, aa, c.owned(), c.ops(), note))
    return out


def sweep_execute(lines):
    """lines: printed sweep behaviours [{sw: {p, s, c}, q: [kinds]}] -> [(case key, events)] (one chain per case)."""
    groups = {}
    for ln in lines:
        groups.setdefault((ln["sw"]["p"], ln["sw"]["s"], ln["sw"]["c"]), []).append(tuple(ln["q"]))
    tasks = [(p, sd, c, sorted(segs)) for (p, sd, c), segs in sorted(groups.items())]
    res = common.pmap(_sweep_task, tasks, chunksize=8)
    return list(zip([t[:3] for t in tasks], res))


def sweep_records(chains, offset):
    """Trace_Persist records of the sweep chains (numbered from offset + 1) and, per record, (case key, event index)."""
    intern = {}

    def iid(x):
        return intern.setdefault(x, len(intern) + 1)

    recs, where = [], []
    for key, evs in chains:
        first = offset + len(recs) + 1
        for j, (kind, res, ab, aa, ow, trip, _) in enumerate(evs):
            me = first + j
            recs.append({"p": 0 if j == 0 else me - 1, "fc": me + 1 if j + 1 < len(evs) else 1, "nc": 1 if j + 1 < len(evs) else 0,
                         "sig": 0 if j == 0 else iid(("sig", key, kind == "other")), "res": iid(("res", key, kind == "other", res)),
                         "ow": iid(("ow", tuple(ow))), "ab": iid(("arg", ab)) if j else 0, "aa": iid(("arg", aa)) if j else 0,
                         "ops": [{"d": iid(("d", t[0])), "a": iid(("a", t[1])), "l": iid(("l", t[2])), "h": iid(("h", t[4]))}
                                 for t in trip]})
            where.append((key, j))
    return recs, where


def sweep_violations(chains, where, bad, offset, viol):
    """Rejected sweep events -> violations, aggregated per (clause, path, side, class)."""
    by_key = dict(chains)
    agg = {}
    for l, v in sorted(bad.items()):
        if l <= offset:
            continue
        key, j = where[l - offset - 1]
        pname, side, cls = key
        evs = by_key[key]
        kind, res, ab, aa, ow, trip, note = evs[j]
        _, pres, _, _, pow_, ptrip, _ = evs[j - 1]
        role = dict(SWEEP_PATHS)[pname]
        opkind = trip[0][3] if trip else "none"
        names = [f"{cls}:{kd}" for kd in SWEEP_CLASSES[cls] + ["other"]] + ["fixed:" + k for k in sorted(_sw_mats_names())]
        found = []
        if not v["arr"] or not v["argf"]:
            changed = [names[i] for i, (a, b) in enumerate(zip(pow_, ow)) if a != b]
            if ab != aa and f"{cls}:{kind}" not in changed:
                changed.append(f"{cls}:{kind}")
            found.append(("array_mutated", {"arrays": sorted(changed), "argument_mutated": ab != aa},
                          f"caller-owned array(s) {sorted(changed)} changed (argument in layout {kind}"
                          f"{': overwritten' if ab != aa else ''})"))
        for flag, clause, idx, part in (("den", "operator_changed", 0, "dense"), ("lea", "operator_changed", 2, "leaves"),
                                        ("ann", "annotations_changed", 1, "annotations"),
                                        ("hid", "operator_changed", 4, "state")):
            if not v[flag]:
                if flag == "hid" and not (v["den"] and v["lea"] and v["ann"]):
                    continue
                found.append((clause, {"part": part, "changed_kinds": [opkind]},
                              f"{part} of the swept operator ({opkind}) changed"
                              + (" (an attribute outside flatten(): the operator remembers something of the call)" if flag == "hid" else "")))
        if not v["grow"]:
            found.append(("operator_changed", {"part": "pool"}, "the swept operator disappeared"))
        if not v["rep"]:
            first = next(e for e in evs[1:] if e[0] is not None and (e[0] == "other") == (kind == "other"))
            ro = kind.endswith("ro") and res.startswith("exc:") and not first[1].startswith("exc:")
            again = any(e[0] == kind and e[1] != res for e in evs[1:j])
            after_other = again and any(e[0] == "other" for e in evs[1:j])
            clause = "readonly_rejected" if ro else ("repeat_differs" if again else "layout_dependent_result")
            found.append((clause, {"result": res.split(":")[0], "first_result": first[1], "after_unrelated_call": after_other},
                          f"result {res} {note} differs from the result {first[1]} of the same call with the argument in layout "
                          f"{first[0]}" + (" (and from the earlier call with this very array)" if again else "")))
        for clause, at, detail in found:
            akey = (clause, pname, side, cls, json.dumps({k: v2 for k, v2 in at.items() if k != "arrays"}, sort_keys=True))
            ent = agg.get(akey)
            if ent is None:
                agg[akey] = [1, j, dict(at, action="sweep:" + role, kind=opkind, path=pname, side=side, cls=cls, layouts=[kind]),
                             detail, [e[0] for e in evs[1:j + 1]]]
            else:
                ent[0] += 1
                if kind not in ent[2]["layouts"]:
                    ent[2]["layouts"].append(kind)
                if "arrays" in at:
                    ent[2]["arrays"] = sorted(set(ent[2].get("arrays", [])) | set(at["arrays"]))
    for (clause, pname, side, cls, _), (cnt, j, attrs, detail, seq) in sorted(agg.items()):
        attrs["layouts"] = sorted(attrs["layouts"])
        viol.append(Violation(PROP, clause, f"sweep {pname} side={side} {cls} layouts={attrs['layouts']}", attrs,
                              f"{detail} [{cnt} recorded event(s) rejected by Trace_Persist]",
                              replay={"kind": "sweep", "path": pname, "side": side, "cls": cls, "seq": seq}))


def _sw_mats_names():
    return ["S", "G", "Lw", "Up", "d", "Q", "a2", "c2", "tl", "td", "tu", "perm", "b0", "B0", "cols"]


# =================================================================================================
#                  PERSISTENCE: operator algebra on declared operands (mode "algebra")
# =================================================================================================
ALG_DECLS = ["PSD", "SelfAdjoint", "Unitary", "Stiefel", "none"]
# (name, arity): arity 1 = operates on X, 2 = on X and Y
ALG_OPS = [
    ("neg", 1), ("neg_Y", 2), ("sub", 2), ("rsub", 2), ("sub_self", 1), ("add", 2),
    ("smul_pos", 1), ("smul_neg", 1), ("rmul_neg", 1), ("smul_negint", 1), ("smul_npneg", 1), ("smul_neg_Y", 2),
    ("smul_cplx", 1), ("rmul_cplx", 1), ("smul_zero", 1), ("div_pos", 1), ("div_neg", 1), ("div_cplx", 1),
    ("matmul", 2), ("rmatmul", 2), ("gram", 1), ("kron", 2), ("kronsum", 2), ("block_diag", 2),
    ("T", 1), ("H", 1), ("slice", 1), ("index", 1),
    ("decl_PSD", 1), ("decl_SelfAdjoint", 1), ("decl_Unitary", 1), ("decl_Stiefel", 1),
    ("matvec", 1), ("rmatvec", 1), ("to_dense", 1),
]


def alg_ops():
    np = _np()
    import cola
    idx = (np.array([0, 2]), np.array([0, 1]))
    F = {
        "neg": lambda X, Y, b: -X, "neg_Y": lambda X, Y, b: -Y, "sub": lambda X, Y, b: X - Y, "rsub": lambda X, Y, b: Y - X,
        "sub_self": lambda X, Y, b: X - X, "add": lambda X, Y, b: X + Y,
        "smul_pos": lambda X, Y, b: 2.0 * X, "smul_neg": lambda X, Y, b: -0.5 * X, "rmul_neg": lambda X, Y, b: X * (-0.5),
        "smul_negint": lambda X, Y, b: -1 * X, "smul_npneg": lambda X, Y, b: X * np.float64(-3.0),
        "smul_neg_Y": lambda X, Y, b: -2.0 * Y,
        "smul_cplx": lambda X, Y, b: 1j * X, "rmul_cplx": lambda X, Y, b: X * (2 - 1j), "smul_zero": lambda X, Y, b: 0.0 * X,
        "div_pos": lambda X, Y, b: X / 3.0, "div_neg": lambda X, Y, b: X / (-2.0), "div_cplx": lambda X, Y, b: X / 1j,
        "matmul": lambda X, Y, b: X @ Y, "rmatmul": lambda X, Y, b: Y @ X, "gram": lambda X, Y, b: X.H @ X,
        "kron": lambda X, Y, b: cola.kron(X, Y), "kronsum": lambda X, Y, b: cola.kronsum(X, Y),
        "block_diag": lambda X, Y, b: cola.block_diag(X, Y),
        "T": lambda X, Y, b: X.T, "H": lambda X, Y, b: X.H, "slice": lambda X, Y, b: X[1:3, 0:2], "index": lambda X, Y, b: X[idx],
        "decl_PSD": lambda X, Y, b: cola.PSD(X), "decl_SelfAdjoint": lambda X, Y, b: cola.SelfAdjoint(X),
        "decl_Unitary": lambda X, Y, b: cola.Unitary(X), "decl_Stiefel": lambda X, Y, b: cola.Stiefel(X),
        "matvec": lambda X, Y, b: X @ b[:X.shape[1]], "rmatvec": lambda X, Y, b: b[:X.shape[0]] @ X,
        "to_dense": lambda X, Y, b: X.to_dense(),
    }
    if sorted(F) != sorted(nm for nm, _ in ALG_OPS):
        raise RuntimeError("ALG_OPS and alg_ops() are out of sync")
    return F


class AlgCase:
    """Two operands X, Y declared `decl` (matrices that do have the declared property) and the arrays they own."""
    def __init__(self, decl):
        np = _np()
        import cola
        from cola import ops
        persist_pin()
        m = _sw_mats()
        Q2, _ = np.linalg.qr(m["G"].T + 2 * np.eye(SW_N))
        sym = m["G"] + m["G"].T - 6 * np.eye(SW_N)
        self.m = {"S": m["S"], "sym": sym, "Q": m["Q"], "Q2": Q2, "G": m["G"], "d": m["d"], "dpos": np.array([1., 2., 3., 4.]),
                  "Qk": np.ascontiguousarray(m["Q"][:, :3]), "Q2k": np.ascontiguousarray(Q2[:, :3]), "b0": m["b0"]}
        o = self.m
        if decl == "PSD":
            X, Y = cola.PSD(ops.Dense(o["S"])), cola.PSD(ops.Diagonal(o["dpos"]))
        elif decl == "SelfAdjoint":
            X, Y = cola.SelfAdjoint(ops.Dense(o["sym"])), cola.SelfAdjoint(ops.Diagonal(o["d"]))
        elif decl == "Unitary":
            X, Y = cola.Unitary(ops.Dense(o["Q"])), cola.Unitary(ops.Dense(o["Q2"]))
        elif decl == "Stiefel":
            X, Y = cola.Stiefel(ops.Dense(o["Qk"])), cola.Stiefel(ops.Dense(o["Q2k"]))
        else:
            X, Y = ops.Dense(o["G"]), ops.Diagonal(o["d"])
        self.decl, self.X, self.Y = decl, X, Y
        self.names = sorted(self.m)
        self.F = alg_ops()

    def owned(self):
        return [_arr_digest(self.m[k]) for k in self.names]

    def ops(self):
        np = _np()
        out = []
        for A in (self.X, self.Y):
            l1 = _leaves_digest(A)
            try:
                with warnings.catch_warnings(), np.errstate(all="ignore"):
                    warnings.simplefilter("ignore")
                    d = _arr_digest(np.asarray(A.to_dense()))
            except Exception as e:  # noqa: BLE001
                d = "exc:" + type(e).__name__
            ann = ",".join(sorted(a.__name__ for a in A.annotations))
            out.append([d, ann, l1, type(A).__name__.split("[")[0], _state_digest(A)])
        return out

    def call(self, name):
        """-> (result identity, note).  An operator result is identified by kind, shape, dtype, annotations, matrix."""
        np = _np()
        try:
            with warnings.catch_warnings(), np.errstate(all="ignore"):
                warnings.simplefilter("ignore")
                r = self.F[name](self.X, self.Y, self.m["b0"])
                if _is_op(r):
                    ann = ",".join(sorted(a.__name__ for a in r.annotations))
                    return _hx("op", type(r).__name__.split("[")[0], tuple(r.shape), str(r.dtype), ann,
                               _arr_digest(np.asarray(r.to_dense()))), f"{type(r).__name__.split('[')[0]}{{{ann}}}"
                return _val_digest(r), ""
        except Exception as e:  # noqa: BLE001
            return "exc:" + type(e).__name__, f"{type(e).__name__}: {str(e)[:100]}"


def _alg_task(task):
    """task = (declaration, [segments of operation names]) -> events like _sweep_task (ab = aa = '')."""
    from .. import fastimport
    fastimport.install()
    from .. import build  # noqa: F401
    decl, segments = task
    c = AlgCase(decl)
    out = [(None, "init", "", "", c.owned(), c.ops(), "")]
    for seg in segments:
        for name in seg:
            res, note = c.call(name)
            out.append((name, res, "", "", c.owned(), c.ops(), note))
    return out


def alg_execute(lines):
    groups = {}
    for ln in lines:
        groups.setdefault(ln["alg"], []).append(tuple(ln["q"]))
    tasks = [(d, sorted(segs)) for d, segs in sorted(groups.items())]
    from concurrent.futures import ProcessPoolExecutor
    with ProcessPoolExecutor(max_workers=max(1, len(tasks))) as ex:
        res = list(ex.map(_alg_task, tasks))
    return [((d, ), evs) for (d, _), evs in zip(tasks, res)]


def alg_records(chains, offset):
    """Trace_Persist records of the algebra chains: the signature of an event is (declaration, operation)."""
    intern = {}

    def iid(x):
        return intern.setdefault(x, len(intern) + 1)

    recs, where = [], []
    for key, evs in chains:
        first = offset + len(recs) + 1
        for j, (name, res, _, _, ow, trip, _) in enumerate(evs):
            me = first + j
            recs.append({"p": 0 if j == 0 else me - 1, "fc": me + 1 if j + 1 < len(evs) else 1, "nc": 1 if j + 1 < len(evs) else 0,
                         "sig": 0 if j == 0 else iid(("sig", key, name)), "res": iid(("res", key, name, res)),
                         "ow": iid(("ow", tuple(ow))), "ab": 0, "aa": 0,
                         "ops": [{"d": iid(("d", t[0])), "a": iid(("a", t[1])), "l": iid(("l", t[2])), "h": iid(("h", t[4]))}
                                 for t in trip]})
            where.append((key, j))
    return recs, where


def alg_violations(chains, where, bad, offset, viol):
    by_key = dict(chains)
    agg = {}
    for l, v in sorted(bad.items()):
        if l <= offset or l > offset + len(where):
            continue
        key, j = where[l - offset - 1]
        decl = key[0]
        evs = by_key[key]
        name, res, _, _, ow, trip, note = evs[j]
        _, _, _, _, pow_, ptrip, _ = evs[j - 1]
        found = []
        if not v["arr"]:
            found.append(("array_mutated", {"arrays": ["operand-arrays"]}, "array(s) the operands were built from changed"))
        for flag, clause, idx, part in (("den", "operator_changed", 0, "dense"), ("lea", "operator_changed", 2, "leaves"),
                                        ("ann", "annotations_changed", 1, "annotations"), ("hid", "operator_changed", 4, "state")):
            if not v[flag]:
                if flag == "hid" and not (v["den"] and v["lea"] and v["ann"]):
                    continue
                ch = [("XY"[i], ptrip[i][3], ptrip[i][idx], trip[i][idx]) for i in range(2) if ptrip[i][idx] != trip[i][idx]]
                detail = f"{part} of operand(s) " + ", ".join(
                    f"{w} ({k})" + (f": {{{a}}} -> {{{b}}}" if part == "annotations" else "") for w, k, a, b in ch) + " changed"
                found.append((clause, {"part": part, "changed_kinds": sorted({k for _, k, _, _ in ch}),
                                       "operands": sorted({w for w, _, _, _ in ch})}, detail))
        if not v["rep"]:
            found.append(("repeat_differs", {}, f"the repeated operation returned {res[:12]} {note}, not what it returned before"))
        for clause, at, detail in found:
            akey = (clause, decl, name, json.dumps(at, sort_keys=True))
            ent = agg.setdefault(akey, [0, dict(at, action="algebra:" + name, kind=ptrip[0][3], decl=decl, op=name), detail,
                                        [e[0] for e in evs[1:j + 1]]])
            ent[0] += 1
    for (clause, decl, name, _), (cnt, attrs, detail, seq) in sorted(agg.items()):
        viol.append(Violation(PROP, clause, f"algebra {name} on {decl}-declared operands", attrs,
                              f"{detail} [{cnt} recorded event(s) rejected by Trace_Persist]",
                              replay={"kind": "algebra", "decl": decl, "seq": seq}))


def persist_part(tier, wd, viol, cov):
    depth = 2 if tier == "quick" else 3
    sample_mod = 1 if tier == "quick" else 8
    mcr = tla.run_tlc("MC_Persist", "SPECIFICATION MCSpec\nINVARIANT Typed\nINVARIANT Emit\nPROPERTY Persistence\n"
                      "PROPERTY MemoStable\nPROPERTY ArgumentsFrame\n", wd,
                      gen_files={"PersistModel.tla": render_persist_model(depth, sample_mod, common.seed() % sample_mod,
                                                                           sweep_len=depth, sweep_all=False,
                                                                           sweep_res=common.seed(), alg_len=depth)})
    if mcr.error or mcr.violated:
        raise tla.TLCError(f"MC_Persist failed: {mcr.error or mcr.violated}\n" + mcr.out[-2000:])
    printed = mcr.json_lines()
    seqs = [tuple(tuple(a) for a in ln["h"]) for ln in printed if "h" in ln]
    sweep_lines = [ln for ln in printed if "sw" in ln]
    alg_lines = [ln for ln in printed if "alg" in ln]
    n_tlc = len(seqs)
    rnd = random_sequences(24 if tier == "quick" else 240, 10 if tier == "quick" else 14, common.seed() + 18)
    from .. import fastimport
    fastimport.install()
    from .. import build  # noqa: F401
    persist_pin()          # before the worker pool forks
    nodes = persist_execute(list(seqs), split=1 if depth == 2 else 2)
    nodes_r = persist_execute(rnd, split=1)
    for p, v in nodes_r.items():
        nodes.setdefault(p, v)
    if nodes[()][2:] != nodes_r[()][2:]:
        raise RuntimeError("initial snapshots differ between workers")
    recs, order = persist_records(nodes)
    # ---- layout sweep of arguments: one chain per (path, side, value class), validated in the same TLC run
    n_cases = sum(len(SWEEP_ROLES[role]["sides"]) * len(SWEEP_ROLES[role]["classes"]) for _, role in SWEEP_PATHS)
    chains = sweep_execute(sweep_lines)
    if len(chains) != n_cases:
        raise RuntimeError(f"sweep: {len(chains)} of {n_cases} cases printed by MC_Persist")
    for (pname, side, cls), evs in chains:
        firsts = {seg["q"][0] for seg in sweep_lines if (seg["sw"]["p"], seg["sw"]["s"], seg["sw"]["c"]) == (pname, side, cls)}
        if firsts != set(SWEEP_CLASSES[cls]):
            raise RuntimeError(f"sweep {pname} {side} {cls}: layouts {sorted(set(SWEEP_CLASSES[cls]) - firsts)} never come first")
        if evs[0][1] != "init":
            viol.append(Violation(PROP, "operator_changed", f"sweep {pname}", {"action": "sweep:ctor", "path": pname, "part": "ctor"},
                                  f"the swept operator cannot be constructed: {evs[0][1]}",
                                  replay={"kind": "sweep", "path": pname, "side": side, "cls": cls, "seq": []}))
    chains = [c for c in chains if c[1][0][1] == "init"]
    srecs_sw, swhere = sweep_records(chains, len(recs))
    n_base = len(recs)
    # ---- operator algebra on declared operands: one chain per declaration, same TLC run
    achains = alg_execute(alg_lines)
    if sorted(k[0] for k, _ in achains) != sorted(ALG_DECLS):
        raise RuntimeError("algebra: not every declaration was printed by MC_Persist")
    for (decl, ), evs in achains:
        if {ln["q"][0] for ln in alg_lines if ln["alg"] == decl} != {nm for nm, _ in ALG_OPS}:
            raise RuntimeError(f"algebra {decl}: some operation never comes first")
    srecs_alg, awhere = alg_records(achains, n_base + len(srecs_sw))
    recs = recs + srecs_sw + srecs_alg
    tres, bad = persist_validate(wd, recs)
    sweep_violations(chains, swhere, {l: v for l, v in bad.items() if l <= n_base + len(srecs_sw)}, n_base, viol)
    alg_violations(achains, awhere, bad, n_base + len(srecs_sw), viol)
    bad = {l: v for l, v in bad.items() if l <= n_base}
    # ---- rejected events -> violations (which entry changed is read off the recording)
    agg = {}
    for l, v in sorted(bad.items()):
        p = order[l - 1]
        sig, r, ow, trip = nodes[p]
        psig, pr, pow_, ptrip = nodes[p[:-1]]
        action = _act_name(p[-1])
        operand_kind = ptrip[p[-1][1] - 1][3] if p[-1][1] - 1 < len(ptrip) else "?"
        found = []
        if not v["arr"]:
            names = sorted(_owned_names())
            changed = [names[i] for i, (a, b) in enumerate(zip(pow_, ow)) if a != b]
            found.append(("array_mutated", {"arrays": changed}, f"caller-owned array(s) {changed} changed"))
        for flag, clause, idx, part in (("den", "operator_changed", 0, "dense"), ("lea", "operator_changed", 2, "leaves"),
                                        ("ann", "annotations_changed", 1, "annotations"),
                                        ("hid", "operator_changed", 4, "state")):
            if not v[flag]:
                if flag == "hid" and not (v["den"] and v["lea"] and v["ann"]):
                    continue          # already reported through the part that changed
                ch = [(i + 1, ptrip[i][3]) for i in range(min(len(ptrip), len(trip))) if ptrip[i][idx] != trip[i][idx]]
                found.append((clause, {"part": part, "changed_kinds": sorted({k for _, k in ch})},
                              f"{part} of pre-existing operator(s) {ch} changed"))
        if not v["grow"]:
            found.append(("operator_changed", {"part": "pool"}, f"live operators went from {len(ptrip)} to {len(trip)}"))
        if not v["rep"]:
            found.append(("repeat_differs", {}, "a repeated call returned a different result"))
        for clause, at, detail in found:
            attrs = dict(at, action=action, kind=operand_kind)
            key = (clause, action, operand_kind, json.dumps(at, sort_keys=True))
            ent = agg.setdefault(key, [0, p, attrs, detail])
            ent[0] += 1
            if len(p) < len(ent[1]):
                ent[1], ent[3] = p, detail
    for (clause, action, kind, _), (cnt, p, attrs, detail) in sorted(agg.items()):
        viol.append(Violation(PROP, clause, f"{action} on {kind}: {_path_str(p)}", attrs,
                              f"{detail} [{cnt} recorded event(s) rejected by Trace_Persist]",
                              replay={"kind": "persist", "path": [list(k) for k in p if k[0] != 0]}))
    # ---- negative controls: five corrupted copies of a small recording, validated as one forest
    small_nodes = {p: v for p, v in nodes.items() if len(p) <= 1 and all(k[0] != 0 for k in p)}
    srecs, sorder = persist_records(small_nodes)
    i = next(k for k, r in enumerate(srecs) if r["p"] != 0)
    forest, expect = [], []

    def add_tree(tree, node, flag):
        off = len(forest)
        for r in tree:
            r = json.loads(json.dumps(r))
            if r["p"] != 0:
                r["p"] += off
            r["fc"] += off
            forest.append(r)
        expect.append((off + node + 1, flag))

    for field, flag in (("ow", "arr"), ("d", "den"), ("a", "ann"), ("l", "lea"), ("h", "hid")):
        mut = json.loads(json.dumps(srecs))
        if field == "ow":
            mut[i]["ow"] = 999999
        else:
            mut[i]["ops"][0][field] = 999999
        add_tree(mut, i, flag)
    mut = json.loads(json.dumps(srecs))          # a repeated call with a different result
    extra_node = dict(mut[i], p=i + 1, fc=1, nc=0, res=999999)
    mut[i]["fc"], mut[i]["nc"] = len(mut) + 1, 1
    mut.append(extra_node)
    add_tree(mut, len(mut) - 1, "rep")
    # layout sweep: a (real) chain with the argument digest after one call corrupted / with the result of the call on
    # one layout corrupted (e.g. an exception on the read-only layout); the untouched chain must be accepted
    k0 = next(k for k, r in enumerate(srecs_sw) if r["p"] == 0)
    k1 = next(k for k in range(k0 + 1, len(srecs_sw) + 1) if k == len(srecs_sw) or srecs_sw[k]["p"] == 0)
    chain = [dict(r) for r in srecs_sw[k0:k1]]
    for r in chain:                      # renumber from 1
        r["p"] = r["p"] - n_base - k0 if r["p"] else 0
        r["fc"] = r["fc"] - n_base - k0 if r["nc"] else 1
    add_tree(chain, 0, "clean")
    clean_nodes = list(range(len(forest) - len(chain) + 1, len(forest) + 1))
    mut = json.loads(json.dumps(chain))
    mut[1]["aa"] = 999999
    add_tree(mut, 1, "argf")
    mut = json.loads(json.dumps(chain))
    mut[2]["res"] = 999999
    add_tree(mut, 2, "rep")
    # operator algebra: the head of a (real) chain, untouched / with the annotations of operand Y after the first
    # operation / the full state of operand X after the second corrupted
    a0 = n_base + len(srecs_sw)
    achain = [dict(r) for r in srecs_alg[:4]]
    for r in achain:
        r["p"] = r["p"] - a0 if r["p"] else 0
        r["fc"] = r["fc"] - a0 if r["nc"] else 1
    achain[-1]["fc"], achain[-1]["nc"] = 1, 0
    add_tree(achain, 0, "clean")
    clean_nodes += list(range(len(forest) - len(achain) + 1, len(forest) + 1))
    mut = json.loads(json.dumps(achain))
    mut[1]["ops"][1]["a"] = 999999
    add_tree(mut, 1, "ann")
    mut = json.loads(json.dumps(achain))
    mut[2]["ops"][0]["h"] = 999999
    add_tree(mut, 2, "hid")
    expect = [e for e in expect if e[1] != "clean"]
    _, nb = persist_validate(wd, forest, tag="neg", workers=1)
    neg = sum(1 for node, flag in expect if nb.get(node) is not None and not nb[node][flag])
    if neg != 10:
        common.machinery_failure(PROP, f"Trace_Persist accepted a corrupted recording ({neg} of 10 controls rejected)")
    if any(node in nb for node in clean_nodes):
        common.machinery_failure(PROP, "Trace_Persist rejects an untouched layout-sweep chain")
    n_paths = len(seqs) + len(rnd) + len(sweep_lines) + len(alg_lines)
    logical = {tuple(k for k in p if k[0] != 0) for p in nodes}
    n_full = sum(1 for q in list(seqs) + list(rnd) if tuple(q) in logical)
    kinds_seen = sorted({t[3] for v in nodes.values() for t in v[3]})
    n_exc = {}
    for p, v in nodes.items():
        if p and p[-1][0] != 0 and str(v[1]).startswith(("exc:", "notop:")):
            n_exc[_act_name(p[-1])] = n_exc.get(_act_name(p[-1]), 0) + 1
    cov.update({
        "persist_states": mcr.distinct + tres.distinct, "persist_transitions": mcr.states + tres.states,
        "persist_sequences_from_tlc": n_tlc, "persist_sequence_length": depth,
        "persist_longest_sequences_replayed_1_in": sample_mod,
        "persist_sequences_executed_to_the_end": n_full,
        "persist_random_sequences": len(rnd), "persist_random_length": len(rnd[0]) if rnd else 0,
        "persist_recorded_events": len(recs), "persist_events_rejected": len(bad),
        "persist_operator_kinds_seen": kinds_seen, "persist_alphabet": [a for a, _, _ in PERSIST_ACTS],
        "persist_negative_controls_rejected": neg, "persist_calls_whose_result_is_an_exception": n_exc,
        "sweep_paths": len(SWEEP_PATHS), "sweep_cases_path_side_class": len(chains),
        "sweep_layouts": {c: k for c, k in SWEEP_CLASSES.items()},
        "sweep_path_side_layout_combinations": len({(k[0], k[1], k[2], e[0]) for k, evs in chains for e in evs[1:] if e[0] != "other"}),
        "sweep_repeats_after_an_unrelated_call": sum(1 for ln in sweep_lines if "other" in ln["q"]),
        "algebra_declarations": ALG_DECLS, "algebra_operations": [nm for nm, _ in ALG_OPS],
        "algebra_sequences_from_tlc": len(alg_lines), "algebra_calls_recorded": sum(len(evs) - 1 for _, evs in achains),
        "algebra_calls_whose_result_is_an_exception": sorted({f"{k[0]}:{e[0]}:{e[1][4:]}" for k, evs in achains for e in evs[1:]
                                                              if e[1].startswith("exc:")}),
        "operator_state_digest": "shape, dtype, annotations, leaves, dense matrix and __dict__ (recursively; attribute "
                                 f"names skipped: {list(HIDDEN_SKIP)}) of every live operator after every call",
        "sweep_calls_recorded": sum(len(evs) - 1 for _, evs in chains), "sweep_sequence_length": depth,
        "sweep_sequences_from_tlc": len(sweep_lines),
        "sweep_calls_whose_result_is_an_exception": sorted({f"{k[0]}/{k[1]}/{k[2]}:{e[1]}" for k, evs in chains for e in evs[1:]
                                                            if e[1].startswith("exc:")}),
        "sweep_roles": {r: sum(1 for _, x in SWEEP_PATHS if x == r) for r in SWEEP_ROLES},
    })
    samples = [_path_str(p) for p in sorted(nodes, key=lambda q: (-len(q), q))[:: max(1, len(nodes) // 3)][:3]]
    return mcr, tres, n_paths, samples


def _owned_names():
    names = []
    for n in DIMS:
        names += [f"b{n}", f"B{n}", f"x0{n}", f"v0{n}"]
    return names + ["idx_r", "idx_c", "S3", "d3", "a2", "c2", "perm3"]


# =================================================================================================
def persist_main(tier, out_path):
    """Entry point of the persistence part when it runs in its own process, beside the registry part of the parent
    (the two share nothing: the registry part works in fresh interpreters of its own)."""
    viol, cov = [], {}
    th = time.time()
    wd = tla.make_build_dir(PROP + "-persist")
    try:
        _, _, n_paths, psamples = persist_part(tier, wd, viol, cov)
    finally:
        common.cleanup(wd)
    cov["persist_phase_wall_s"] = round(time.time() - th, 2)
    with open(out_path, "w") as fh:
        json.dump({"viol": [v.to_json() for v in viol], "cov": cov, "n_paths": n_paths, "samples": psamples}, fh, default=str)


def persist_start(tier):
    import tempfile
    os.makedirs(os.path.join(common.VERIF, "build"), exist_ok=True)
    fd, path = tempfile.mkstemp(prefix="C18-persist-", suffix=".json", dir=os.path.join(common.VERIF, "build"))
    os.close(fd)
    env = dict(os.environ)
    env["PYTHONPATH"] = os.pathsep.join(p for p in sys.path if p)
    proc = subprocess.Popen([sys.executable, "-B", "-c",
                             f"from harness.props import c18; c18.persist_main({tier!r}, {path!r})"],
                            env=env, cwd=common.VERIF, stdout=subprocess.PIPE, stderr=subprocess.PIPE, text=True)
    return proc, path


def persist_finish(proc, path, viol, cov):
    try:
        _, err = proc.communicate(timeout=7200)
        if proc.returncode == 2 and "MACHINERY-FAILURE" in err:
            sys.stderr.write(err)
            sys.exit(2)
        if proc.returncode != 0:
            raise RuntimeError(f"persistence part failed (exit {proc.returncode}):\n{err[-3000:]}")
        with open(path) as fh:
            r = json.load(fh)
    finally:
        if proc.poll() is None:
            proc.kill()
        try:
            os.unlink(path)
        except OSError:
            pass
    for v in r["viol"]:
        viol.append(Violation(v["property"], v["clause"], v["case"], v["attrs"], v["detail"], v["replay"]))
    cov.update(r["cov"])
    return r["n_paths"], r["samples"]


def run(tier):
    t0 = time.time()
    viol, cov, extra = [], {}, []
    phase = {}
    wd = tla.make_build_dir(PROP)
    pproc = None
    try:
        pproc = persist_start(tier)         # persistence part: in its own process, beside the registry part
        tp = time.time()
        runs, n_orders, rsamples = registry_part(tier, wd, viol, cov, extra)
        phase["registry"] = round(time.time() - tp, 2)
        tp = time.time()
        n_paths, psamples = persist_finish(*pproc, viol, cov)
        pproc = None
        phase["persistence_wait"] = round(time.time() - tp, 2)
        phase["persistence"] = cov.get("persist_phase_wall_s")
    finally:
        common.cleanup(wd)
        if pproc is not None:
            if pproc[0].poll() is None:
                pproc[0].kill()
            try:
                os.unlink(pproc[1])
            except OSError:
                pass
    cov.update({
        "states": cov["registry_states"] + cov["persist_states"],
        "transitions": cov["registry_transitions"] + cov["persist_transitions"],
        "traces_validated_against_impl": n_orders + n_paths,
        "evaluations": cov["registry_steps_observed"] + cov["persist_recorded_events"],
        "distinct_nontrivial": cov["registry_orders_replayed_in_fresh_interpreters"] + cov["persist_sequences_from_tlc"],
        "rule": "one trace = one construction order replayed in a fresh interpreter, or one operation sequence (root-to-"
                "leaf path of the recorded tree) validated by Trace_Persist; non-trivial = orders of >= 2 templates / "
                "sequences of >= 2 operations",
        "samples": rsamples + psamples,
        "exhaustive": True,
        "negative_controls_rejected": cov["persist_negative_controls_rejected"],
        "phase_wall_s": phase,
        "checker_cmd": "tlc MC_Registry.tla (Registry.tla + generated RegistryModel.tla); tlc MC_Persist.tla (Persist.tla + "
                       "generated PersistModel.tla); tlc Trace_Persist.tla",
    })
    return common.finish(PROP, tier, t0, cov, viol, ASSUMPTIONS, extra_print=extra)


def replay(path):
    v = json.load(open(path))
    r = v.get("replay") or {}
    if r.get("kind") == "order":
        res = run_oneshot([{"kind": "order", "order": r["order"]}])[0]
        bad = False
        for st in res["steps"]:
            ok = "leaves" in st and [x for x in st["leaves"]] == ["arr:" + p for p in st["params"]]
            print(f"{st['t']:22s} {st.get('cls', '')}\n    leaves {st.get('leaves')}\n    params {st.get('params')}"
                  f"\n    registry disagreements {st.get('culprits')} {st.get('exc', '')}")
            rt = st.get("roundtrip", {})
            sub = [s for s in st.get("substitution", []) if "exc" in s or s["changed"] != [s["target"]]]
            if v["clause"] in ("leaves", "history_dependence") and st["t"] == r.get("template") and not ok:
                bad = True
            if v["clause"] == "roundtrip" and st["t"] == r.get("template") and ("exc" in rt or not all(rt.values())):
                print("    roundtrip", rt)
                bad = True
            if v["clause"] == "substitution" and st["t"] == r.get("template") and sub:
                print("    substitution", sub)
                bad = True
        if v["clause"] == "history_dependence" and v["attrs"].get("other_order"):
            res2 = run_oneshot([{"kind": "order", "order": v["attrs"]["other_order"]}])[0]
            a = next(st.get("leaves") for st in res["steps"] if st["t"] == r["template"])
            b = next(st.get("leaves") for st in res2["steps"] if st["t"] == r["template"])
            print(f"after {v['attrs']['other_order']}: {b}")
            bad = a != b
        if bad:
            print(f"VIOLATION property={PROP} replay={path}")
            return 1
        return 0
    if r.get("kind") == "persist":
        from .. import fastimport
        fastimport.install()
        from .. import build  # noqa: F401
        w = World()
        ow, trip, moved = w.snapshot()
        bad = False
        for ai, x in r["path"]:
            res = w.apply(ai, x)
            ow2, trip2, moved = w.snapshot()
            flags = []
            if ow2 != ow:
                flags.append("caller-owned arrays changed: " + str([n for n, a, b in zip(w.names, ow, ow2) if a != b]))
            for i, (a, b) in enumerate(zip(trip, trip2)):
                for k, nm in ((0, "dense"), (1, "annotations"), (2, "leaves")):
                    if a[k if k < 2 else 3] != b[2 if k == 2 else k]:
                        flags.append(f"{nm} of operator #{i + 1} ({a[4]}) changed")
                if a[5] != b[5] and not any(f.endswith(f"#{i + 1} ({a[4]}) changed") for f in flags):
                    flags.append(f"state (an attribute outside flatten()) of operator #{i + 1} ({a[4]}) changed")
            for i in moved:
                flags.append(f"leaves of operator #{i + 1} ({trip2[i][4]}) changed while it was densified")
            print(f"{PERSIST_ACTS[ai - 1][0]}(#{x}) -> {res[:24]}   {'; '.join(flags)}")
            bad = bad or bool(flags)
            ow, trip = ow2, trip2
        if bad:
            print(f"VIOLATION property={PROP} replay={path}")
            return 1
        return 0
    if r.get("kind") == "algebra":
        from .. import fastimport
        fastimport.install()
        from .. import build  # noqa: F401
        c = AlgCase(r["decl"])
        trip, ow = c.ops(), c.owned()
        bad, seen = False, {}
        for name in r["seq"]:
            res, note = c.call(name)
            trip2, ow2 = c.ops(), c.owned()
            flags = []
            for w, a, b in zip("XY", trip, trip2):
                for k, nm in ((0, "matrix"), (1, "annotations"), (2, "leaves"), (4, "state")):
                    if a[k] != b[k]:
                        flags.append(f"{nm} of operand {w} changed" + (f" {{{a[1]}}} -> {{{b[1]}}}" if k == 1 else ""))
            if ow2 != ow:
                flags.append("operand arrays changed")
            if seen.setdefault(name, res) != res:
                flags.append("result differs from the earlier identical call")
            print(f"{name:18s} -> {res[:14]} {note}   {'; '.join(flags)}")
            bad = bad or bool(flags)
            trip, ow = trip2, ow2
        if bad:
            print(f"VIOLATION property={PROP} replay={path}")
            return 1
        return 0
    if r.get("kind") == "sweep":
        from .. import fastimport
        fastimport.install()
        from .. import build  # noqa: F401
        c = SweepCase(r["path"], r["side"], r["cls"])
        ow, trip = c.owned(), c.ops()
        names = c.owned_names()
        bad = False
        first = None
        for kind in (r["seq"] or c.kinds):
            res, ab, aa, note = c.call(kind)
            ow2, trip2 = c.owned(), c.ops()
            flags = []
            if ab != aa:
                flags.append("the argument was modified")
            if ow2 != ow:
                flags.append("caller-owned arrays changed: " + str([n for n, a, b in zip(names, ow, ow2) if a != b]))
            if [t[:3] + t[4:] for t in trip2] != [t[:3] + t[4:] for t in trip]:
                flags.append("the swept operator changed")
            first = first or (kind, res)
            if res != first[1]:
                flags.append(f"result differs from the one with layout {first[0]} ({first[1]})")
            arr = c.lay[kind][0]
            print(f"{r['path']} side={r['side']} {r['cls']}:{kind:5s} shape={arr.shape} strides={arr.strides} "
                  f"writeable={arr.flags.writeable} -> {res} {note}  {'; '.join(flags)}")
            bad = bad or bool(flags)
            ow, trip = ow2, trip2
        if bad:
            print(f"VIOLATION property={PROP} replay={path}")
            return 1
        return 0
    print("nothing to replay")
    return 0
