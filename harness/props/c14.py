"""C14 - Lanczos returns an orthonormal Krylov basis and the projected tridiagonal matrix.

(1) TLC (MC_Krylov over Krylov.tla / LoopControl.tla) computes, for every catalog case (A, v) (Gaussian-integer
    Hermitian matrices n <= 4 with verified spectral witnesses; unit, generic, eigenvector and few-eigenvector
    starts), the exact Krylov matrix, its rank sequence, KDim, the excited spectrum and the expected column count
    min(max_iters, n, KDim) for max_iters = 1..n+3, and checks that the Lanczos control skeleton fed with the exact
    test "residual # 0" stops with exactly that count.  MC_LoopControl checks the skeleton's contract for every
    sequence of test outcomes.
(2) spec -> code: cola's `lanczos`, `lanczos_eigs`, `Lanczos()(A)` are run on every catalog case x dtype x tol x
    max_iters (single and batched starts) and on seeded random Hermitian families up to n = 300; the outputs are
    projected and compared with TLC's values (counts, span of the exact Krylov matrix, excited spectrum) and with
    the property's relations (projection predicates under tolerance).
(3) code -> spec: every execution of the real loop is recorded (cond_fun / body_fun wrapped, original
    while_loop_winfo runs) and validated by Trace_LoopControl against the skeleton; negative controls included."""
import json
import time
import warnings

import numpy as np

from .. import common, tla
from .. import krylovfam as kf
from ..common import Violation

PROP = "C14"
ASSUMPTIONS = [
    "numerical relations are projection predicates with tolerance 1e-6 (float64/complex128) resp. 2e-3 "
    "(float32/complex64) relative to ||A||_inf; span tests use 50x that",
    "catalog expectations (KDim, ranks, exact Krylov matrix, excited spectrum, counts) come from TLC; for random "
    "families KDim is known by construction (number of distinct eigenvalues carried by the start vector) and the "
    "column count is asserted only when unambiguous: well separated spectrum, tol >= 1e3*eps(dtype); otherwise "
    "only 1 <= columns <= min(max_iters, n) and 'stopped early => eigenvalues of T are eigenvalues of A' are asserted",
    "the upper bound of the column count (stopping at exhaustion) is asserted only when tol >= 1e3*eps(dtype), i.e. "
    "when the round-off residual is safely below the stopping threshold; 'fewer columns than "
    "min(max_iters, n, KDim)' is always asserted",
    "when more columns than expected come back (a column_count violation or an undetectable exhaustion) the other "
    "clauses are evaluated on the leading expected columns",
    "batched start vectors: the outputs are rectangular, so the contract is columns = min(max_iters, n, max_b KDim_b) "
    "and every clause on the leading min(max_iters, KDim_b) columns of batch element b",
    "span test for random cases: against a harness reference basis (Arnoldi with two full re-orthogonalisation "
    "passes in complex128) for the first <= 6 (float64) / <= 4 (float32) Krylov spaces only",
    "start vectors are non-zero; v and A have the same dtype",
    "scale-equivariance family (attr op_scale): scaled copies c*A, c in {1e-9, 1e-30 (double precision only: the "
    "squares of the entries underflow in single precision), 1e6, 2^-20}, of a deterministic subset of the catalog / "
    "exact-breakdown / by-construction / random items (single and batched, default tolerance = argument omitted and "
    "explicit ones).  They carry the attrs of the unscaled original plus op_scale and are checked by every clause of "
    "the original with tolerances relative to ||cA|| (expected eigenvalues and TLC's exact T multiplied by c, same "
    "KDim / counts); clause scale_equivariance compares with the run on A in the same dtype: same number of steps / "
    "columns (asserted when the stop is visible - tol >= 1e3*eps - or c is a power of two, and the start vector is not "
    "in the null space), same leading basis vectors and T = c * T(A) up to the relative tolerance (1e-12 on "
    "everything when c is a power of two).  TLC side: Krylov!ScaleEquivariantAt / MC_Krylov!ScaleEquivariant check on "
    "every exact catalog case that c*A (c = 1/4, 8; 32-bit integers) has the same exact basis, c*H, the same breakdown "
    "step and expected observables; exact-breakdown cases are scaled by the power of two only (the run stays exact, "
    "tol = 0 included)",
    "start-invariance family (attrs start_scale / start_dtype): for the same deterministic subset the start vector(s) "
    "are multiplied by c in {1e-13, 1e-30 (double precision only), 1e8} (exact-breakdown cases: the dyadic 2^-44, "
    "tol = 0 included) and / or handed over in a dtype other than the operator's (narrower / wider float, real vector "
    "for a complex operator, int64 / int32 when the entries are integral; a complex vector is never given to a real "
    "operator; random starts in an invariant subspace are not rounded to a narrower float), single and batched, for "
    "lanczos, lanczos_eigs, Lanczos().  All clauses of the original apply unchanged (the factorisation depends on v only "
    "through its direction and lives in the operator's dtype; TLC: MC_Krylov!StartScaleInvariant on every exact case, "
    "c = 1/4, 8); clause start_invariance compares with the reference run (same direction, operator's dtype): output "
    "dtypes, number of steps / columns (when the stop is visible or the variant is exact), leading basis vectors, T "
    "and the eigen / Ritz values.  Tolerance: a few ulps for dyadic factors, the relative tolerance of the other "
    "clauses for non-dyadic factors, and 1e3 ulps of the narrower float type for dtype variants - arnoldi normalises "
    "the start vector in the vector's own dtype before promoting it (findings/C15-start-vector-normalised-in-its-own-"
    "dtype.py), which is below the property's tolerance and not raised",
    "exact-breakdown family (attr exact=true): Hermitian operators / start vectors with small integer entries for "
    "which TLC computes the Arnoldi (= Lanczos) factorisation exactly over Q(i) and certifies that it is exact in "
    "binary floating point (Krylov!ExactArnoldiOK: dyadic entries, perfect-square norms, zero residual exactly at "
    "KDim).  For these the column count min(max_iters, n, KDim), finiteness, exhaustion clauses and the factorisation "
    "itself (clause exact_oracle: Q, T equal TLC's exact matrices) are asserted for EVERY tol >= 0, in particular "
    "tol = 0, in every dtype, single and batched; the recorded loop must evaluate exactly MC_Krylov's test "
    "'residual # 0' (Trace_LoopControl, field kd).  Beyond the catalog (source=struct, n <= 200: symmetric "
    "permutations, diagonal, identity, Hermitian block diagonal; coordinate / constant dyadic starts) the same "
    "arithmetic argument holds by construction and KDim is the orbit length / block size",
]
_REC = None


def recorder():
    global _REC
    if _REC is None:
        _REC = kf.Recorder().install()
    return _REC


# ------------------------------------------------------------------------------------------------------
def regime(m, n):
    return "m<n" if m < n else "m=n" if m == n else "m>n"


def check_single(A, v, Qd, Td, m, tol, dt, kdim, detectable, K=None, spec=None, eigA=None, assert_count=True,
                 hs=None, X=None):
    """Property clauses on one (Q, T).  Returns list of (clause, detail, extra attrs)."""
    out = []
    n = A.shape[0]
    rt, eps = kf.tol_of(dt)
    sA = max(float(np.abs(A).sum(1).max()), 1e-300)
    cap = min(m, n)
    c = Qd.shape[1] if Qd.ndim == 2 else -1
    if Qd.ndim != 2 or Qd.shape[0] != n or Td.shape != (c, c) or c < 1:
        return [("column_count", f"shapes Q {Qd.shape} T {Td.shape} for n={n} max_iters={m}", {"excess": "shape"})], kdim, detectable
    if not (np.all(np.isfinite(Qd)) and np.all(np.isfinite(Td))):
        return [("finite", "non-finite entries in Q or T", {})], kdim, detectable
    if c > cap:
        out.append(("column_count", f"{c} columns > min(max_iters, n) = {cap}", {"excess": "more", "beyond_cap": True}))
    kdim_in = kdim
    kdim, detectable = kf.gate(hs, kdim, n, tol, sA, detectable, c, cap)
    if kdim != kdim_in:
        spec = None     # numerically invariant subspace reached before the exact one: no exact spectrum to compare
    exp = min(cap, kdim) if kdim is not None else None
    ce = c
    if exp is not None and assert_count:
        if c < exp:
            out.append(("column_count", f"{c} columns, expected min(max_iters, n, KDim) = {exp}", {"excess": "fewer"}))
        elif c > exp:
            if detectable and c <= cap:
                out.append(("column_count", f"{c} columns, expected min(max_iters, n, KDim) = {exp} (KDim={kdim})",
                            {"excess": "more", "start_in_nullspace": bool(getattr(hs, "scale", sA) <= 1e-8 * sA)}))
            ce = exp
    ce = min(ce, cap)
    Q, T = Qd[:, :ce].astype(np.complex128), Td[:ce, :ce].astype(np.complex128)
    Ac = A.astype(np.complex128)
    vv = v.astype(np.complex128)
    # first column
    d = float(np.abs(Q[:, 0] - vv / np.linalg.norm(vv)).max())
    if d > rt:
        out.append(("first_column", f"|Q[:,0] - v/||v||| = {kf.fmt(d)}", {}))
    # orthonormal
    G = Q.conj().T @ Q
    d = float(np.abs(G - np.eye(ce)).max())
    if d > rt:
        out.append(("orthonormal", f"max|Q^H Q - I| = {kf.fmt(d)} on {ce} columns", {}))
    # real symmetric tridiagonal, non-negative off-diagonal
    Tfull = Td.astype(np.complex128)
    band = np.abs(np.subtract.outer(np.arange(c), np.arange(c))) <= 1
    off = np.diagonal(Tfull, -1)
    msgs = []
    if np.abs(Tfull[~band]).max(initial=0.0) > 0:
        msgs.append("non-zero outside the three diagonals")
    if np.abs(Tfull.imag).max(initial=0.0) > rt * sA:
        msgs.append(f"imaginary part {kf.fmt(np.abs(Tfull.imag).max())}")
    if np.abs(Tfull - Tfull.T).max(initial=0.0) > rt * sA:
        msgs.append("not symmetric")
    if off.size and off.real.min() < -1e-9 * sA:
        msgs.append(f"negative off-diagonal {kf.fmt(off.real.min())}")
    if msgs:
        out.append(("tridiagonal", "; ".join(msgs), {}))
    # T = Q^H A Q ; A Q - Q T = 0 except last column
    AQ = Ac @ Q
    d = float(np.abs(Q.conj().T @ AQ - T).max())
    if d > rt * sA:
        out.append(("relation", f"max|Q^H A Q - T| = {kf.fmt(d)} (||A||={kf.fmt(sA)})", {"which": "projection"}))
    R = AQ - Q @ T
    d = float(np.abs(R[:, :-1]).max(initial=0.0))
    if d > rt * sA:
        out.append(("relation", f"max|(A Q - Q T)[:, :-1]| = {kf.fmt(d)} (||A||={kf.fmt(sA)})", {"which": "residual"}))
    # exact-breakdown family: the factorisation itself is known exactly (TLC: Krylov!ExactArnoldi; for Hermitian A
    # the exact Hessenberg matrix is the Lanczos tridiagonal matrix)
    if X is not None:
        Qx, Hx = X
        cx = min(cap, Qx.shape[1], ce)
        dq = float(np.abs(Q[:, :cx] - Qx[:, :cx]).max())
        dh = float(np.abs(T[:cx, :cx] - Hx[:cx, :cx]).max())
        if dq > rt or dh > rt * sA:
            out.append(("exact_oracle", f"leading {cx} columns of Q / block of T differ from the exact Lanczos "
                        f"factorisation by {kf.fmt(dq)} / {kf.fmt(dh)}", {}))
    # span(Q[:, :j]) = K_j
    if K is not None:
        stol = 50 * rt
        for j in range(1, min(ce, K.shape[1]) + 1):
            d = kf.span_defect(Q[:, :j], K[:, :j])
            if d > stol:
                out.append(("span", f"K_{j} not in span(Q[:, :{j}]): relative defect {kf.fmt(d)}", {"j": j}))
                break
    # exhaustion: eigenvalues of T are exact eigenvalues of A (the excited ones)
    th = np.linalg.eigvalsh((T + T.conj().T) / 2)
    exhausted = kdim is not None and ce == kdim and (detectable or ce == n)
    etol = max(rt, 10 * tol) * sA
    if exhausted and spec is not None and len(spec):
        miss, extra = kf.match_multiset(th, spec, etol)
        if miss or extra:
            out.append(("ritz", f"eig(T) = {np.round(th, 6).tolist()} but the excited spectrum is "
                        f"{[complex(s).real for s in spec]}", {"at": "exhaustion"}))
        d = float(np.abs(R[:, -1]).max())
        if d > etol:
            out.append(("relation", f"exhausted Krylov space but |(A Q - Q T)[:, -1]| = {kf.fmt(d)}",
                        {"which": "last_column_at_exhaustion"}))
    elif c < cap and eigA is not None and c == ce:
        # stopped early on its own test: every eigenvalue of T must be an eigenvalue of A
        dist = np.abs(th[:, None] - np.asarray(eigA)[None, :]).min(1)
        if dist.max() > etol:
            out.append(("ritz", f"stopped after {c} < min(max_iters, n) columns but eig(T) is off the spectrum of A by "
                        f"{kf.fmt(dist.max())}", {"at": "early_stop"}))
    return out, kdim, detectable


def check_scaled(Qs, Ts, Q1, T1, c, dt, A_s, kdim, m, jmax, count_ok=True, tight=None, tq=None):
    """Equivariance against the reference run (unscaled operator resp. the same start direction in the operator's
    dtype; same max_iters, tol): same number of columns, same basis, T = c * T_1 (c = None: T = T_1), up to rounding;
    outputs in the operator's dtype.  Compared on the leading well-determined part: the first min(columns, KDim, jmax)
    columns (everything, when the variant is exact - tight: factors are powers of two)."""
    rt, _ = kf.tol_of(dt)
    sA = max(float(np.abs(A_s).sum(1).max()), 1e-300)
    tight = kf.is_pow2(c) if tight is None else tight
    c = 1.0 if c is None else c
    tq = (1e-12 if tight else rt) if tq is None else tq
    if Qs.dtype != Q1.dtype or Ts.dtype != T1.dtype:
        return (f"outputs have dtypes {Qs.dtype} / {Ts.dtype}, the reference run in the operator's dtype {Q1.dtype} / "
                f"{T1.dtype}", {"which": "dtype"})
    if Qs.shape != Q1.shape or Ts.shape != T1.shape:
        if count_ok:
            return (f"{Qs.shape[-1]} columns for {c:g}*A but {Q1.shape[-1]} for A", {"which": "columns"})
        return None
    if not (np.all(np.isfinite(Q1)) and np.all(np.isfinite(T1)) and np.all(np.isfinite(Qs)) and np.all(np.isfinite(Ts))):
        return None
    if tight and count_ok:
        lead = Qs.shape[1]
    else:
        lead, tq = min(Qs.shape[1], jmax, kdim if kdim is not None else 1), (tq if not tight else max(tq, rt))
    Qs, Q1 = Qs.astype(np.complex128), Q1.astype(np.complex128)
    Ts, T1 = Ts.astype(np.complex128), T1.astype(np.complex128) * c
    dq = float(np.abs(Qs[:, :lead] - Q1[:, :lead]).max(initial=0.0))
    # the last diagonal entry of the compared block involves the next (possibly ill-determined) vector only through
    # alpha_lead = q^H A q, which is well determined with q
    dh = float(np.abs(Ts[:lead, :lead] - T1[:lead, :lead]).max(initial=0.0))
    if dq > tq or dh > tq * sA:
        return (f"leading {lead} columns of Q differ by {kf.fmt(dq)}, T from {c:g} * T(A) by {kf.fmt(dh)} "
                f"(||cA|| = {kf.fmt(sA)})", {"which": "factorisation"})
    return None


def dense_T(T, b=None):
    """Dense projection of the returned Tridiagonal (batched: element b)."""
    if b is None:
        return np.asarray(T.to_dense())
    al, be, ga = np.asarray(T.alpha)[b, :, 0], np.asarray(T.beta)[b, :, 0], np.asarray(T.gamma)[b, :, 0]
    return np.diag(be) + np.diag(al, -1) + np.diag(ga, 1)


def call_lanczos(A_op, v, m, tol, n, tag, api="lanczos", kd=0, default_tol=False, sc=None):
    """default_tol: the tolerance argument is omitted (cola's default, = tol = 1e-7)."""
    kw = {} if default_tol else {"tol": tol}
    from cola.linalg.decompositions.decompositions import Lanczos
    from cola.linalg.decompositions.lanczos import lanczos
    rec = recorder()
    rec.meta = {"alg": "lanczos", "n": n, "m": m, "tol": tol, "tag": tag, "kd": kd, "sc": sc}
    rec.on = True
    k0 = len(rec.traces)
    try:
        with warnings.catch_warnings():
            warnings.simplefilter("ignore")
            with np.errstate(all="ignore"):
                if api == "Lanczos":
                    # the object's own default tolerance is another one (1e-6): the comparison needs the same value
                    Q, T, info = Lanczos(start_vector=v, max_iters=m, tol=tol)(A_op)
                else:
                    Q, T, info = lanczos(A_op, v, max_iters=m, **kw)
    finally:
        rec.on = False
    tr = rec.traces[k0:]
    if len(tr) == 1:
        offd = T.alpha.shape[-2] if hasattr(T, "alpha") else -1
        kf.finish_trace(tr[0], Q.shape, T.shape, offd)
    return Q, T, info, tr


def call_eigs(A_op, v, m, tol, n, tag, kd=0, default_tol=False, sc=None):
    from cola.linalg.decompositions.lanczos import lanczos_eigs
    kw = {} if default_tol else {"tol": tol}
    rec = recorder()
    rec.meta = {"alg": "lanczos", "n": n, "m": m, "tol": tol, "tag": tag, "kd": kd, "sc": sc}
    rec.on = True
    k0 = len(rec.traces)
    try:
        with warnings.catch_warnings():
            warnings.simplefilter("ignore")
            with np.errstate(all="ignore"):
                ev, V, info = lanczos_eigs(A_op, v, max_iters=m, **kw)
    finally:
        rec.on = False
    tr = rec.traces[k0:]
    if len(tr) == 1:
        k = int(np.asarray(ev).shape[-1])
        kf.finish_trace(tr[0], V.shape, (k, k), max(k - 1, 0))
    return np.asarray(ev), np.asarray(V.to_dense()), info, tr


def check_eigs(A, Qd, Td, ev, Vd, m, tol, dt, exhausted_ok, spec, values_only=False):
    """lanczos_eigs: ascending Ritz values, equal to eig(T) of the same run, orthonormal Ritz vectors V = Q Y with
    V^H A V = diag(theta); exact pairs at exhaustion."""
    out = []
    rt, _ = kf.tol_of(dt)
    sA = max(float(np.abs(A).sum(1).max()), 1e-300)
    c = Td.shape[0]
    if ev.shape != (c, ) or Vd.shape != (A.shape[0], c):
        return [("ritz", f"lanczos_eigs shapes {ev.shape} {Vd.shape} but lanczos returned {c} columns", {"at": "shape"})]
    if not (np.all(np.isfinite(ev)) and np.all(np.isfinite(Vd))):
        return [("finite", "non-finite Ritz pairs", {})]
    if np.abs(np.asarray(ev).imag).max(initial=0.0) > rt * sA:
        out.append(("ritz", "complex Ritz values", {"at": "real"}))
    e = np.asarray(ev).real.astype(np.float64)
    if np.any(np.diff(e) < -rt * sA):
        out.append(("eigs_order", f"Ritz values not ascending: {np.round(e, 6).tolist()}", {}))
    th = np.linalg.eigvalsh((Td + Td.conj().T).astype(np.complex128) / 2)
    if np.abs(np.sort(e) - th).max(initial=0.0) > rt * sA:
        out.append(("ritz", f"Ritz values {np.round(e, 6).tolist()} != eig(T) {np.round(th, 6).tolist()}", {"at": "values"}))
    if values_only:     # the factorisation itself was already reported (column count): vectors follow from it
        return out
    V = Vd.astype(np.complex128)
    Ac = A.astype(np.complex128)
    G = V.conj().T @ V
    if np.abs(G - np.eye(c)).max() > 5 * rt:
        out.append(("ritz", f"Ritz vectors not orthonormal: {kf.fmt(np.abs(G - np.eye(c)).max())}", {"at": "vectors"}))
    P = V.conj().T @ Ac @ V
    if np.abs(P - np.diag(e)).max() > 5 * rt * sA:
        out.append(("ritz", f"V^H A V != diag(theta): {kf.fmt(np.abs(P - np.diag(e)).max())}", {"at": "pairs"}))
    # V lies in span(Q)
    Q = Qd.astype(np.complex128)
    if np.abs(V - Q @ (Q.conj().T @ V)).max() > 5 * rt:
        out.append(("ritz", "Ritz vectors leave span(Q)", {"at": "span"}))
    if exhausted_ok:
        d = float(np.abs(Ac @ V - V * e[None, :]).max())
        if d > max(5 * rt, 10 * tol) * sA:
            out.append(("ritz", f"exhausted Krylov space but |A V - V diag(theta)| = {kf.fmt(d)}", {"at": "exhaustion"}))
        if spec is not None and len(spec):
            miss, extra = kf.match_multiset(e, spec, max(rt, 10 * tol) * sA)
            if miss or extra:
                out.append(("ritz", f"Ritz values {np.round(e, 6).tolist()} but the excited spectrum is "
                            f"{[complex(s).real for s in spec]}", {"at": "exhaustion"}))
    return out


# ------------------------------------------------------------------------------------------------------
def mk_viol(item, clause, detail, m, extra, n, kdim, batched, api, dt, tol):
    cap = min(m, n)
    at = {"dtype": dt, "n": n, "max_iters": m, "regime": regime(m, n), "tol": tol,
          "breakdown": bool(kdim is not None and kdim < cap), "batched": batched, "kdim": kdim, "api": api,
          "source": item["src"], "exact": bool(item.get("exact"))}
    sc = item.get("op_scale")
    if sc is not None:      # scaled copy of an existing case: the attrs of the original plus the factor
        at["op_scale"] = float(sc)
        at["tol_default"] = item.get("tol") is None
    var = ""
    if item.get("start_scale") is not None:
        at["start_scale"] = float(item["start_scale"])
        var += f" vscale={item['start_scale']:g}"
    if item.get("start_dtype"):
        at["start_dtype"] = item["start_dtype"]
        var += f" vdtype={item['start_dtype']}"
    at.update(extra)
    case = f"{item['name']} {dt} m={m} tol={tol:g}{' batched' if batched else ''}" \
           f"{'' if sc is None else f' scale={sc:g}'}{var} {api}"
    rp = dict(item)
    rp["only_m"] = m
    return Violation(PROP, clause, case, at, detail, replay=rp)


def run_family(item, A, vs, kdims, Ks, specs, eigA, detect_ok, ms, count_ok=True, Xs=None):
    """vs: list of start vectors (1 -> single run, >1 -> one batched run).  Returns (violations, traces, n_checks).
    Xs[b]: exact (Q, H) of the exact-breakdown family."""
    import cola
    dt, tol = item["dt"], item["tol"]
    dflt = tol is None          # the tolerance argument is omitted: cola's default 1e-7
    tol = 1e-7 if dflt else tol
    n = A.shape[0]
    _, eps = kf.tol_of(dt)
    exact = bool(item.get("exact"))
    # scaled copy c*A of an existing case (scale equivariance): same start vectors, KDims, Krylov spaces and basis;
    # eigenvalues and T scale with c; every tolerance of the clauses is relative to ||c A||
    sc = item.get("op_scale")
    A1 = A
    if sc is not None:
        A = A * sc
        specs = [None if w is None else [complex(x) * sc for x in w] for w in specs]
        eigA = None if eigA is None else np.asarray(eigA) * sc
        if Xs is not None:
            Xs = [None if X is None else (X[0], X[1] * sc) for X in Xs]
    # exact-breakdown family: the residual at KDim is the number 0.0, so the stop is visible for every tol >= 0
    detectable = detect_ok and (tol >= 1e3 * eps or exact)
    kd_tr = max(kdims) if exact else 0
    Xs = list(Xs) if Xs is not None else [None] * len(vs)
    npd = kf.NPDT[dt]
    if not np.issubdtype(npd, np.complexfloating):
        A, vs = np.real(A), [np.real(x) for x in vs]
        A1 = np.real(A1)
    A_t = A.astype(npd)
    herm = cola.SelfAdjoint(cola.ops.Dense(A_t))
    # start-vector variants (start invariance): the vector handed to cola is c*v and / or given in a dtype other than
    # the operator's; the reference run takes the same direction in the operator's dtype
    ssc, sdt = item.get("start_scale"), item.get("start_dtype")
    variant = sc is not None or ssc is not None or sdt is not None
    vclause = "scale_equivariance" if (ssc is None and sdt is None) else "start_invariance"

    def mkv(x):
        y = x * ssc if ssc is not None else x
        return kf.cast_start(y, sdt) if sdt else y.astype(npd)

    def refv(x):        # a dtype variant keeps the values (rounded to a narrower float): the reference takes them
        if not sdt:
            return x.astype(npd)
        y = mkv(x) if ssc is None else mkv(x).astype(np.complex128) / ssc
        return (y if np.issubdtype(npd, np.complexfloating) else np.real(y)).astype(npd)
    dyadic = (sc is None or kf.is_pow2(sc)) and (ssc is None or kf.is_pow2(ssc))
    # tolerance of the comparison with the reference run: exact variants (powers of two) agree on everything to a few
    # ulps; a start vector with the same values in another dtype is normalised in ITS dtype before it is promoted, so
    # the runs agree up to the rounding of the narrower of the two float types (integers: the operator's) on the
    # well-determined leading part; non-dyadic factors: the relative tolerance of the other clauses
    tight = dyadic and sdt is None
    vtol = max(1e-12, 100 * eps) if tight else kf.start_tol(dt, sdt) if dyadic else kf.tol_of(dt)[0]
    herm1 = cola.SelfAdjoint(cola.ops.Dense(A1.astype(npd))) if variant else None
    ca = dict(kd=kd_tr, default_tol=dflt, sc=(sc if sc is not None else ssc if ssc is not None else sdt))
    viol, traces, nchk = [], [], 0
    batched = len(vs) > 1
    jmax = 6 if dt in ("f64", "c128") else 4
    thr = 1e-6 if dt in ("f64", "c128") else 1e-2
    hss = []
    Ks = list(Ks)
    for b, x in enumerate(vs):
        if exact:       # nothing to gate: every quantity of the run is an exact floating-point number
            hss.append(None)
            continue
        Kr, hs = kf.ref_for(A_t, refv(x), kdims[b], n, jmax, thr, detect_ok)
        hss.append(hs if kdims[b] is not None else None)
        if Ks[b] is None:
            Ks[b] = Kr
    for m in ms:
        if item.get("only_m") is not None and m != item["only_m"]:
            continue
        tag = f"{item['name']}|{dt}|{m}"
        try:
            if not batched:
                v = mkv(vs[0])
                Q, T, info, tr = call_lanczos(herm, v, m, tol, n, tag, **ca)
                traces += tr
                Qd, Td = np.asarray(Q.to_dense()), dense_T(T)
                res, kd_eff, det_eff = check_single(A_t, v, Qd, Td, m, tol, dt, kdims[0], detectable, Ks[0], specs[0],
                                                    eigA, assert_count=count_ok, hs=hss[0], X=Xs[0])
                nchk += 1
                for cl, de, ex in res:
                    viol.append(mk_viol(item, cl, de, m, ex, n, kdims[0], False, "lanczos", dt, tol))
                count_bad = any(cl == "column_count" for cl, _, _ in res)
                vok = False
                if variant and not any(cl == "finite" for cl, _, _ in res):
                    Q1, T1, _, _ = call_lanczos(herm1, refv(vs[0]), m, tol, n, tag + "|reference", **ca)
                    nchk += 1
                    vok = (det_eff or tight) and not count_bad and not kf.null_start(hss[0], A_t)
                    msg = check_scaled(Qd, Td, np.asarray(Q1.to_dense()), dense_T(T1), sc, dt, A_t, kdims[0], m, jmax,
                                       count_ok=vok, tight=tight, tq=vtol)
                    if msg:
                        viol.append(mk_viol(item, vclause, msg[0], m, msg[1], n, kdims[0], False, "lanczos", dt, tol))
                # lanczos_eigs on the same input
                if item.get("eigs", True):
                    ev, Vd, _, tr2 = call_eigs(herm, v, m, tol, n, tag + "|eigs", **ca)
                    traces += tr2
                    exh = (kd_eff is not None and kd_eff == kdims[0] and Td.shape[0] == kd_eff
                           and (det_eff or kd_eff == n) and not count_bad and count_ok)
                    nchk += 1
                    vo = count_bad or (kd_eff is not None and Td.shape[0] > min(m, n, kd_eff))
                    for cl, de, ex in check_eigs(A_t, Qd, Td, ev, Vd, m, tol, dt, exh, specs[0], values_only=vo):
                        viol.append(mk_viol(item, cl, de, m, ex, n, kdims[0], False, "lanczos_eigs", dt, tol))
                    if (ssc is not None or sdt is not None) and vok:    # lanczos_eigs: the Ritz values of the reference
                        ev1, _, _, _ = call_eigs(herm1, refv(vs[0]), m, tol, n, tag + "|eigs|reference", **ca)
                        sA_ = max(float(np.abs(A_t).sum(1).max()), 1e-300)
                        if ev.shape != ev1.shape or not np.all(np.isfinite(ev)) or (
                                np.all(np.isfinite(ev1)) and ev.shape[0] <= min(jmax, kdims[0] or 1)
                                and np.abs(np.sort(ev.real) - np.sort(ev1.real)).max(initial=0.0) > max(vtol, 1e-9) * sA_):
                            viol.append(mk_viol(item, vclause, f"lanczos_eigs returns {np.round(ev, 6).tolist()} but "
                                                f"{np.round(ev1, 6).tolist()} for the same direction in the operator's dtype",
                                                m, {"which": "eigs"}, n, kdims[0], False, "lanczos_eigs", dt, tol))
                # the algorithm object gives the same factorisation
                if item.get("alg_obj", False):
                    Q2, T2, _, tr3 = call_lanczos(herm, v, m, tol, n, tag + "|obj", api="Lanczos", **ca)
                    traces += tr3
                    nchk += 1
                    Q2d, T2d = np.asarray(Q2.to_dense()), dense_T(T2)
                    if Q2d.shape != Qd.shape or T2d.shape != Td.shape or not np.array_equal(Q2d, Qd) \
                            or not np.array_equal(T2d, Td):
                        viol.append(mk_viol(item, "alg_object", "Lanczos(start_vector, max_iters, tol)(A) differs from "
                                            "lanczos(A, start_vector, max_iters, tol)", m, {}, n, kdims[0], False,
                                            "Lanczos", dt, tol))
            else:
                V = np.stack([mkv(x) for x in vs], axis=1)      # (n, b)
                Q, T, info, tr = call_lanczos(herm, V, m, tol, n, tag + "|batched", **ca)
                traces += tr
                QA = np.asarray(Q.A)
                nb = len(vs)
                kmax = None if any(k is None for k in kdims) else max(kdims)
                cap = min(m, n)
                if QA.ndim != 3 or QA.shape[0] != nb or QA.shape[1] != n:
                    viol.append(mk_viol(item, "column_count", f"batched Q has shape {QA.shape}", m, {"excess": "shape"}, n,
                                        kmax, True, "lanczos", dt, tol))
                    continue
                c = QA.shape[2]
                nchk += 1
                uni = {"uniform_kdim": len(set(kdims)) == 1,
                       "min_kdim": None if kmax is None else min(kdims),
                       "exhausted_element": bool(kmax is not None and min(kdims) < c)}
                Tall = [np.asarray(getattr(T, nm)) for nm in ("alpha", "beta", "gamma")]
                if not (np.all(np.isfinite(QA)) and all(np.all(np.isfinite(x)) for x in Tall)):
                    bad = [b for b in range(nb) if not np.all(np.isfinite(QA[b]))]
                    viol.append(mk_viol(item, "finite", f"non-finite entries in the batched outputs (elements {bad}, "
                                        f"KDims {kdims})", m, uni, n, kmax, True, "lanczos", dt, tol))
                if kmax is not None and count_ok:
                    e = min(cap, kmax)
                    if c < e or c > cap or (c > e and detectable):
                        viol.append(mk_viol(item, "column_count", f"batched run returned {c} columns, expected "
                                            f"min(max_iters, n, max KDim) = {e}", m,
                                            dict(uni, excess="more" if c > e else "fewer"), n, kmax, True,
                                            "lanczos", dt, tol))
                Q1A = T1 = None
                if variant and all(np.all(np.isfinite(x)) for x in Tall) and np.all(np.isfinite(QA)):
                    Q1, T1, _, _ = call_lanczos(herm1, np.stack([refv(x) for x in vs], axis=1), m, tol, n,
                                                tag + "|batched|reference", **ca)
                    nchk += 1
                    Q1A = np.asarray(Q1.A)
                    cok = (detectable or tight) and kmax is not None and count_ok \
                        and not any(kf.null_start(h, A_t) for h in hss)
                    if Q1A.shape != QA.shape and cok:
                        viol.append(mk_viol(item, vclause, f"batched variant run returned {c} columns, the reference run "
                                            f"{Q1A.shape[-1]}", m, dict(uni, which="columns"), n, kmax, True, "lanczos", dt,
                                            tol))
                for b in range(nb):
                    Td = dense_T(T, b)
                    kb = kdims[b]
                    keep = c if kb is None else min(c, kb, cap)
                    res, _, _ = check_single(A_t, V[:, b], QA[b][:, :keep], Td[:keep, :keep], m, tol, dt, kb, detectable,
                                             Ks[b], specs[b], eigA, assert_count=False, hs=hss[b], X=Xs[b])
                    if Q1A is not None and Q1A.shape == QA.shape:
                        msg = check_scaled(QA[b][:, :keep], Td[:keep, :keep], Q1A[b][:, :keep], dense_T(T1, b)[:keep, :keep],
                                           sc, dt, A_t, kb, m, jmax, count_ok=False, tight=tight, tq=vtol)
                        if msg:
                            res = list(res) + [(vclause, msg[0], msg[1])]
                    for cl, de, ex in res:
                        ex = dict(ex)
                        ex["element"] = b
                        ex["uniform_kdim"] = len(set(kdims)) == 1
                        viol.append(mk_viol(item, cl, de, m, ex, n, kb, True, "lanczos", dt, tol))
        except Exception as ex:  # noqa: BLE001
            info = common.exc_info(ex)
            viol.append(mk_viol(item, "exception", f"{info['exc']}: {info['msg']} @ {info['where']}", m,
                                {"exc": info["exc"]}, n, kdims[0], batched, "lanczos", dt, tol))
    return viol, traces, nchk


# ------------------------------------------------------------------------------------------------------
_CAT = None


def observe(item):
    """One work item = one (matrix, start vector(s), dtype, tol); all max_iters inside."""
    try:
        if item["src"] == "catalog":
            cs = item["cases"]          # list of catalog cases (1 = single, >1 = batched) with TLC expectations
            A = kf.to_np(cs[0]["A"], np.complex128)
            n = A.shape[0]
            vs = [kf.vec_np(c["v"], np.complex128) for c in cs]
            kd = [c["exp"]["kdim"] for c in cs]
            Ks = [kf.to_np(c["exp"]["K"], np.complex128) for c in cs]
            specs = [kf.spec_list(c["exp"]["spec"]) if c["hasEig"] else None for c in cs]
            exact = bool(item.get("exact"))
            Xs = [kf.exact_np(c["exp"]) for c in cs] if exact else None
            for b, c in enumerate(cs):    # counts exported by TLC are what is asserted
                assert not exact or (c["exact"] and c["exp"]["exact"] and Xs[b][0].shape == (n, c["exp"]["kdim"]))
                if exact and specs[b] is None:
                    # excited spectrum = spectrum of TLC's exact projected matrix H[:KDim, :KDim]
                    specs[b] = [complex(x) for x in np.linalg.eigvalsh(Xs[b][1][:-1, :])]
                for e in c["exp"]["exp"]:
                    assert e["lcols"] == min(e["m"], n, c["exp"]["kdim"])
            eigA = np.linalg.eigvalsh(A)
            return run_family(item, A, vs, kd, Ks, specs, eigA, True, list(range(1, n + kf.EXTRA + 1)), Xs=Xs)
        if item["src"] == "struct":
            A, vs, kd, wants = kf.struct_case(item)
            specs = [None if w is None else [complex(x) for x in w] for w in wants]
            return run_family(item, A, vs, kd, [None] * len(vs), specs, np.linalg.eigvalsh(A), True, item["ms"])
        return observe_random(item)
    except Exception as ex:  # noqa: BLE001
        info = common.exc_info(ex)
        return [Violation(PROP, "exception", item["name"], {"exc": info["exc"], "source": item["src"], "dtype": item["dt"]},
                          f"driver: {info['exc']}: {info['msg']} @ {info['where']}", replay=item)], [], 0


def observe_random(item):
    rng = np.random.RandomState(item["seed"])
    n, kind, cplx = item["n"], item["kind"], item["cplx"]
    A, U, lam = kf.hermitian_case(rng, n, kind, cplx)
    vk = item["vkind"]
    nb = item.get("batch", 1)
    vs, kdims = [], []
    sep = kind in ("pd", "indef", "repeated")
    for _ in range(nb):
        if vk == "generic":
            v = rng.randn(n) + (1j * rng.randn(n) if cplx else 0)
            idx = np.arange(n)
        else:
            k = 1 if vk == "eigvec" else min(n, item.get("k", 3))
            idx = rng.choice(n, size=k, replace=False)
            coef = rng.uniform(0.5, 2.0, k) * rng.choice([-1, 1], k)
            v = U[:, idx] @ coef
        vs.append(np.asarray(v))
        kdims.append(len(np.unique(lam[idx])))
    # unambiguous count: distinct eigenvalues separated by >= 1e-2 relative and few of them
    uniq = np.unique(lam)
    gaps_ok = sep and (len(uniq) < 2 or np.min(np.diff(uniq)) > 1e-3 * max(1.0, np.abs(lam).max()))
    count_ok = gaps_ok and (max(kdims) <= 12 or vk == "generic" and kind in ("pd", "indef") and n <= 40)
    Ks = [None] * nb
    specs = []
    for v in vs:
        specs.append(None)
    if gaps_ok and vk != "generic":
        specs = []
        for v in vs:
            co = U.conj().T @ v
            specs.append(sorted(set(float(x) for x in lam[np.abs(co) > 1e-8 * np.abs(co).max()])))
    ms = item["ms"]
    kd_use = kdims if gaps_ok else [None] * nb
    return run_family(item, A, vs, kd_use, Ks, specs, lam, gaps_ok, ms, count_ok=count_ok)


def default_object_check(seed):
    """`Lanczos()(A)` with its defaults (random start, max_iters = 1000 > n, tol = 1e-6)."""
    import cola
    from cola.linalg.decompositions.decompositions import Lanczos
    viol, n_chk, traces = [], 0, []
    rng = np.random.RandomState(seed)
    for n, cplx in ((1, False), (3, False), (12, True), (40, False)):
        A, U, lam = kf.hermitian_case(rng, n, "indef", cplx)
        dt = "c128" if cplx else "f64"
        item = {"src": "random", "name": f"default-object n={n}", "dt": dt, "tol": 1e-6}
        rec = recorder()
        rec.meta = {"alg": "lanczos", "n": n, "m": 1000, "tol": 1e-6, "tag": "default"}
        rec.on = True
        k0 = len(rec.traces)
        try:
            Q, T, info = Lanczos()(cola.SelfAdjoint(cola.ops.Dense(A)))
        finally:
            rec.on = False
        for tr in rec.traces[k0:]:
            kf.finish_trace(tr, Q.shape, T.shape, T.alpha.shape[-2])
            traces.append(tr)
        Qd, Td = np.asarray(Q.to_dense()), dense_T(T)
        n_chk += 1
        v0 = Qd[:, 0] if Qd.ndim == 2 and Qd.shape[1] else np.ones(n)
        for cl, de, ex in check_single(A, v0, Qd, Td, 1000, 1e-6, dt, n, True, None, None, lam)[0]:
            viol.append(mk_viol(item, cl, de, 1000, ex, n, n, False, "Lanczos()", dt, 1e-6))
    return viol, traces, n_chk


# ------------------------------------------------------------------------------------------------------
def plan_exact(mat, lst, real, quick):
    """Exact-breakdown family (TLC catalog, Hermitian members): every dtype with tol = 0 ("never stop early"), a
    positive tol (quick tier: first and last dtype only), single runs, batches of equal KDim and mixed batches;
    max_iters = 1..n+3 lies below / at / above KDim."""
    items = []
    for c in lst:
        dts = ["f64", "f32", "c128", "c64"] if c["real"] else ["c128", "c64"]
        for dt in dts:
            for k, tol in enumerate([0.0, 1e-7 if dt in ("f64", "c128") else 1e-3]):
                if quick and k == 1 and dt not in (dts[0], dts[-1]):
                    continue
                items.append({"src": "catalog", "name": c["name"], "cases": [c], "dt": dt, "tol": tol, "exact": True,
                              "alg_obj": k == 0 and (not quick or dt == dts[0]), "eigs": True})
    groups = {}
    for c in lst:
        groups.setdefault(c["exp"]["kdim"], []).append(c)
    for dt in (["f64", "c64"] if real else ["c128"]):
        for tol in (0.0, 1e-7 if dt != "c64" else 1e-3):
            for kd, g in groups.items():
                if len(g) >= 2:
                    items.append({"src": "catalog", "name": f"{mat}:batch-kdim{kd}", "cases": g[:4], "dt": dt, "tol": tol,
                                  "exact": True})
            if len(groups) >= 2:
                items.append({"src": "catalog", "name": f"{mat}:batch-mixed", "cases": lst[:5], "dt": dt, "tol": tol,
                              "exact": True})
    return items


def plan_struct(quick):
    """Exact-breakdown family beyond the catalog, Hermitian members: see kf.struct_case (quick tier: the positive tol
    in the first dtype only)."""
    items = []
    for spec in kf.struct_specs():
        if not spec["herm"]:
            continue
        n, kds = spec["n"], spec["kdims"]
        ms = set()
        for kd in kds:
            ms |= {kd - 1, kd, kd + 1}
        ms = sorted(x for x in ms | {1, n - 1, n, n + 3} if 1 <= x <= n + 3)
        for dt in spec["dts"]:
            for k, tol in enumerate([0.0, 1e-7 if dt in ("f64", "c128") else 1e-3]):
                if quick and k == 1 and dt != spec["dts"][0]:
                    continue
                it = dict(spec)
                it.update({"src": "struct", "dt": dt, "tol": tol, "ms": ms, "exact": True, "alg_obj": k == 0 and n <= 16,
                           "eigs": n <= 64})
                items.append(it)
    return items


def in_variant_subset(it, quick):
    """Deterministic subset of the planned items from which the scaled-operator and start-vector variants are derived."""
    nonx = ("h1:", "h2c:", "h3pd:", "h3sing:", "h3cind:", "h3rep:", "h4rep:", "h4ind:", "h3tri:", "h3cplain:")
    starts = (":gen", ":ev1+2", ":ev2+3", ":e1", ":batch-mixed", ":batch-kdim2", "h3cind:ev3", "h3cind:batch-kdim1",
              "h3pd:ev1", "h4rep:ev1")
    xm = ("x1r:", "xswap2:", "xdiag3z:", "xblk4h:", "xblk4c:") if quick else \
        ("x1r:", "xswap2:", "xperm4s:", "xdiag4:", "xdiag4s:", "xdiag3z:", "xblk4h:", "xblk4c:", "xid4:", "xid3s:")
    sn = ("struct-swaps-batch-n7", "struct-swaps-n200", "struct-hblock-n7", "struct-cblock-n6", "struct-diag-n200")
    nm, dt = it["name"], it["dt"]
    if it["src"] == "catalog" and not it.get("exact"):
        return nm.startswith(nonx) and nm.endswith(starts)
    if it["src"] == "catalog":
        return nm.startswith(xm) and not (quick and (it["tol"] != 0 or dt in ("f32", "c128") and it["cases"][0]["real"]))
    if it["src"] == "struct":
        return nm.startswith(sn) and not (quick and dt != it["dts"][0])
    if it["n"] not in ((5, 30, 300) if quick else (1, 2, 5, 13, 30, 64, 300)):
        return False
    return not (quick and (it["vkind"] == "eigvec" or it["kind"] in ("pd", "clustered") and "batch" not in nm))


def plan_start(items, quick):
    """Start-invariance family: the same deterministic subset as plan_scaled, the start vector(s) multiplied by
    c in kf.START_SCALES (1e-30: double precision only; exact-breakdown cases: the dyadic 2^-44, tol = 0 included)
    and / or handed over in a dtype other than the operator's (kf.start_dtypes: narrower / wider float, real for a
    complex operator, integer when the entries are integral), single and batched; lanczos, lanczos_eigs and the
    Lanczos() object.  Every clause of the original applies unchanged (KDim, spans, spectra do not depend on the
    length or the number type of v); clause start_invariance compares with the run on the same direction in the
    operator's dtype."""
    out, seen, k = [], {}, 0
    for it in items:
        nm, dt = it["name"], it["dt"]
        if not in_variant_subset(it, quick) or (quick and it.get("n", 0) >= 100):
            continue
        key = (nm, dt)
        if key in seen:
            continue
        seen[key] = True
        lo = dt in ("f32", "c64")
        if it["src"] == "catalog":
            real_v, integral_v = all(all(x[1] == 0 for x in c["v"]) for c in it["cases"]), True
        elif it["src"] == "struct":
            real_v, integral_v = True, True
        else:
            real_v, integral_v = not it["cplx"], False
        sd = kf.start_dtypes(dt, real_v, integral_v)
        if it["src"] == "random" and it["vkind"] != "generic":
            # rounding the start vector to a narrower float leaves the invariant subspace: KDim would not be known
            sd = [d for d in sd if kf.start_tol(dt, d) <= 1e3 * float(np.finfo(kf.NPDT[dt]).eps)]
        if it.get("exact"):
            var = [(kf.START_SCALE_EXACT, None)] + [(None, d) for d in sd]
        else:
            var = [(c, None) for c in kf.START_SCALES if not (lo and c < 1e-20)] + [(None, d) for d in sd] \
                + ([(1e-13, sd[0])] if sd else [])
        if quick:
            var = [var[k % len(var)]]
        for c, d in var:
            k += 1
            cp = dict(it)
            cp["start_scale"], cp["start_dtype"] = c, d
            cp["alg_obj"] = it.get("n", 4) <= 16
            if not it.get("exact") and k % 3 == 0:
                cp["tol"] = None        # default tolerance (argument omitted)
            if it["src"] == "random" and it["n"] > 13:
                cp["ms"] = (it["ms"][-3:] if quick else it["ms"][-5:]) if it["n"] < 100 else it["ms"][1:3]
                cp["eigs"] = it["n"] <= 30
            out.append(cp)
    return out


def plan_scaled(items, quick):
    """Scale-equivariance family: scaled copies c*A of a deterministic subset of the items planned above (catalog,
    exact-breakdown, by-construction and random Hermitian cases; single and batched), c in kf.SCALES where the dtype
    can represent the run (1e-30: squares of the entries underflow in single precision), with the default tolerance
    (argument omitted) and explicit ones.  Every clause of the original applies with tolerances relative to ||cA||;
    clause scale_equivariance compares with the run on A."""
    out = []
    seen = {}
    k = 0
    for it in items:
        nm, dt = it["name"], it["dt"]
        if not in_variant_subset(it, quick):
            continue
        key = (nm, dt)      # one set of scaled copies per (case, dtype): derived from the first tolerance planned
        if key in seen:
            continue
        seen[key] = True
        lo = dt in ("f32", "c64")
        scs = [c for c in kf.SCALES if not (lo and c < 1e-20)]      # 1e-30: squares underflow in single precision
        if it.get("exact"):
            scs = [c for c in scs if kf.is_pow2(c)]       # the run stays exact in floating point: tol = 0 included
        if quick:           # one factor per (case, dtype), rotating
            scs = [scs[k % len(scs)]]
        for c in scs:
            k += 1
            cp = dict(it)
            cp["op_scale"] = c
            cp["alg_obj"] = False
            if not it.get("exact") and k % 2 == 0:
                cp["tol"] = None        # default tolerance (argument omitted)
            elif not it.get("exact") and k % 4 == 1:
                cp["tol"] = 1e-3 if lo else 1e-4
            if it["src"] == "random" and it["n"] > 13:
                cp["ms"] = (it["ms"][-3:] if quick else it["ms"][-5:]) if it["n"] < 100 else it["ms"][1:3]
                cp["eigs"] = False
            out.append(cp)
    return out


def plan(cs, tier, seed):
    items = plan_unscaled(cs, tier, seed)
    return items + plan_scaled(items, tier == "quick") + plan_start(items, tier == "quick")


def plan_unscaled(cs, tier, seed):
    items = []
    herm = [c for c in cs if c["herm"]]
    by_mat = {}
    for c in herm:
        by_mat.setdefault(c["name"].split(":")[0], []).append(c)
    quick = tier == "quick"
    for mat, lst in by_mat.items():
        real = all(c["real"] for c in lst)
        if lst[0].get("exact"):
            items += plan_exact(mat, lst, real, quick)
            continue
        for c in lst:
            dts = (["f64", "c64", "f32", "c128"] if c["real"] else ["c128", "c64"])
            if quick:
                dts = dts[:2]
            for dt in dts:
                tols = [1e-7, 1e-4, 1e-11] if dt in ("f64", "c128") else [1e-7, 1e-3]
                if quick:
                    tols = tols[:2]
                for k, tol in enumerate(tols):
                    items.append({"src": "catalog", "name": c["name"], "cases": [c], "dt": dt, "tol": tol,
                                  "alg_obj": k == 0, "eigs": True})
        # batched: groups of equal KDim (strict per-element contract) and one mixed batch
        groups = {}
        for c in lst:
            groups.setdefault(c["exp"]["kdim"], []).append(c)
        for kd, g in groups.items():
            if len(g) >= 2:
                for dt in (["f64", "c64"] if real else ["c128"]):
                    if all(c["real"] for c in g) or dt.startswith("c"):
                        items.append({"src": "catalog", "name": f"{mat}:batch-kdim{kd}", "cases": g[:4], "dt": dt,
                                      "tol": 1e-7 if dt != "c64" else 1e-3})
        if len(groups) >= 2:
            dt = "f64" if real else "c128"
            items.append({"src": "catalog", "name": f"{mat}:batch-mixed", "cases": lst[:5], "dt": dt, "tol": 1e-7})
    items += plan_struct(quick)
    # random families
    rng = np.random.RandomState(seed + 1400)
    sizes = [1, 2, 3, 5, 8, 13, 30, 64] if quick else [1, 2, 3, 4, 5, 6, 8, 11, 16, 24, 40, 64, 100, 150]
    big = [300] if quick else [200, 300]
    kinds = ["pd", "indef", "repeated", "clustered"]
    vkinds = ["generic", "eigvec", "few"]
    for n in sizes + big:
        for kind in kinds:
            for cplx in (False, True):
                for vk in vkinds:
                    if n in big and quick and not (kind in ("indef", "clustered") and vk in ("generic", "few") and not cplx
                                                   or kind == "repeated" and cplx and vk == "few"):
                        continue
                    dts = (["c128", "c64"] if cplx else ["f64", "f32"])
                    if quick and n > 13:
                        dts = dts[:1] if vk != "few" else dts
                    for dt in dts:
                        lo = dt in ("f32", "c64")
                        tols = ([1e-3] if lo else [1e-7, 1e-10]) if not quick else ([1e-3] if lo else [1e-7])
                        if n <= 13:
                            ms = list(range(1, n + 4))
                        else:
                            ms = sorted({1, 2, 3, 7, n // 2, n - 1, n, n + 1, n + 50, 1000})
                            if n >= 100:
                                ms = sorted({1, 5, n // 3, n, n + 50}) if quick else sorted({1, 2, 5, n // 3, n - 1, n, n + 1, 1000})
                        for tol in tols * (1 if quick or n > 64 else 3):
                            items.append({"src": "random", "name": f"rand-{kind}-{'c' if cplx else 'r'}-n{n}-{vk}",
                                          "seed": int(rng.randint(1 << 30)), "n": n, "kind": kind, "cplx": cplx,
                                          "vkind": vk, "k": int(rng.randint(2, 5)), "dt": dt, "tol": tol, "ms": ms,
                                          "eigs": n <= 64 or not quick, "alg_obj": n <= 8})
        # batched random
        for cplx in (False, True):
            for vk in ("generic", "few"):
                if n in big and quick:
                    continue
                dt = "c128" if cplx else "f64"
                ms = list(range(1, n + 3)) if n <= 8 else sorted({1, 3, n // 2, n, n + 5})
                items.append({"src": "random", "name": f"rand-batch-{'c' if cplx else 'r'}-n{n}-{vk}",
                              "seed": int(rng.randint(1 << 30)), "n": n, "kind": "indef" if vk == "generic" else "repeated",
                              "cplx": cplx, "vkind": vk, "k": 3, "dt": dt, "tol": 1e-7, "ms": ms, "batch": 3})
    return items


def run(tier):
    t0 = time.time()
    # unbounded proof of the control skeleton's contract (all n, m, outcome sequences), concurrently with the rest
    from .. import apalache
    proof = apalache.Proof("Ind_LoopControl")
    try:
        return _run(tier, t0, proof)
    finally:
        for p in proof.jobs.values():
            if p.poll() is None:
                p.kill()


def _run(tier, t0, proof):
    wd = tla.make_build_dir(PROP)
    try:
        cs, stats = kf.run_models(PROP, wd, tier)
        items = plan(cs, tier, common.seed())
        # longest first for balance
        items.sort(key=lambda it: -(it.get("n", 4) ** 2 * len(it.get("ms", [1] * 7))))
        res = common.pmap(observe, items, chunksize=4)
        viol, traces, nchk = [], [], 0
        for v, t, k in res:
            viol += v
            traces += t
            nchk += k
        dv, dt_, dk = default_object_check(common.seed() + 14)
        viol += dv
        traces += dt_
        nchk += dk
        # trace validation (TLC): every recorded execution of the real loop against the skeleton
        cap_tr = 6000 if tier == "quick" else 40000
        traces_v = kf.select_traces(traces, cap_tr)
        slim = [{k: t[k] for k in kf.TRACE_KEYS} for t in traces_v]
        verdicts, tres, neg = kf.validate_traces(PROP, wd, slim)
        for k, t in enumerate(traces_v, start=1):
            vd = verdicts[k]
            if not vd["ok"]:
                name, dt, m = (t["tag"].split("|") + ["", "", ""])[:3]
                n = t["n"]
                viol.append(Violation(PROP, "control", f"{t['tag']}",
                                      {"dtype": dt, "n": n, "max_iters": t["m"], "regime": regime(t["m"], n),
                                       "batched": t["b"] > 1, "trace_clause": vd["clause"], "api": "lanczos_fact",
                                       "tol": t.get("tol"), "exact": t["kd"] > 0},
                                      f"recorded loop execution rejected by Trace_LoopControl at event {vd['at']}: "
                                      f"{vd['clause']} (events {t['evs'][-3:]}, fin {t['fin']})",
                                      replay={"trace": {k2: t[k2] for k2 in kf.TRACE_KEYS}}))
    finally:
        common.cleanup(wd)
    viol, n_viol_raw = kf.cap_violations(viol)
    cat_items = [it for it in items if it["src"] == "catalog"]
    samples = [f"{it['name']} {it['dt']} tol={kf.tol_eff(it):g}" + (f" scale={it['op_scale']:g}" if it.get("op_scale") else "")
               for it in items[:: max(1, len(items) // 6)][:6]]
    cov = {
        "states": stats["states"] + tres.distinct, "transitions": stats["transitions"] + tres.states,
        "traces_validated_against_impl": len(traces_v),
        "evaluations": nchk, "distinct_nontrivial": len(items),
        "rule": "one evaluation = one call of lanczos / lanczos_eigs / Lanczos()(A) with all clauses checked; "
                "distinct = (matrix, start vector(s), dtype, tol) work items, each swept over max_iters",
        "samples": samples, "exhaustive": False,
        "catalog_cases": stats["catalog_cases"], "catalog_hermitian_cases": len([c for c in cs if c["herm"]]),
        "catalog_items": len(cat_items), "random_items": len([it for it in items if it["src"] == "random"]),
        "exact_breakdown_catalog_cases": len([c for c in cs if c.get("exact") and c["herm"]]),
        "exact_breakdown_items": len([it for it in items if it.get("exact")]),
        "exact_breakdown_items_tol0": len([it for it in items if it.get("exact") and it["tol"] == 0]),
        "exact_breakdown_struct_items": len([it for it in items if it["src"] == "struct" and not it.get("op_scale")]),
        "start_variant_items": len([it for it in items if it.get("start_scale") or it.get("start_dtype")]),
        "start_variant_items_by_scale": {f"{c:g}": len([it for it in items if it.get("start_scale") == c])
                                         for c in kf.START_SCALES + (kf.START_SCALE_EXACT, )},
        "start_variant_items_by_dtype": {d: len([it for it in items if it.get("start_dtype") == d]) for d in kf.VDT},
        "start_variant_items_batched": len([it for it in items if (it.get("start_scale") or it.get("start_dtype")) and
                                            (len(it.get("cases", [])) > 1 or it.get("batch", 1) > 1
                                             or len(it.get("starts", [])) > 1)]),
        "tlc_start_scale_invariant_cases": stats.get("start_scale_invariant_cases"),
        "scaled_items": len([it for it in items if it.get("op_scale")]),
        "scaled_items_by_scale": {f"{c:g}": len([it for it in items if it.get("op_scale") == c]) for c in kf.SCALES},
        "scaled_items_batched": len([it for it in items if it.get("op_scale") and (len(it.get("cases", [])) > 1
                                                                                   or it.get("batch", 1) > 1
                                                                                   or len(it.get("starts", [])) > 1)]),
        "scaled_items_default_tol": len([it for it in items if it.get("op_scale") and it["tol"] is None]),
        "scaled_traces_validated": len([t for t in traces_v if t.get("sc") is not None]),
        "tlc_scale_equivariant_cases": stats.get("scale_equivariant_cases"),
        "exact_traces_validated": len([t for t in traces_v if t.get("kd", 0) > 0]),
        "exact_traces_validated_tol0": len([t for t in traces_v if t.get("kd", 0) > 0 and t.get("tol") == 0]),
        "mc_krylov_states": stats["mc_krylov_states"], "mc_loopcontrol_states": stats["mc_loopcontrol_states"],
        "violations_before_dedup_cap": n_viol_raw, "trace_states": tres.distinct, "traces_recorded": len(traces), "negative_controls_rejected": neg,
        "tlc_wall_s": stats["tlc_wall_s"] + round(tres.wall, 1),
        "checker_cmd": "tlc MC_Krylov.tla (Krylov.tla, LoopControl.tla, generated KrylovCatalog.tla) ; "
                       "tlc MC_LoopControl.tla ; tlc Trace_LoopControl.tla",
    }
    cov["unbounded_proof"] = proof.finish()
    return common.finish(PROP, tier, t0, cov, viol, ASSUMPTIONS)


def replay(path):
    v = json.load(open(path))
    r = v["replay"]
    if "trace" in r:
        wd = tla.make_build_dir(PROP)
        try:
            verd, _ = kf._run_trace(wd, [r["trace"]], "replay.ndjson", workers=1)
        finally:
            common.cleanup(wd)
        print("Trace_LoopControl verdict:", verd[1])
        if not verd[1]["ok"]:
            print(f"VIOLATION property={PROP} replay={path}")
            return 1
        return 0
    if r.get("src") == "catalog":
        # expectations are re-derived by TLC
        wd = tla.make_build_dir(PROP)
        try:
            cs, _ = kf.run_models(PROP, wd, "quick")
        finally:
            common.cleanup(wd)
        by = {c["name"]: c for c in cs}
        r["cases"] = [by[c["name"]] for c in r["cases"]]
    viols, _, _ = observe(r)
    hit = [x for x in viols if x.clause == v["clause"]]
    for x in hit:
        print(f"VIOLATION property={PROP} replay={path}\n  clause={x.clause} case={x.case} :: {x.detail}")
    return 1 if hit else 0
