"""Writes /verif/MANIFEST.json from the table below (single source of truth for what is claimed)."""
import json
import os

VERIF = os.path.dirname(os.path.dirname(os.path.abspath(__file__)))

NOTE_COMMON = ("Trusted: TLC 1.8, the transcription of the documented semantics into spec/*.tla, the harness-side "
               "NumPy backend shim (harness/shim.py), NumPy/SciPy; floating-point outputs are compared with "
               "TLC's exact values under a stated tolerance. Only the NumPy backend exists in this sandbox.")

CHECKS = {
    "C01": dict(
        text="TLC enumerates operator expression trees (every operator kind, nestings, non-square/complex/mixed-dtype "
             "leaves) in spec/MC_Ops.tla and computes the exact represented matrix of each from the documented meaning "
             "of the kinds (Expr.tla!Denote over Gaussian rationals); every TLC state is replayed through cola's public "
             "constructors and shape, dtype, to_dense, densify, A@x, A@X and result dtypes are compared with TLC's values.",
        design="5/C01", technique="TLC state enumeration of MC_Ops + spec-to-code replay of every state"),
    "C02": dict(
        text="Same TLC model with the .T/.H and annotation-wrapper actions: TLC computes the exact matrix of every tree "
             "(annotations are only attached where TLC has verified them true of the exact matrix); replay observes "
             "x@A, X@A and towers of .T/.H up to depth 3 (A.T.T, A.H.H, ...) on the real operators.",
        design="5/C02", technique="TLC state enumeration of MC_Ops + spec-to-code replay of every state"),
    "C03": dict(
        text="TLC enumerates algebraic expressions (+, -, unary -, c*, *c, /c, c/, @, kron, kronsum, block_diag, sum(), "
             "operands incl. plain arrays and ten scalar objects) and computes the exact matrix, shape and promoted "
             "dtype of the mathematical expression, marking shape-mismatched applications ill-formed; replay evaluates "
             "the same Python expression on real operands and requires TLC's matrix/shape/dtype or, for ill-formed "
             "ones, an exception. A second TLC model (spec/Rewrite.tla, MC_Rewrite.tla) transcribes the rewriting rules "
             "themselves (Impl(e): flattening, identity elimination, scalar merging, Diagonal fusion, 52 dispatch "
             "signatures resolved by Dispatch.tla) and proves Denote(Impl(e)) = Denote(e) on every enumerated expression "
             "(mutant negative controls); the tree cola really builds is compared with Impl(e) (drift is reported).",
        design="5/C03", technique="TLC state enumeration of MC_Ops and MC_Rewrite + spec-to-code replay of every state"),
    "C04": dict(
        text="The live rule table (150 signatures, subtype and isinstance facts, condition truth values) is extracted "
             "from the running process on every run and handed to TLC as constants; TLC evaluates the transcribed plum "
             "resolver (spec/Dispatch.tla: match, candidate loop, precedence tie-break with the +0.5 bonus) on the "
             "complete lattice of admissible calls (about 27k points: function x kind(s) x annotation x algorithm x "
             "arity) and every point must resolve. Conformance both ways: the real resolver is run on real argument "
             "objects for every lattice point and must agree with the model; public calls are executed end to end "
             "and every nested resolution event is validated against the model by spec/Trace_Dispatch.tla, together "
             "with the resolution events recorded while the repository's own NumPy tests run under the same recorder.",
        design="5/C04", technique="TLC over extracted rule table (exhaustive lattice) + resolver trace validation"),
    "C05": dict(
        text="TLC enumerates trees whose leaves carry every declaration that TLC has verified true of the exact matrix, "
             "computes the exact set of true annotations of each composite (IsHermitian / IsPSD by principal minors / "
             "IsStiefel / IsUnitary over Gaussian rationals) and evaluates the transcribed inference rules "
             "(Annot.tla!Infer) against it; replay requires the real .annotations to be a subset of TLC's true set, "
             "checks the declaration wrapper (same action, wrapped operator untouched) and reports model drift; "
             "annotations attached to routine outputs (lanczos, arnoldi, eig, svd, matrix functions, inv) are tested "
             "numerically on the returned matrices.",
        design="5/C05", technique="TLC state enumeration of MC_Ops + exact annotation oracle + spec-to-code replay"),
    "C06": dict(
        text="TLC computes the exact inverse adj/det (Gaussian rationals), determinant and positive-definiteness of "
             "every square tree it enumerates (all kinds with an inverse rule and their nestings, true PSD/Unitary "
             "declarations); replay solves with Auto, LU, Cholesky, CG and GMRES through inv/solve and compares dense "
             "inverse, products, left products and transposes with TLC's exact inverse (iterative ones to a residual-"
             "level tolerance); both sides of Auto's 10^6-entry switch are exercised on 2^9 / 2^10 Kronecker operators "
             "with a factor-wise exact inverse.",
        design="5/C06", technique="TLC exact inverse oracle over enumerated trees + spec-to-code replay"),
    "C07": dict(
        text="TLC computes the exact determinant (Laplace expansion over Gaussian integers with the common "
             "denominator) of every square tree it enumerates (products, Kronecker with unequal factors, BlockDiag "
             "with multiplicities, diagonal, scalar of any size, identity, triangular, permutations of both parities, "
             "dense, real and complex, determinants of both signs and on both sides of 1); replay evaluates slogdet / "
             "logdet with (Auto,Auto), (LU,Auto), (Auto,Exact), (Arnoldi,Exact), (Cholesky,Auto), (Lanczos,Exact) and "
             "requires sign*exp(logabs) = det, a unit-modulus sign and logdet = logabs. Dimensions 5..8 (three-factor "
             "products) use a subset dynamic-programming determinant (Mat.tla!DetDP). Operators too large to expand "
             "(scalar of size 5000, diagonals with hundreds of entries, large multiplicities) are decided by "
             "spec/BigDet.tla: TLC proves on every small compressed tree that the factored determinant multiplies out to "
             "the determinant of the expanded matrix and evaluates it on the large catalog; the harness forms sign and "
             "log|det| from TLC's bag of powers.",
        design="5/C07", technique="TLC exact determinant oracle over enumerated trees + spec-to-code replay"),
    "C08": dict(
        text="(a) TLC gives the exact matrix of every square tree; replay calls diag(A, k) for every offset with Exact "
             "and the automatic default and trace(A): a structural rule may refuse but never return other values. "
             "(b) The index arithmetic of the generic prober (identity chunks, shift, pad, trim) is transcribed in "
             "spec/Prober.tla and model-checked for every alignment of the size against the block (small sizes and "
             "block sizes exhaustively, the real block size 100 for n in 99..250); the real prober is run on "
             "position-encoding operators for the same (n, k).",
        design="5/C08", technique="TLC model of the prober index arithmetic + exact matrix oracle + replay"),
    "C09": dict(
        text="TLC derives for every enumerated tree an exact spectral decomposition A = sum lam_i P_i (exact rational "
             "spectral projectors, structurally through Kronecker, KronSum, BlockDiag, transposes, scalar multiples) "
             "and verifies it against the denoted matrix in every state (invariant SpecInv); the expected f(A) v is "
             "sum f(lam_i) P_i v with TLC's eigenvalues and projectors, the harness only evaluates the scalar f. Replay "
             "applies exp, log, sqrt, isqrt, pow for 11 exponents and a user function with Auto, Eig, Eigh, Lanczos, "
             "Arnoldi to vectors and multi-column operands, and checks sqrt twice = A and f(A) 0 = 0.",
        design="5/C09", technique="TLC-verified exact spectral oracle over enumerated trees + spec-to-code replay"),
    "C10": dict(
        text="The spectrum of every enumerated tree (eigenvalues with multiplicities, exact spectral projectors) comes "
             "from TLC's structural spectral decomposition, verified against the denoted matrix in every state; replay "
             "calls eig for every k, which in {LM, SM} and every admissible algorithm (dense, Lanczos / Arnoldi with "
             "caps n and n+3, power iteration, the structural Identity / Diagonal / Triangular rules), eigmax and "
             "eigmin, and requires the returned values to be exactly the k eigenvalues of largest / smallest "
             "magnitude, A v = lambda v with v != 0, independence and (self-adjoint) orthonormality; dense leaves are "
             "also replayed scaled by 1e-6 / 1e5 with tolerances that follow the scale. A second TLC model "
             "(spec/UnaryEigRules.tla, AutoChoice.tla) transcribes the eigenvalue / matrix-function rules and the "
             "algorithm Auto() hands over to for every entry point, proves them sound on the enumerated trees (22 "
             "mutant negative controls) and is compared with the rules and hand-overs recorded on the real resolver.",
        design="5/C10", technique="TLC-verified exact spectral oracle over enumerated trees + spec-to-code replay"),
    "C11": dict(
        text="TLC decides exactly which enumerated trees are Hermitian positive definite (leading principal minors) "
             "resp. non-singular and provides their exact matrix; replay requires cholesky(A) lower triangular with "
             "L L^H equal to it, plu(A) = (permutation, lower, upper) with P L U equal to it, and factor-wise "
             "(Kronecker / BlockDiag / Diagonal / scalar) structure of the returned operators.",
        design="5/C11", technique="TLC exact definiteness/matrix oracle over enumerated trees + spec-to-code replay"),
    "C12": dict(
        text="TLC runs the conjugate-gradient recurrence exactly as coded in cg.py (right-hand-side and x0 normalisation, "
             "initialize, take_cg_step, guarded divisions and converged mask as exact case splits) over Gaussian "
             "rationals on up to 490 small real-SPD / complex-Hermitian-PD systems (2x2, 3x3, repeated eigenvalues, x0 "
             "in {0, e1, b}, identity / Jacobi / rational SPD preconditioners, 1-2 columns incl. zero columns) and checks "
             "in every state r = b - Ax, residual orthogonality, A-conjugacy, equality of the returned iterate with the "
             "exact A-norm minimiser over x0 + K_k(MA, M r0) computed from the normal equations on the exact Krylov "
             "basis, zero rhs => zero, termination within n steps, scale equivariance; every state is replayed through "
             "cg, inv(A, CG)@b and solve in four dtypes for every max_iters <= 2n and compared with TLC's exact iterate. "
             "The stopping contract (continue <=> some column above tol*(1+||r0||) and k < max_iters, cap, products = "
             "k+1, iteration count and residual history of while_loop_winfo) is a TLC trace specification validated on "
             "recorded real executions of the catalog and of seeded floating-point systems (n <= 200, cond <= 1e6, "
             "clustered spectra, 12 decades of column norms, Jacobi / Nystrom preconditioners); Krylov optimality on "
             "those larger systems is a harness-side numeric predicate (k <= 5, cond(MA) <= 100).",
        design="5/C12", technique="TLC invariants on exact CG model + lock-step replay + TLC trace validation of the control contract"),
    "C13": dict(
        text="TLC evaluates the exact rational GMRES oracle (spec/LeastSquares.tla!GmresOpt: minimiser of ||b-Ax|| over "
             "x0+K_m on a rank-revealing Krylov prefix) on a catalog of systems n<=4 (real non-symmetric, complex, "
             "normal/non-normal, defective, eigenvector right-hand sides, x0 in {0,e1,exact}) for m=0..n+2 and checks in "
             "every state rho2_m<=rho2_0, monotonicity, rho2_m=0 iff m>=Krylov dimension and the optimality "
             "certificates; every state is replayed through gmres() and inv(A,GMRES())@b (residual, minimiser, monotone, "
             "products with A counted, several columns), failures are classified against TLC's exact Galerkin iterate; "
             "seeded systems up to n=150 are judged by a harness-side least-squares oracle.",
        design="5/C13", technique="TLC exact oracle over catalog + spec-to-code replay of every state"),
    "C14": dict(
        text="TLC computes exactly (Krylov.tla over Mat.tla) rank sequence, Krylov dimension, excited spectrum and "
             "expected column counts for a 263-case Gaussian-integer catalog (n <= 4) and proves that the Lanczos control "
             "skeleton (LoopControl.tla) yields min(max_iters, n, KDim) columns under the exact test, plus its contract "
             "for all test-outcome sequences (n <= 7, m <= 11). Real lanczos / lanczos_eigs / Lanczos() are checked "
             "against these values and against the property's relations (first column, orthonormality, T = Q^H A Q real "
             "symmetric tridiagonal with non-negative off-diagonal, A Q - Q T, Krylov span, Ritz pairs) on the catalog "
             "and on seeded random Hermitian families to n = 300, single and batched; every recorded loop execution is "
             "trace-validated by TLC (negative controls).",
        design="5/C14", technique="TLC exact Krylov oracle + control-skeleton model checking (unbounded: Apalache inductive "
                                   "invariant) + trace validation of real loops"),
    "C15": dict(
        text="As C14 for Arnoldi: TLC's exact Krylov data (incl. non-normal, defective and complex catalog matrices) and "
             "the Arnoldi control skeleton give step count min(m, n, KDim), the number of orthonormal columns, buffer "
             "layout and expected spectrum; real arnoldi / arnoldi_eigs / Arnoldi() are checked for A Q_m = Q H, upper "
             "Hessenberg H with non-negative sub-diagonal, m > n equal to the n-step run, no spurious eigenvalues, on "
             "the catalog and seeded random families to n = 200; recorded loops are trace-validated by TLC.",
        design="5/C15", technique="TLC exact Krylov oracle + control-skeleton model checking (unbounded: Apalache inductive "
                                   "invariant) + trace validation of real loops"),
    "C16": dict(
        text="TLC validates a catalog of exactly factored matrices A = U Sigma V^H (rational unitary factors, distinct "
             "integer singular values; tall/wide/square, real/complex) and exports the exact best rank-k approximation "
             "for every k (MC_Svd); TLC computes the exact minimum-norm least-squares solution for full-rank matrices of "
             "every shape class and the structured kinds, checks its Moore-Penrose characterisation and the modelled "
             "structural pinv rules (MC_Pinv); every state is replayed through svd (DenseSVD/Auto/Lanczos) and pinv "
             "(default/Auto/LSTSQ/CG).",
        design="5/C16", technique="TLC exact SVD / least-squares oracle over catalog + spec-to-code replay"),
    "C17": dict(
        text="TLC (MC_Rng over Rng.tla) explores every interleaving of user draws / reseeds of numpy's global generator "
             "with calls of the nine randomised routines x 2 keys up to depth 4 (quick) / 5 (thorough) on a mechanism "
             "model whose per-routine discipline is extracted from the current source; the interleavings are executed "
             "against cola with SHA-256 identities of np.random.get_state() and of outputs, and Trace_Rng.tla validates "
             "every recorded event (global state unchanged, same key => same bytes). HutchControl.tla decides by complete "
             "enumeration of Rademacher sign vectors that the coded estimator is unbiased for every offset and gives its "
             "exact variance; cola's pooled estimates are tested against it (== where the variance is 0, |z| <= 6 "
             "otherwise - statistical, harness-side); Trace_Hutch.tla validates cap, key chain and divisor of recorded loops.",
        design="5/C17", technique="TLC interleaving exploration + trace validation of recorded RNG states and outputs"),
    "C18": dict(
        text="The _dynamic registry is modelled in Registry.tla with instance templates extracted from the current tree; "
             "TLC explores all construction orders (<= 4 over the conflict group, <= 2 over 45 templates) and checks "
             "'leaves = array parameters' modulo known findings; orders are replayed in fresh interpreters (registry, "
             "flatten leaves, unflatten round trip, leaf substitution; model drift reported). Persist.tla states the frame "
             "conditions; MC_Persist enumerates all well-typed operation sequences (<= 3) over a pool of operators and "
             "caller-owned arrays, replayed with digests of every array / operator after every call and validated by "
             "Trace_Persist.tla, plus seeded longer sequences.",
        design="5/C18", technique="TLC exploration of construction orders and operation sequences + fresh-interpreter replay + trace validation"),
    "C19": dict(
        text="(1) On the live rule table TLC (MC_Dispatch) decides for every call (function, structured kind, documented "
             "algorithm class, arity incl. omitted algorithm) whose function owns a structural rule for that kind that the "
             "selected rule is structural. (2) spec/Cost.tla is a cost semantics of the matrix-free products; TLC checks "
             "on the cost catalog that the work stays within 'fixed multiple of the operand + dense sizes of the factors', "
             "that this budget is at least 16x below n^2 and that the catalog is in the property's regime, and exports "
             "the budget. (3) Real operators of those shapes (Kronecker with 2-4 factors, KronSum, BlockDiag with "
             "multiplicities, sums / products with diagonal, scalar, identity; n = 4096..9216) go through matmul, inv / "
             "solve, logdet, diag / trace, sqrt / pow / exp, cholesky, plu with and without explicit algorithm under "
             "tracemalloc; the peak must stay within TLC's budget. (4) spec/LinalgRules.tla transcribes the structural "
             "rules of inv / slogdet / diag / trace / cholesky / plu (guards, selection, bodies); TLC proves each is the "
             "algebraic identity under its guard (mutant negative controls) and the rules recorded on the real resolver "
             "and the skeleton of the real result are compared with the model (drift is reported).",
        design="5/C19", technique="TLC on extracted rule table + TLC cost model + measured-peak conformance"),
    "C20": dict(
        text="TLC resolves every index form (ints, slices incl. negative/strided/empty, integer arrays, lists) with the "
             "transcribed Python slice.indices / negative-wrap semantics (PyIndex.tla) on every operator tree and "
             "gathers the exact entries; replay evaluates A[...] on the real operator (scalars, vectors, lazy slices, "
             "their dense form and products with real and complex operands).",
        design="5/C20", technique="TLC state enumeration of MC_Ops/PyIndex + spec-to-code replay of every state"),
}

NOT_APPLICABLE = {
}


def build():
    checks = []
    for pid, c in sorted(CHECKS.items()):
        checks.append({
            "property_id": pid,
            "quick_cmd": f"./check {pid} --tier quick",
            "thorough_cmd": f"./check {pid} --tier thorough",
            "evidence_file": f"/verif/evidence/{pid}.json",
            "replay_cmd_template": f"./check {pid} --replay {{path}}",
            "engine": "tlc+replay",
            "level_claimed": {"category": "model_checking", "text": c["text"], "design_ref": c["design"]},
            "level_note": c.get("note", NOTE_COMMON),
            "technique": c["technique"],
        })
    na = dict(NOT_APPLICABLE)
    for line in open(os.path.join(VERIF, "properties.jsonl")):
        pid = json.loads(line)["id"]
        if pid not in CHECKS and pid not in na:
            na[pid] = "not claimed yet: the check for this property has not been built (work in progress, see DESIGN.md section 5)"
    na = [{"property_id": k, "reason": v} for k, v in sorted(na.items())]
    m = {
        "version": 1,
        "setup_cmd": "./setup.sh",
        "hooks": {
            "guard": "COLA_VERIF",
            "enable": "none needed: cola is a sequential library whose public calls return the abstract state; the "
                      "harness wraps functions in its own process (harness/shim.py, harness/record.py). No source hook "
                      "exists in /repo, so the guard is never read.",
            "baseline_off_cmd": "./run_baseline.sh",
            "source_commits": [],
            "add_only": True,
        },
        "engines": [{"name": "tlc+replay", "path": "/verif/check",
                     "serves_properties": sorted(CHECKS),
                     "kind_free_text": "explicit TLA+ specification (spec/*.tla) model-checked with TLC; conformance by "
                                       "replaying TLC states/behaviours into cola and validating recorded cola traces "
                                       "against trace specifications"}],
        "checks": checks,
        "not_applicable": na,
        "notes": "See DESIGN.md. Genuine defects of the pinned snapshot are listed in known_findings.json "
                 "(fixed ones with their 'fix:' commit).",
    }
    with open(os.path.join(VERIF, "MANIFEST.json"), "w") as fh:
        json.dump(m, fh, indent=1)
    return m


if __name__ == "__main__":
    try:
        import jsonschema
    except ImportError:
        jsonschema = None
    m = build()
    if jsonschema:
        jsonschema.validate(m, json.load(open("/root/.vp/MANIFEST.schema.json")))
    print("MANIFEST.json written:", [c["property_id"] for c in m["checks"]])
