"""Catalog and helpers for the properties decided with TLC's exact spectral decompositions (C09, C10)."""
from fractions import Fraction

import numpy as np

from . import catalog, opsfam


def _cfrac(x):
    if isinstance(x, complex):
        return (Fraction(int(x.real)), Fraction(int(x.imag)))
    return (Fraction(int(x)), Fraction(0))


def _cmul(a, b):
    return (a[0] * b[0] - a[1] * b[1], a[0] * b[1] + a[1] * b[0])


def _cinv(a):
    d = a[0] * a[0] + a[1] * a[1]
    return (a[0] / d, -a[1] / d)


def _matmul(A, B):
    n, m, p = len(A), len(B), len(B[0])
    out = [[(Fraction(0), Fraction(0)) for _ in range(p)] for _ in range(n)]
    for i in range(n):
        for j in range(p):
            acc = (Fraction(0), Fraction(0))
            for k in range(m):
                q = _cmul(A[i][k], B[k][j])
                acc = (acc[0] + q[0], acc[1] + q[1])
            out[i][j] = acc
    return out


def _inverse(A):
    n = len(A)
    M = [list(row) + [(Fraction(int(i == j)), Fraction(0)) for j in range(n)] for i, row in enumerate(A)]
    for c in range(n):
        piv = next(r for r in range(c, n) if M[r][c] != (0, 0))
        M[c], M[piv] = M[piv], M[c]
        iv = _cinv(M[c][c])
        M[c] = [_cmul(x, iv) for x in M[c]]
        for r in range(n):
            if r != c and M[r][c] != (0, 0):
                f = M[r][c]
                M[r] = [(x[0] - _cmul(f, y)[0], x[1] - _cmul(f, y)[1]) for x, y in zip(M[r], M[c])]
    return [row[n:] for row in M]


def eig_leaf(V, lam, dt, name=None):
    """Dense leaf A = V diag(lam) V^-1 with the decomposition as payload; A must come out integral."""
    Vf = [[_cfrac(x) for x in row] for row in V]
    n = len(V)
    L = [[(_cfrac(lam[i]) if i == j else (Fraction(0), Fraction(0))) for j in range(n)] for i in range(n)]
    A = _matmul(_matmul(Vf, L), _inverse(Vf))
    rows = []
    for row in A:
        r = []
        for x in row:
            assert x[0].denominator == 1 and x[1].denominator == 1, f"{name}: A is not integral"
            r.append(complex(int(x[0]), int(x[1])) if x[1] != 0 else int(x[0]))
        rows.append(r)
    leaf = catalog.dense(rows, dt)
    leaf["p"]["sp"] = {"V": catalog.mat(V), "lam": [{"n": catalog.c(x), "d": 1} for x in lam]}
    return leaf


def spectral_leaves():
    L = {}
    V2 = [[1, 1], [-1, 1]]
    L["E_spd13"] = eig_leaf(V2, [1, 3], "f64", "spd13")                      # [[2,1],[1,2]]
    L["E_spd35"] = eig_leaf(V2, [3, 5], "f32", "spd35")                      # [[4,1],[1,4]]
    L["E_spd19"] = eig_leaf(V2, [1, 9], "f64", "spd19")                      # [[5,4],[4,5]] perfect squares
    L["E_psd02"] = eig_leaf(V2, [0, 2], "f64", "psd02")                      # singular PSD (exp only)
    L["E_ind"] = eig_leaf(V2, [-1, 3], "f64", "ind")                         # symmetric indefinite
    L["E_tri25"] = eig_leaf([[1, 1], [0, 1]], [2, 5], "f64", "tri25")        # non-normal, positive eigenvalues
    L["E_rot"] = eig_leaf([[1, 1], [-1j, 1j]], [1 + 1j, 1 - 1j], "f64", "rot")  # real, complex-conjugate pair
    L["E_rot12"] = eig_leaf([[1, 1], [-1j, 1j]], [1 + 2j, 1 - 2j], "f64", "rot12")  # real, arguments +-1.107 > pi/3
    L["E_herm14"] = eig_leaf([[1 + 1j, 1 + 1j], [-1, 2]], [1, 4], "c128", "herm14")  # complex Hermitian PD
    L["E_spd114"] = eig_leaf([[1, 1, 1], [-1, 0, 1], [0, -1, 1]], [1, 1, 4], "f64", "spd114")   # repeated eigenvalue
    L["E_spd241"] = eig_leaf([[1, 1, 0], [-1, 1, 0], [0, 0, 1]], [2, 4, 1], "f64", "spd241")
    L["E_gen124"] = eig_leaf([[1, 1, 0], [0, 1, 1], [0, 0, 1]], [1, 2, 4], "f64", "gen124")     # non-symmetric
    L["E_cgen"] = eig_leaf([[1, 1], [0, 1]], [2 + 1j, 1 + 2j], "c128", "cgen")                  # complex general
    L["E_indneg"] = eig_leaf(V2, [-3, 1], "f64", "indneg")                   # dominant eigenvalue negative
    tl = eig_leaf([[1, 0], [-1, 1]], [2, 5], "f64", "tril25")                # lower triangular [[2,0],[3,5]]
    tl["k"] = "Triangular"
    tl["p"]["lower"] = True
    L["T_low25"] = tl
    tu = eig_leaf([[1, 1, 0], [0, 1, 2], [0, 0, 1]], [1, 3, -2], "f64", "triu")   # upper triangular, unsorted diagonal
    tu["k"] = "Triangular"
    tu["p"]["lower"] = False
    L["T_up"] = tu
    tc = eig_leaf([[1, 1j, 0], [0, 1, 1], [0, 0, 1]], [1j, 2, -3], "c128", "triuc")   # complex upper triangular
    tc["k"] = "Triangular"
    tc["p"]["lower"] = False
    L["T_upc"] = tc
    L["G_dgneg"] = catalog.diag([2, -5, 1], "f64")
    L["G_dg14"] = catalog.diag([4, 1], "f64")
    L["G_dg419"] = catalog.diag([4, 1, 9], "f64")
    L["G_dgn"] = catalog.diag([-2, 3], "f64")
    L["G_dgc"] = catalog.diag([1 + 1j, 2], "c128")
    L["G_I2"] = catalog.ident(2, "f64")
    L["G_I3"] = catalog.ident(3, "f64")
    L["G_sc2"] = catalog.scalarmul(catalog.q(2), 2, "f64")
    L["G_sc3h"] = catalog.scalarmul(catalog.q(1, 0, 2), 3, "f64")
    L["G_scn"] = catalog.scalarmul(catalog.q(-3), 2, "f64")
    return L


ACTS = {"Kronecker", "KronSum", "BlockDiag", "Transpose", "Adjoint", "Product", "Annot", "NoDispatch", "spectral"}


def plan(tier, seed):
    L = spectral_leaves()
    seeds = list(L.values())
    ops = [L[n] for n in ["E_spd13", "E_tri25", "E_herm14", "G_dg14", "G_I2", "G_sc2", "E_rot", "E_spd19"]]
    runs = [dict(seeds=seeds, operands=seeds, small=ops[:2], acts=ACTS, lvl=1, dim=9, ebound=200,
                 invariants=("Emit", "ShapeConsistent", "SpecInv"))]
    # spectral shifts B + c I (a Sum with a scalar operator, in both orders): the selection by magnitude is made on the
    # shifted spectrum
    shifts = [L[n] for n in ["G_sc2", "G_scn", "G_sc3h"]] + [catalog.scalarmul(catalog.q(-5, 0, 2), 3, "f64"),
                                                              catalog.scalarmul(catalog.q(-5, 0, 2), 2, "f64")]
    runs.append(dict(seeds=[L[n] for n in ["G_dgneg", "G_dg419", "E_spd241", "E_gen124", "T_up", "E_ind", "E_indneg",
                                           "G_dgn", "E_spd13"]] + shifts,
                     operands=shifts + [L["G_dgneg"], L["E_ind"], L["E_gen124"]], small=ops[:2], acts={"Sum", "spectral"},
                     lvl=1, dim=4, ebound=400, invariants=("Emit", "ShapeConsistent", "SpecInv")))
    # three Kronecker factors whose eigenvalue arguments add up to more than pi (principal branch of the whole)
    runs.append(dict(seeds=[L["E_rot12"], L["E_rot"]], operands=[L["E_rot12"]], small=ops[:2], acts={"Kronecker", "spectral"},
                     lvl=2, dim=8, ebound=2000, invariants=("Emit", "ShapeConsistent", "SpecInv")))
    if tier == "quick":
        runs.append(dict(seeds=[L[n] for n in ["E_spd13", "E_tri25", "E_herm14", "G_dg14", "E_rot", "E_spd35", "G_sc2"]],
                         operands=ops[:6], small=ops[:2], acts=ACTS, lvl=2, dim=6, ebound=200,
                         invariants=("Emit", "ShapeConsistent", "SpecInv")))
    else:
        runs.append(dict(seeds=seeds, operands=ops, small=ops[:2], acts=ACTS, lvl=2, dim=8, ebound=400,
                         invariants=("Emit", "ShapeConsistent", "SpecInv")))
        runs.append(dict(seeds=seeds, operands=ops, small=ops[:2], acts=ACTS, lvl=3, dim=8, ebound=400, simulate=40,
                         invariants=("Emit", "ShapeConsistent", "SpecInv")))
    return runs


def spectral_cases(cases):
    return [c for c in cases if c.get("wf") and "spec" in c]


def qval(qj):
    return complex(qj["n"][0], qj["n"][1]) / qj["d"]


def spectrum(c):
    """[(lambda, projector ndarray, multiplicity)] from TLC's output."""
    from .build import mat_to_np
    return [(qval(s["lam"]), mat_to_np(s["P"]), int(s["mult"])) for s in c["spec"]]


def f_of_A(spec, f):
    return sum(f(lam) * P for lam, P, _ in spec)


def eig_condition(spec):
    """Norm of the largest projector (1 for normal matrices): conditioning of the eigenproblem."""
    return max(float(np.linalg.norm(P, 2)) for _, P, _ in spec)


def attrs(c):
    at = opsfam.case_attrs(c)
    sp = spectrum(c)
    lams = [l for l, _, _ in sp]
    at["n"] = c["dense"]["r"]
    at["complex"] = bool(opsfam.dts_in(c["t"]) & {"c64", "c128"})
    at["real_spectrum"] = all(abs(l.imag) < 1e-12 for l in lams)
    at["min_real"] = min(l.real for l in lams)
    at["simple"] = all(m == 1 for _, _, m in sp)
    at["hermitian"] = "SelfAdjoint" in c["true_anns"]
    at["psd"] = "PSD" in c["true_anns"]
    return at
