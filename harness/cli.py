"""./check <property-id> [--tier quick|thorough] [--replay <path>]"""
import argparse
import importlib
import os
import sys
import traceback


def main():
    ap = argparse.ArgumentParser()
    ap.add_argument("prop")
    ap.add_argument("--tier", default=os.environ.get("VERIF_TIER", "quick"), choices=["quick", "thorough"])
    ap.add_argument("--replay", default=None)
    a = ap.parse_args()
    prop = a.prop.upper()
    try:
        mod = importlib.import_module(f"harness.props.{prop.lower()}")
    except ModuleNotFoundError as e:
        print(f"no check for {prop}: {e}", file=sys.stderr)
        sys.exit(2)
    try:
        if a.replay:
            rc = mod.replay(a.replay)
        else:
            rc = mod.run(a.tier)
    except SystemExit:
        raise
    except Exception:  # machinery failure, never reported as a violation
        traceback.print_exc()
        print(f"MACHINERY-FAILURE property={prop}", file=sys.stderr)
        sys.exit(2)
    sys.exit(rc)


if __name__ == "__main__":
    main()
