------------------------------- MODULE MC_CG -------------------------------
(***************************************************************************)
(* Model checking of conjugate gradients as coded (CGExact.tla) on a       *)
(* catalog of small exact systems (generated module CGCatalog):            *)
(*   CG_Systems[s] = [A, M, B, X0, mult, eqv, cplx]                        *)
(*     A    n x n Hermitian positive definite (integers / Gaussian ints)   *)
(*     M    n x n Hermitian positive definite preconditioner (rational)    *)
(*     B    sequence of right-hand-side columns (n x 1)                    *)
(*     X0   sequence of initial guesses (n x 1)                            *)
(*     mult sequence of rational scalars, mult[j] = ||B[j]||  when eqv[j]  *)
(*          is FALSE; eqv[j] = TRUE marks an irrational norm: the column   *)
(*          is run un-normalised (mult[j] = 1), admissible only for        *)
(*          X0[j] = 0 (scale-equivariance, see CGExact.tla and the         *)
(*          invariant Equivariance below)                                  *)
(* State: the system index si, the step counter k, per column the tuple    *)
(* (x, r, p, gamma, alpha, beta) of cg.py, and the history of earlier      *)
(* tuples (needed to state orthogonality / conjugacy).  Action Step =      *)
(* take_cg_step on every column.  The stopping test is not part of this    *)
(* model (tol -> 0: it is the subject of Trace_CGControl.tla); Step runs   *)
(* to k = 2n so that the converged-column mask is exercised.               *)
(* Every state prints the exact returned iterate of every column and the   *)
(* property oracle's iterate (Emit) for the conformance replay.            *)
(***************************************************************************)
EXTENDS CGExact, CGCatalog, Json, TLC

CONSTANTS DoEmit

VARIABLES si, k, cols, hist
vars == <<si, k, cols, hist>>

NSys == Len(CG_Systems)
S == CG_Systems[si]
N == S.A.r
NCols == Len(S.B)
ColIdx == 1..NCols

\* right-hand side as the recurrence sees it
Bn(s, j) == NormaliseRhs(s.B[j], s.mult[j])
\* initial guess as the recurrence sees it
X0n(s, j) == NormaliseX0(s.X0[j], s.mult[j])
InitCols(s) == [j \in 1..Len(s.B) |-> Initialize(s.A, s.M, Bn(s, j), X0n(s, j))]

Init == /\ si \in 1..NSys
        /\ k = 0
        /\ cols = InitCols(CG_Systems[si])
        /\ hist = <<>>

Step == /\ k < 2 * N
        /\ cols' = [j \in ColIdx |-> TakeStep(S.A, S.M, cols[j])]
        /\ hist' = Append(hist, cols)
        /\ k' = k + 1
        /\ si' = si

Next == Step
Spec == Init /\ [][Next]_vars

---------------------------------------------------------------------------
(* catalog sanity (a wrong catalog entry must not pass silently) *)
SystemOK(s) ==
    /\ IsPD(s.A) /\ IsPD(s.M) /\ s.A.r = s.M.r /\ s.A.d = 1
    /\ Len(s.B) = Len(s.X0) /\ Len(s.B) = Len(s.mult) /\ Len(s.B) = Len(s.eqv)
    /\ \A j \in 1..Len(s.B):
          /\ s.B[j].r = s.A.r /\ s.B[j].c = 1 /\ s.X0[j].r = s.A.r /\ s.X0[j].c = 1
          /\ IF s.eqv[j] THEN VIsZero(s.X0[j]) /\ s.mult[j] = QInt(1)
             ELSE /\ QIsNonNegReal(s.mult[j])
                  /\ QSame(QMulR(s.mult[j], s.mult[j]), Dot(s.B[j], s.B[j]))
          /\ NormaliseOK(s.B[j], s.mult[j])
CatalogOK == SystemOK(S)

---------------------------------------------------------------------------
(* what the code returns, and the oracles *)
Out(j) == Returned(cols[j], S.mult[j])
\* the start the recurrence effectively uses in un-normalised units: mult * (x0 / mult), i.e. the caller's x0
\* (0 for a zero right-hand side, whose result is multiplied by mult = 0)
EffX0(j) == VScale(S.mult[j], X0n(S, j))
\* property oracle: zero for a zero right-hand side, else the minimiser over x0 + K_k
Oracle(j) == IF VIsZero(S.B[j]) THEN VZero(N) ELSE CGOpt(S.A, S.M, S.B[j], S.X0[j], k)
PropertyHolds(j) == VEq(Out(j), Oracle(j))
\* THE PROPERTY on the model: what the code model returns is the oracle's iterate for the caller's x0
PropertyOptimal == \A j \in ColIdx: PropertyHolds(j)

\* r_k = b - A x_k   and   gamma_k = r_k^H M r_k
ResidualInv == \A j \in ColIdx:
    /\ VEq(cols[j].r, VSub(Bn(S, j), MV(S.A, cols[j].x)))
    /\ QSame(cols[j].gamma, Dot(cols[j].r, MV(S.M, cols[j].r)))
\* r_k^H z_i = 0  and  p_k^H A p_i = 0  for all earlier i
Orthogonality == \A j \in ColIdx: \A i \in 1..Len(hist):
    /\ QIsZero(Dot(cols[j].r, MV(S.M, hist[i][j].r)))
    /\ QIsZero(Dot(cols[j].p, MV(S.A, hist[i][j].p)))
\* the recurrence as coded produces the A-norm minimiser over (its effective start) + K_k
KrylovOptimal == \A j \in ColIdx:
    /\ VEq(Out(j), CGOpt(S.A, S.M, S.B[j], EffX0(j), k))
    /\ Galerkin(S.A, S.M, S.B[j], EffX0(j), k, Out(j))
\* the oracle is internally consistent: CGOpt satisfies the Galerkin condition and lies in x0 + K_k by construction
OracleGalerkin == \A j \in ColIdx: Galerkin(S.A, S.M, S.B[j], S.X0[j], k, CGOpt(S.A, S.M, S.B[j], S.X0[j], k))
ZeroRhs == \A j \in ColIdx: VIsZero(S.B[j]) => VIsZero(Out(j))
Terminates == k >= N => \A j \in ColIdx: VIsZero(cols[j].r)
\* after convergence nothing moves (converged mask)
Frozen == \A j \in ColIdx: (Len(hist) > 0 /\ VIsZero(hist[Len(hist)][j].r)) =>
             /\ VEq(cols[j].x, hist[Len(hist)][j].x) /\ VIsZero(cols[j].r) /\ VIsZero(cols[j].p)
             /\ QIsZero(cols[j].alpha) /\ QIsZero(cols[j].beta)
SafeDivBenign == \A j \in ColIdx: cols[j].sd
\* normalising the right-hand side and rescaling the result changes nothing when x0 = 0
Equivariance == \A j \in ColIdx:
    (VIsZero(S.X0[j]) /\ ~S.eqv[j]) => VEq(Out(j), RecK(S.A, S.M, S.B[j], S.X0[j], k).x)
\* ... and for any x0 the normalised run is the un-normalised run started from the caller's x0 (non-zero rhs)
EquivarianceX0 == \A j \in ColIdx:
    (~S.eqv[j] /\ ~VIsZero(S.B[j])) => VEq(Out(j), RecK(S.A, S.M, S.B[j], S.X0[j], k).x)
\* x(alpha b) = alpha x(b) from x0 = 0: on the oracle, and on the recurrence as coded (|alpha| rational)
Alphas == IF S.cplx THEN {Q(-2, 0, 1), Q(0, 1, 1), Q(1, 0, 2)} ELSE {Q(-2, 0, 1), Q(1, 0, 2)}
AbsQ(a) == IF a.n[2] = 0 THEN Q(Abs(a.n[1]), 0, a.d) ELSE Q(Abs(a.n[2]), 0, a.d)   \* members of Alphas only
Scaling == \A j \in ColIdx: VIsZero(S.X0[j]) => \A a \in Alphas:
    LET ab == VScale(a, S.B[j])
        m2 == QMulR(AbsQ(a), S.mult[j])
    IN /\ VEq(CGOpt(S.A, S.M, ab, S.X0[j], k), VScale(a, Oracle(j)))
       /\ VEq(Returned(RecK(S.A, S.M, NormaliseRhs(ab, m2), S.X0[j], k), m2), VScale(a, Out(j)))

---------------------------------------------------------------------------
VecOut(v) == LET w == MNormalize(v) IN [d |-> w.d, e |-> [i \in 1..w.r |-> w.e[i][1]]]
Emit == IF DoEmit
        THEN PrintT(ToJson([si |-> si, k |-> k,
                            out |-> [j \in ColIdx |-> VecOut(Out(j))],
                            oracle |-> [j \in ColIdx |-> VecOut(Oracle(j))],
                            prop_ok |-> [j \in ColIdx |-> PropertyHolds(j)],
                            conv |-> [j \in ColIdx |-> VIsZero(cols[j].r)],
                            kdim |-> [j \in ColIdx |->
                                KDimUpTo(S.A, S.M, VSub(S.B[j], MV(S.A, S.X0[j])), N)]]))
        ELSE TRUE
=============================================================================
