---------------------------- MODULE MC_Rewrite ----------------------------
(***************************************************************************)
(* Enumeration model for the rewriting layer (Rewrite.tla).                *)
(*                                                                         *)
(* State: one API-level expression `e` over catalog objects, grown by one  *)
(* Python operator / cola.fns call per step (as MC_Ops does), together     *)
(* with impl = Impl(e), the operator tree the model says cola builds.      *)
(* Checked in every state:                                                 *)
(*   ImplTotal   every dispatch resolved to one rule, result is a          *)
(*               constructor-level tree                                    *)
(*   ImplSound   Denote(Impl(e)) = Denote(e)   (exact, Mat!MEq), given that *)
(*               the annotations consulted on the way were true            *)
(*   ImplShape   ShapeOf(Impl(e)) = ShapeOf(e)                             *)
(*   ImplDType   DTypeOf(Impl(e)) = DTypeOf(e), except where an Identity   *)
(*               of a wider dtype was eliminated (known finding)           *)
(*   ImplNormal  the normal-form facts of Rewrite!Normal                   *)
(*   Emit        prints {e, skeleton of Impl(e)} for the conformance       *)
(*               harness (harness/rewritefam.py), which builds e through   *)
(*               cola's public API and compares the real tree.             *)
(* The generated module Catalog (harness/opsfam.render_catalog) supplies   *)
(* SeedLeaves / OperandLeaves / SmallLeaves / Scalars; every leaf carries  *)
(* p.id.                                                                   *)
(***************************************************************************)
EXTENDS Rewrite, Catalog, Json, TLC

CONSTANTS MaxLvl,      \* number of operator applications
          MaxDim,      \* bound on rows and columns of every expression
          Acts,        \* enabled API nodes
          DoEmit,
          EntryBound   \* bound on |re|, |im|, denominator of every entry (32-bit safety)

VARIABLES e, impl, lvl, ok,
          pre     \* every annotation that cola inferred on the operand trees consulted so far is true
vars == <<e, impl, lvl, ok, pre>>

Fits(x) == LET s == ShapeOf(x) IN s[1] <= MaxDim /\ s[2] <= MaxDim /\ s[1] >= 1 /\ s[2] >= 1
Seeds == {SeedLeaves[i]: i \in 1..Len(SeedLeaves)}
Ops == {OperandLeaves[i]: i \in 1..Len(OperandLeaves)}
Small == {SmallLeaves[i]: i \in 1..Len(SmallLeaves)}
IsArr(x) == x.k = "Array"
NonZero == {i \in 1..Len(Scalars): ~QIsZero(Scalars[i].c)}

\* c / x is enumerated inside the stated domain of the inverse model (see Rewrite.tla header)
RDivOK(x, X) ==
    /\ ShapeOf(x)[1] = ShapeOf(x)[2] /\ ShapeOf(x)[1] <= 4
    /\ ~HasOpaque(X)
    /\ EntriesWithin(Denote(x), 10) /\ ~MIsSingular(Denote(x))
    /\ AnnsTrue(X)

Unary(x, X) ==
    (IF "op_T" \in Acts THEN {N("op_T", <<x>>, NoP)} ELSE {})
    \cup (IF "op_H" \in Acts THEN {N("op_H", <<x>>, NoP)} ELSE {})
    \cup (IF "op_neg" \in Acts THEN {N("op_neg", <<x>>, NoP)} ELSE {})
    \cup (IF "op_scalar" \in Acts
          THEN {N("op_smul", <<x>>, Scalars[i]): i \in 1..Len(Scalars)}
               \cup {N("op_div", <<x>>, Scalars[i]): i \in NonZero}
          ELSE {})
    \cup (IF "op_rsmul" \in Acts THEN {N("op_rsmul", <<x>>, Scalars[i]): i \in 1..Len(Scalars)} ELSE {})
    \cup (IF "op_rdiv" \in Acts /\ RDivOK(x, X) THEN {N("op_rdiv", <<x>>, Scalars[i]): i \in NonZero} ELSE {})

Binary(x, o) ==
    (IF "op_matmul" \in Acts THEN {N("op_matmul", <<x, o>>, NoP), N("op_matmul", <<o, x>>, NoP)} ELSE {})
    \cup (IF "op_add" \in Acts
          THEN {N("op_add", <<x, o>>, NoP), N("op_add", <<o, x>>, NoP), N("op_sub", <<x, o>>, NoP)}
               \cup (IF IsArr(o) THEN {} ELSE {N("op_sub", <<o, x>>, NoP)})      \* array - A is a TypeError
          ELSE {})
    \cup (IF "op_kron" \in Acts THEN {N("op_kron", <<x, o>>, NoP), N("op_kron", <<o, x>>, NoP)} ELSE {})
    \cup (IF "op_kronsum" \in Acts THEN {N("op_kronsum", <<x, o>>, NoP), N("op_kronsum", <<o, x>>, NoP)} ELSE {})
    \cup (IF "op_block_diag" \in Acts
          THEN {N("op_block_diag", <<x, o>>, [mult |-> <<1, 1>>]), N("op_block_diag", <<o, x>>, [mult |-> <<1, 1>>])}
          ELSE {})

Ternary(x, o1, o2) ==
    (IF "op_sum" \in Acts THEN {N("op_sum", <<x, o1, o2>>, NoP), N("op_sum", <<o1, x, o2>>, NoP)} ELSE {})
    \cup (IF "op_matmul3" \in Acts THEN {N("op_matmul", <<o1, x, o2>>, NoP)} ELSE {})
    \cup (IF "op_block_diag3" \in Acts THEN {N("op_block_diag", <<o1, o2, x>>, [mult |-> <<1, 1, 1>>])} ELSE {})

\* at most the first operand of a sum() / the operands of kron, kronsum, block_diag may all be arrays;
\* array (+|@) array is NumPy, not cola
ApiOK(n) ==
    /\ n.k \in {"op_add", "op_matmul", "op_sum"} => \E i \in 1..Len(n.a): ~IsArr(n.a[i])
    /\ n.k = "op_sum" => ~(IsArr(n.a[1]) /\ IsArr(n.a[2]))
    /\ n.k = "op_matmul" /\ Len(n.a) = 3 => ~(IsArr(n.a[1]) /\ IsArr(n.a[2]))
Accept(n) == WellFormed(n) /\ ApiOK(n) /\ Fits(n) /\ EntriesWithin(Denote(n), EntryBound)
\* results that are arrays: nothing further is applied
Terminal(X) == X.k = "Array"

Step(n) == /\ Accept(n)
           /\ e' = n /\ impl' = Impl(n) /\ lvl' = lvl + 1 /\ ok' = ~Terminal(impl')
           /\ pre' = (pre /\ AnnsTrue(impl))

Init == /\ e \in Seeds /\ impl = Impl(e) /\ lvl = 0 /\ ok = TRUE /\ pre = TRUE
Next == /\ ok /\ lvl < MaxLvl
        /\ \/ \E n \in Unary(e, impl): Step(n)
           \/ \E o \in Ops: \E n \in Binary(e, o): Step(n)
           \/ \E o1 \in Small: \E o2 \in Small: \E n \in Ternary(e, o1, o2): Step(n)
Spec == Init /\ [][Next]_vars

---------------------------------------------------------------------------
RECURSIVE HasRDiv(_)
HasRDiv(x) == x.k = "op_rdiv" \/ \E i \in 1..Len(x.a): HasRDiv(x.a[i])

ImplTotal == Resolved(impl)
\* The conditions of transpose / adjoint / inv read inferred annotations.  Where cola's inference is wrong (known
\* finding of C05: c * A inherits A's annotations whatever c is) a rule fires on a false premise and the real
\* result is wrong too; the model reproduces that (the harness still compares the trees).  Meaning preservation is
\* therefore stated under the premise that the annotations consulted were true.
ImplSound == pre => MEq(Denote(impl), Denote(e))
ImplShape == ShapeOf(impl) = ShapeOf(e)
\* exact, except below an Identity elimination that dropped a wider dtype (known finding, see Rewrite!DTypeLoss)
ImplDType == IF DTypeLoss(e) THEN DTypeLE(DTypeOf(impl), DTypeOf(e)) ELSE DTypeOf(impl) = DTypeOf(e)
ImplNormal == /\ Normal(impl)
              /\ ~HasRDiv(e) => NoLeadingIdentity(impl)
              /\ ~IsOpaque(impl)            \* the opaque inverse is always wrapped by mul's Product(ScalarMul, .)

\* sound = FALSE only in false-premise states; the exact meaning is printed there so that the harness can confirm
\* that the real operator is wrong in the same way
Emit == IF DoEmit
        THEN LET snd == (pre \/ MEq(Denote(impl), Denote(e))) IN
             PrintT(ToJson([e |-> Strip(e), sk |-> Skel(impl), lvl |-> lvl, pre |-> pre, dtloss |-> DTypeLoss(e),
                            sound |-> snd, meaning |-> IF snd THEN Zero(1, 1) ELSE Denote(e),
                            built |-> IF snd THEN Zero(1, 1) ELSE Denote(impl)]))
        ELSE TRUE

\* the rule table, once, for comparison with the live plum tables
ASSUME DoEmit => PrintT(ToJson([ruletable |-> RW_Sigs]))
=============================================================================
