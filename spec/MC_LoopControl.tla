-------------------------- MODULE MC_LoopControl --------------------------
(***************************************************************************)
(* Model checking of the Lanczos / Arnoldi control skeletons for every     *)
(* size n <= MaxN, every requested max_iters m <= MaxM and EVERY sequence  *)
(* of outcomes of the numeric test: the contract CtlInv holds in every     *)
(* reachable state, and the loop stops at the first evaluation whose       *)
(* stopping predicate holds and never before (StopsRight).                 *)
(***************************************************************************)
EXTENDS LoopControl, TLC

CONSTANTS MaxN, MaxM

VARIABLES alg, n, m, st, last
vars == <<alg, n, m, st, last>>

Init == /\ alg \in Algs /\ n \in 1..MaxN /\ m \in 1..MaxM
        /\ st = CtlInit(alg) /\ last = TRUE
Next == /\ ~st.done
        /\ \E large \in BOOLEAN:
              /\ st' = CtlStep(alg, st, Cap(m, n), large)
              /\ last' = large
        /\ UNCHANGED <<alg, n, m>>
Spec == Init /\ [][Next]_vars

Contract == CtlInv(alg, n, m, st)
\* stopped  <=>  cap reached or (last test failed and it was not the unconditional first evaluation)
StopsRight ==
    LET c0 == CtrInit(alg)
        atcap == IF alg = "lanczos" THEN st.ctr > Cap(m, n) ELSE st.ctr >= Cap(m, n)
    IN /\ st.done => (atcap \/ (~last /\ st.ctr > c0))
       /\ (~st.done /\ st.evals > 0) => (last \/ st.ctr - 1 <= c0)
\* termination: at most cap + 1 evaluations
Bounded == st.evals <= Cap(m, n) + 1
=============================================================================
