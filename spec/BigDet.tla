------------------------------ MODULE BigDet ------------------------------
(***************************************************************************)
(* Factored determinants of LARGE structured operators (C07: "scalar of     *)
(* any size n", long diagonals, Kronecker products / block diagonals with  *)
(* large multiplicities), where the determinant itself leaves every number *)
(* range (10^-400 ...) although its logarithm is perfectly representable.  *)
(*                                                                         *)
(* A compressed tree describes the operator without listing n entries:     *)
(*   [k |-> "Rep",   runs |-> << [v |-> Q, r |-> Nat], ... >>]  diagonal   *)
(*        whose entries are v_1 (r_1 times), v_2 (r_2 times), ...          *)
(*   [k |-> "Tri",   runs |-> ...]   triangular with that diagonal         *)
(*   [k |-> "Scal",  c |-> Q, n |-> Nat]          c * I_n                  *)
(*   [k |-> "Ident", n |-> Nat]                                            *)
(*   [k |-> "Swaps", n |-> Nat, s |-> Nat]   permutation made of s         *)
(*        disjoint transpositions (0 1)(2 3)... on n points                *)
(*   [k |-> "Kron" | "Prod", a |-> << trees >>]                            *)
(*   [k |-> "Block", a |-> << trees >>, m |-> << multiplicities >>]        *)
(*                                                                         *)
(* FactDet(t) is the determinant as a bag of powers << [b |-> Q, e |-> Nat]*)
(* >> (det = product of b^e), computed by the algebraic identities          *)
(*   det(A (x) B) = det(A)^dim(B) det(B)^dim(A),  det(blockdiag) = product *)
(*   of det(A_i)^m_i, det(AB) = det(A)det(B), det(c I_n) = c^n.            *)
(* FactSound (checked by TLC on every small tree of MC_BigDet) states that *)
(* the bag multiplies out to the determinant of the expanded matrix, so    *)
(* the same definition can be trusted on trees too large to expand.        *)
(***************************************************************************)
EXTENDS Mat

RECURSIVE BSize(_)
BSize(t) ==
    CASE t.k \in {"Rep", "Tri"} -> LET RECURSIVE S(_)
                                       S(i) == IF i = 0 THEN 0 ELSE t.runs[i].r + S(i - 1)
                                   IN S(Len(t.runs))
      [] t.k \in {"Scal", "Ident", "Swaps"} -> t.n
      [] t.k = "Kron" -> LET RECURSIVE P(_)
                             P(i) == IF i = 0 THEN 1 ELSE BSize(t.a[i]) * P(i - 1)
                         IN P(Len(t.a))
      [] t.k = "Prod" -> BSize(t.a[1])
      [] t.k = "Block" -> LET RECURSIVE S(_)
                              S(i) == IF i = 0 THEN 0 ELSE t.m[i] * BSize(t.a[i]) + S(i - 1)
                          IN S(Len(t.a))

ScaleExp(bag, f) == [i \in 1..Len(bag) |-> [b |-> bag[i].b, e |-> bag[i].e * f]]

RECURSIVE Flatten(_)
Flatten(ss) == IF ss = <<>> THEN <<>> ELSE Head(ss) \o Flatten(Tail(ss))

RECURSIVE FactDet(_)
FactDet(t) ==
    CASE t.k \in {"Rep", "Tri"} -> [i \in 1..Len(t.runs) |-> [b |-> t.runs[i].v, e |-> t.runs[i].r]]
      [] t.k = "Scal" -> << [b |-> t.c, e |-> t.n] >>
      [] t.k = "Ident" -> <<>>
      [] t.k = "Swaps" -> << [b |-> QInt(-1), e |-> t.s] >>
      [] t.k = "Kron" -> LET N == BSize(t)
                         IN Flatten([i \in 1..Len(t.a) |-> ScaleExp(FactDet(t.a[i]), N \div BSize(t.a[i]))])
      [] t.k = "Prod" -> Flatten([i \in 1..Len(t.a) |-> FactDet(t.a[i])])
      [] t.k = "Block" -> Flatten([i \in 1..Len(t.a) |-> ScaleExp(FactDet(t.a[i]), t.m[i])])

\* well-formedness: products of equal sizes, positive sizes
RECURSIVE BWf(_)
BWf(t) ==
    CASE t.k \in {"Rep", "Tri"} -> Len(t.runs) >= 1 /\ \A i \in 1..Len(t.runs): t.runs[i].r >= 1
      [] t.k \in {"Scal", "Ident"} -> t.n >= 1
      [] t.k = "Swaps" -> t.n >= 1 /\ 2 * t.s <= t.n
      [] t.k = "Kron" -> Len(t.a) >= 2 /\ \A i \in 1..Len(t.a): BWf(t.a[i])
      [] t.k = "Prod" -> Len(t.a) >= 2 /\ \A i \in 1..Len(t.a): BWf(t.a[i]) /\ BSize(t.a[i]) = BSize(t.a[1])
      [] t.k = "Block" -> Len(t.a) >= 1 /\ Len(t.m) = Len(t.a)
                          /\ \A i \in 1..Len(t.a): BWf(t.a[i]) /\ t.m[i] >= 1

---------------------------------------------------------------------------
(* expansion to an explicit matrix (small trees only) *)
RunsSeq(runs) == Flatten([i \in 1..Len(runs) |-> [j \in 1..runs[i].r |-> runs[i].v]])

\* diagonal matrix of a sequence of rationals (common denominator = product of the denominators)
QDiag(qs) ==
    LET n == Len(qs)
        RECURSIVE DP(_)
        DP(i) == IF i = 0 THEN 1 ELSE qs[i].d * DP(i - 1)
        D == DP(n)
    IN MkMatD(n, n, D, LAMBDA i, j: IF i = j THEN CScaleI(D \div qs[i].d, qs[i].n) ELSE CZ)

RECURSIVE Expand(_)
Expand(t) ==
    CASE t.k = "Rep" -> QDiag(RunsSeq(t.runs))
      [] t.k = "Tri" -> LET dg == QDiag(RunsSeq(t.runs))     \* lower triangular, ones below the diagonal
                        IN MkMatD(dg.r, dg.c, dg.d, LAMBDA i, j: IF i = j THEN dg.e[i][j]
                                                                 ELSE IF j < i THEN <<dg.d, 0>> ELSE CZ)
      [] t.k = "Scal" -> QDiag([i \in 1..t.n |-> t.c])
      [] t.k = "Ident" -> Eye(t.n)
      [] t.k = "Swaps" -> MkMat(t.n, t.n, LAMBDA i, j:
                              LET img == IF i <= 2 * t.s THEN (IF i % 2 = 1 THEN i + 1 ELSE i - 1) ELSE i
                              IN IF j = img THEN C1 ELSE CZ)
      [] t.k = "Kron" -> LET RECURSIVE K(_)
                             K(i) == IF i = 1 THEN Expand(t.a[1]) ELSE MKron(K(i - 1), Expand(t.a[i]))
                         IN K(Len(t.a))
      [] t.k = "Prod" -> LET RECURSIVE P(_)
                             P(i) == IF i = 1 THEN Expand(t.a[1]) ELSE MMul(P(i - 1), Expand(t.a[i]))
                         IN P(Len(t.a))
      [] t.k = "Block" -> LET blocks == Flatten([i \in 1..Len(t.a) |-> [j \in 1..t.m[i] |-> Expand(t.a[i])]])
                              RECURSIVE B(_)
                              B(i) == IF i = 1 THEN blocks[1] ELSE MBlock2(B(i - 1), blocks[i])
                          IN B(Len(blocks))

RECURSIVE BagValue(_)
BagValue(bag) == IF bag = <<>> THEN QInt(1) ELSE QMul(QPow(Head(bag).b, Head(bag).e), BagValue(Tail(bag)))

FactSound(t) == LET M == MNormalize(Expand(t)) IN QEq(BagValue(FactDet(t)), Det(M)) /\ M.r = BSize(t) /\ M.c = BSize(t)
=============================================================================
