------------------------------ MODULE MC_Cost ------------------------------
(***************************************************************************)
(* The cost catalog (generated module CostCatalog: CostCases, a sequence   *)
(* of [name, t, k]) checked against the cost semantics of Cost.tla; every  *)
(* state prints the budget that the conformance harness holds the real     *)
(* peak memory of the corresponding operator to.                           *)
(***************************************************************************)
EXTENDS Cost, CostCatalog, Json, TLC

VARIABLE ci
Init == ci \in 1..Len(CostCases)
Next == UNCHANGED ci
Spec == Init /\ [][Next]_ci

Case == CostCases[ci]
Emit == PrintT(ToJson([name |-> Case.name, k |-> Case.k, rows |-> Rows(Case.t), cols |-> Cols(Case.t),
                       storage |-> Storage(Case.t), work |-> Work(Case.t, Case.k), bound |-> Bound(Case.t, Case.k),
                       span |-> Span(Case.t), dense_ki |-> DenseKi(Case.t)]))
WithinBound == WorkWithinBound(Case.t, Case.k)
Separates == BoundSeparates(Case.t, Case.k)
Regime == InRegime(Case.t)
=============================================================================
