------------------------------ MODULE Dispatch ------------------------------
(***************************************************************************)
(* The multiple-dispatch resolver of the vendored plum fork, transcribed   *)
(* step for step from plum/resolver.py (Resolver.resolve) and              *)
(* plum/signature.py (Signature.match / __le__) and plum/util.py           *)
(* (Comparable).                                                           *)
(*                                                                         *)
(* The rule table is NOT written here: it is extracted from the running    *)
(* process (plum.dispatch.functions of the current working tree) by        *)
(* harness/dispatch_extract.py into the generated module RuleTable:        *)
(*   Sigs      sequence of [f, idx, types, p2, cond] in registration order *)
(*             (idx = position among the signatures of the same function,  *)
(*             including the copies plum makes for default arguments;      *)
(*             p2 = 2*precedence + (1 if the rule has a condition));       *)
(*   LEPairs   set of <<t1, t2>>: beartype says hint t1 <= hint t2;        *)
(*   Samples   sequence of abstract argument values, each with the set of  *)
(*             hints it is an instance of (inst) and the set of global     *)
(*             signature positions whose condition holds when it is the    *)
(*             first argument (condtrue);                                  *)
(*   Calls     sequence of [f, args] : the lattice of admissible calls.    *)
(***************************************************************************)
EXTENDS Integers, Sequences, FiniteSets

CONSTANTS Sigs, LEPairs, Samples

SigIdx(f) == {i \in 1..Len(Sigs): Sigs[i].f = f}

\* Signature.match(values): arity, isinstance per position, then the condition
Match(i, args) ==
    LET s == Sigs[i] IN
    /\ Len(s.types) = Len(args)
    /\ \A k \in 1..Len(args): s.types[k] \in args[k].inst
    /\ (s.cond => i \in args[1].condtrue)

\* Signature.__le__ without varargs (cola registers none: asserted by the extractor)
SigLE(i, j) ==
    /\ Len(Sigs[i].types) = Len(Sigs[j].types)
    /\ \A k \in 1..Len(Sigs[i].types): <<Sigs[i].types[k], Sigs[j].types[k]>> \in LEPairs
SigEq(i, j) == SigLE(i, j) /\ SigLE(j, i)
SigLT(i, j) == SigLE(i, j) /\ ~SigEq(i, j)
Comparable(i, j) == SigLT(i, j) \/ SigEq(i, j) \/ SigLT(j, i)

\* ascending sequence of a finite set of naturals
RECURSIVE Sorted(_)
Sorted(S) == IF S = {} THEN <<>>
             ELSE LET m == CHOOSE x \in S: \A y \in S: x <= y IN <<m>> \o Sorted(S \ {m})

InSeq(x, s) == \E k \in 1..Len(s): s[k] = x

\* the candidate loop of Resolver.resolve, in registration order
RECURSIVE Fold(_, _)
Fold(cands, rest) ==
    IF rest = <<>> THEN cands
    ELSE LET s == Head(rest) IN
         IF ~\E k \in 1..Len(cands): Comparable(cands[k], s)
         THEN Fold(Append(cands, s), Tail(rest))
         ELSE LET new == SelectSeq(cands, LAMBDA c: ~SigLT(s, c)) IN
              IF \E k \in 1..Len(cands): SigLE(s, cands[k])
              THEN Fold(Append(new, s), Tail(rest))
              ELSE Fold(new, Tail(rest))

Candidates(f, args) == Fold(<<>>, Sorted({i \in SigIdx(f): Match(i, args)}))

Resolve(f, args) ==
    LET c == Candidates(f, args) IN
    IF Len(c) = 0 THEN [tag |-> "notfound", rule |-> 0, cands |-> <<>>]
    ELSE IF Len(c) = 1 THEN [tag |-> "ok", rule |-> c[1], cands |-> c]
    ELSE LET mx == CHOOSE m \in {Sigs[c[k]].p2: k \in 1..Len(c)}: \A k \in 1..Len(c): Sigs[c[k]].p2 <= m
             top == SelectSeq(c, LAMBDA i: Sigs[i].p2 = mx)
         IN IF Len(top) = 1 THEN [tag |-> "ok", rule |-> top[1], cands |-> c]
            ELSE [tag |-> "ambiguous", rule |-> 0, cands |-> c]

\* order-independent characterisation: the minimal matching signatures (when the loop and this
\* disagree the fork's result depends on registration order - reported, not a property violation)
Minimal(f, args) ==
    LET M == {i \in SigIdx(f): Match(i, args)} IN {i \in M: ~\E j \in M: SigLT(j, i)}
=============================================================================
