----------------------------- MODULE MC_Krylov -----------------------------
(***************************************************************************)
(* Catalog model for C14 / C15.  The generated module KrylovCatalog lists  *)
(* cases (A, v) with optional spectral witness.  For every case TLC        *)
(*   - verifies the witness and the Hermitian flag (CaseOK),               *)
(*   - checks the rank laws of the Krylov sequence (RanksOK) and           *)
(*     KDim = sum of excited grades when a witness is given,               *)
(*   - runs the Lanczos (Hermitian cases) and Arnoldi control skeletons of *)
(*     LoopControl for every max_iters in 1..n+Extra with the EXACT test   *)
(*     "residual # 0" (Lanczos: beta_(i-1) # 0 iff rank K_i = i; Arnoldi:  *)
(*     h_(idx+1,idx) # 0 iff rank K_(idx+1) = idx+1) and checks that they  *)
(*     stop with the property's counts min(max_iters, n, KDim) (CtlOK),    *)
(*   - for cases flagged `exact` (exact-breakdown family: permutations,    *)
(*     diagonal / block / identity / nilpotent operators with coordinate   *)
(*     or dyadic eigenvector starts) computes the Arnoldi factorisation    *)
(*     exactly, checks that it is floating-point exact (FPExact), that it  *)
(*     breaks down exactly at KDim and has the property's shape            *)
(*     (ExactArnoldiOK), and exports Q and H; for these cases the exact    *)
(*     test fed to the skeleton is literally cola's test with tol = 0,     *)
(*   - for the same cases checks scale equivariance (ScaleEquivariant):     *)
(*     c*A has the same exact basis, c*H, the same breakdown step and      *)
(*     expected observables, for the dyadic factors of ScaleSet,           *)
(*   - and start-vector invariance (StartScaleInvariant): (A, c v) has the  *)
(*     same exact factorisation as (A, v) for the same dyadic factors,     *)
(*   - prints the exact expectations consumed by the harness (Emit).       *)
(* Blocks of cases are chained so that TLC workers share the catalog.      *)
(***************************************************************************)
EXTENDS KrylovCatalog, Krylov, Json, TLC

CONSTANTS Block, Extra

L == INSTANCE LoopControl

NCases == Len(KC_Cases)
VARIABLES ci, kd, m, alg, st
vars == <<ci, kd, m, alg, st>>

Case(c) == KC_Cases[c]
VCol(c) == MCol(Case(c).v)
N(c) == Case(c).A.r
FirstAlg(c) == IF Case(c).herm THEN "lanczos" ELSE "arnoldi"
Enter(c) == /\ ci' = c /\ kd' = KDim(Case(c).A, VCol(c)) /\ m' = 1
            /\ alg' = FirstAlg(c) /\ st' = L!CtlInit(FirstAlg(c))

Init == /\ ci \in {k \in 1..NCases: (k - 1) % Block = 0}
        /\ kd = KDim(Case(ci).A, VCol(ci)) /\ m = 1
        /\ alg = FirstAlg(ci) /\ st = L!CtlInit(FirstAlg(ci))

\* exact numeric test at counter value ctr: is the last computed residual non-zero?
ExactLarge == IF alg = "lanczos" THEN st.ctr - 1 < kd ELSE st.ctr < kd

Next ==
    IF ~st.done
    THEN /\ st' = L!CtlStep(alg, st, L!Cap(m, N(ci)), ExactLarge)
         /\ UNCHANGED <<ci, kd, m, alg>>
    ELSE IF alg = "lanczos"
    THEN /\ alg' = "arnoldi" /\ st' = L!CtlInit("arnoldi") /\ UNCHANGED <<ci, kd, m>>
    ELSE IF m < N(ci) + Extra
    THEN /\ m' = m + 1 /\ alg' = FirstAlg(ci) /\ st' = L!CtlInit(FirstAlg(ci)) /\ UNCHANGED <<ci, kd>>
    ELSE /\ ci < NCases /\ ci % Block # 0 /\ Enter(ci + 1)
Spec == Init /\ [][Next]_vars

AtEntry == m = 1 /\ alg = FirstAlg(ci) /\ st = L!CtlInit(alg)

CaseOK ==
    AtEntry =>
      LET c == Case(ci) IN
      /\ c.A.r = c.A.c /\ c.A.d = 1 /\ Len(c.v) = c.A.r /\ ~MIsZero(VCol(ci))
      /\ c.herm = IsHermitian(c.A)
      /\ c.hasEig => WitnessOK(c.A, c.V, c.lam, c.sup)
      /\ RanksOK(c.A, VCol(ci))
      /\ kd = KDim(c.A, VCol(ci)) /\ kd >= 1 /\ kd <= c.A.r
      /\ c.hasEig => kd = SumMult(ExcitedSpec(c.V, c.lam, c.sup, VCol(ci)))
      \* Hermitian => diagonalisable with real eigenvalues: every grade is 1, KDim = number of
      \* distinct excited eigenvalues
      /\ (c.hasEig /\ c.herm) =>
            /\ \A i \in 1..Len(c.sup): c.sup[i] = 0
            /\ \A i \in 1..Len(c.lam): c.lam[i][2] = 0
            /\ \A x \in ExcitedSpec(c.V, c.lam, c.sup, VCol(ci)): x.mult = 1
            /\ kd = Cardinality(ExcitedSpec(c.V, c.lam, c.sup, VCol(ci)))
      /\ c.exact => ExactArnoldiOK(c.A, VCol(ci), kd, 64)

\* scale equivariance on the exact-breakdown cases (small dyadic factors: everything stays within 32 bits): same
\* exact basis, c*H, same breakdown step, hence the same expected observables for every max_iters
ScaleSet == {[n |-> <<1, 0>>, d |-> 4], QInt(8)}
ScaleEquivariant ==
    (AtEntry /\ Case(ci).exact) =>
      LET c == Case(ci) IN
      \A s \in ScaleSet:
        /\ ScaleEquivariantAt(c.A, VCol(ci), s)
        /\ LET ks == Len(ExactArnoldi(MScale(s, c.A), VCol(ci)).q)
           IN /\ ks = kd
              /\ \A q \in 1..(c.A.r + Extra): Expect(q, c.A.r, ks) = Expect(q, c.A.r, kd)

\* start-vector invariance on the exact-breakdown cases: c*v (dyadic c) gives the same exact basis, the same H and
\* the same breakdown step, hence the same expected observables
StartScaleInvariant ==
    (AtEntry /\ Case(ci).exact) =>
      LET c == Case(ci) IN
      \A s \in ScaleSet:
        /\ StartScaleInvariantAt(c.A, VCol(ci), s)
        /\ Len(ExactArnoldi(c.A, MScale(s, VCol(ci))).q) = kd

CtlOK ==
    /\ L!CtlInv(alg, N(ci), m, st)
    /\ st.done =>
          LET o == L!Out(alg, N(ci), m, st)
              e == Expect(m, N(ci), kd)
          IN IF alg = "lanczos"
             THEN /\ o.q = <<N(ci), e.lcols>> /\ o.t = <<e.lcols, e.lcols>>
             ELSE /\ o.steps = e.asteps /\ o.q = e.aq /\ o.t = e.ah
                  /\ e.aortho = KMin2(e.asteps + 1, kd)

Emit ==
    IF AtEntry
    THEN LET c == Case(ci)
             n == c.A.r
             xa == IF c.exact THEN ExactExport(c.A, VCol(ci)) ELSE [xq |-> <<>>, xh |-> <<>>]
         IN PrintT(ToJson([ci |-> ci, name |-> c.name, n |-> n, kdim |-> kd,
                           ranks |-> Ranks(c.A, VCol(ci)),
                           K |-> KrylovMat(c.A, VCol(ci), n).e,
                           spec |-> IF c.hasEig THEN AnySeq(ExcitedSpec(c.V, c.lam, c.sup, VCol(ci))) ELSE <<>>,
                           full |-> IF c.hasEig THEN AnySeq(FullSpec(c.lam)) ELSE <<>>,
                           exact |-> c.exact,
                           xq |-> xa.xq, xh |-> xa.xh,
                           exp |-> [q \in 1..(n + Extra) |-> Expect(q, n, kd)]]))
    ELSE TRUE
=============================================================================
