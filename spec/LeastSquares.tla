--------------------------- MODULE LeastSquares ---------------------------
(***************************************************************************)
(* Exact (Gaussian-rational) least squares: the oracles of C13 (GMRES) and *)
(* C16 (svd / pinv).                                                       *)
(*                                                                         *)
(*  - LsqSolve(K, r): for a full-column-rank K the unique minimiser y of   *)
(*    ||r - K y||_2, from the normal equations (K^H K) y = K^H r;          *)
(*    LsqRes2: the exact squared residual, a rational number.              *)
(*  - PinvSolve(A, b): x = pinv(A) b for full-rank A of any shape.         *)
(*  - Krylov / KDim / GmresOpt(A, b, x0, m): the exact minimiser of        *)
(*    ||b - A x|| over x0 + K_m(A, r0) on a rank-revealing prefix of the   *)
(*    Krylov matrix, and rho2 = its exact squared residual.                *)
(*  - GalerkinOpt: the exact Galerkin (FOM) iterate of the same space, the *)
(*    classical *wrong* answer, exported so that a conformance failure can *)
(*    be classified exactly.                                               *)
(*  - BestRank: sum of the k leading singular triplets of U Sigma V^H.     *)
(*  - Wide integers (sign + base-2^14 digits) and WGmresOpt: the same GMRES *)
(*    optimum for badly scaled real systems (entries up to 10^7, condition  *)
(*    numbers up to 10^7) whose exact values need hundreds of bits.         *)
(*                                                                         *)
(* All values are exact; 32-bit overflow aborts TLC (never silent), the    *)
(* harness pre-screens its catalog with an exact mirror of these formulas  *)
(* (harness/lsqfam.py) and counts what it drops.                           *)
(***************************************************************************)
EXTENDS Mat

---------------------------------------------------------------------------
(* real rationals n/d, d > 0 *)
QNorm(q) ==
    LET g == Gcd(Gcd(q.n[1], q.n[2]), q.d)
    IN IF g <= 1 THEN q ELSE [n |-> <<q.n[1] \div g, q.n[2] \div g>>, d |-> q.d \div g]

\* a/b <= c/d for a, c >= 0 and b, d > 0 by the Euclidean (continued fraction) comparison:
\* no cross multiplication, hence no 32-bit overflow whatever the operands
RECURSIVE FracLeq(_, _, _, _)
FracLeq(a, b, c, d) ==
    LET qa == a \div b
        qc == c \div d
        ra == a % b
        rc == c % d
    IN IF qa # qc THEN qa < qc
       ELSE IF ra = 0 THEN TRUE
       ELSE IF rc = 0 THEN FALSE
       ELSE FracLeq(d, rc, b, ra)      \* ra/b <= rc/d  <=>  d/rc <= b/ra
\* x <= y for non-negative real rationals
QLeqNN(x, y) == FracLeq(x.n[1], x.d, y.n[1], y.d)

\* squared Frobenius norm (squared 2-norm of a column) as a reduced rational
Norm2(M0) ==
    LET M == MNormalize(M0)
        RECURSIVE RowSum(_)
        RowSum(s) == IF s = <<>> THEN 0 ELSE CAbs2(Head(s)) + RowSum(Tail(s))
        RECURSIVE AllSum(_)
        AllSum(rows) == IF rows = <<>> THEN 0 ELSE RowSum(Head(rows)) + AllSum(Tail(rows))
    IN QNorm([n |-> <<AllSum(M.e), 0>>, d |-> M.d * M.d])

Iota(k) == [i \in 1..k |-> i]
\* leading k columns
Cols(M, k) == MGather(M, Iota(M.r), Iota(k))
\* divide an integer matrix by the content of its entries (same span, smaller numbers)
Primitive(M) ==
    LET g == GcdRows(M.e, 0)
    IN IF g <= 1 THEN M
       ELSE MkMatD(M.r, M.c, M.d, LAMBDA i, j: <<M.e[i][j][1] \div g, M.e[i][j][2] \div g>>)

---------------------------------------------------------------------------
(* rank *)
\* K (r x c) has full column rank  <=>  det(K^H K) # 0.  By Cauchy-Binet det(K^H K) is the sum of
\* |minor|^2 over all c x c minors of K, so the test is evaluated on the minors (much smaller integers).
GramDet(K) == DetN(MMul(MAdj(K), K))
FullColRank(K) ==
    /\ K.c <= K.r
    /\ \E S \in SUBSET (1..K.r):
          /\ Cardinality(S) = K.c
          /\ DetN(MGather(K, SetToSeq(S), Iota(K.c))) # CZ
FullRank(A) == IF A.r >= A.c THEN FullColRank(A) ELSE FullColRank(MAdj(A))

---------------------------------------------------------------------------
(* least squares *)
\* unique minimiser of ||r - K y|| for full-column-rank K (square K: the plain solve)
LsqSolve(K, r) ==
    IF K.r = K.c THEN MNormalize(MMul(MInverse(K), r))
    ELSE LET KH == MAdj(K)
         IN MNormalize(MMul(MInverse(MMul(KH, K)), MNormalize(MMul(KH, r))))
LsqRes2(K, r) == Norm2(MSub(r, MMul(K, LsqSolve(K, r))))

\* minimum-norm least-squares solution pinv(A) b for full-rank A
PinvSolve(A, b) ==
    IF A.r = A.c THEN MNormalize(MMul(MInverse(A), b))
    ELSE IF A.r < A.c
    THEN LET AH == MAdj(A) IN MNormalize(MMul(AH, MNormalize(MMul(MInverse(MMul(A, AH)), b))))
    ELSE LsqSolve(A, b)

\* Moore-Penrose characterisation of x = pinv(A) b: the residual is orthogonal to range(A) and x lies in
\* range(A^H) (adding the column x to A^H does not raise the rank)
IsMinNormLsq(A, b, x) ==
    /\ MIsZero(MMul(MAdj(A), MSub(MMul(A, x), b)))
    /\ \/ A.r >= A.c                                  \* full column rank: range(A^H) is everything
       \/ MIsZero(x)
       \/ ~FullColRank(MHStack(MAdj(A), MkMatD(x.r, x.c, 1, LAMBDA i, j: x.e[i][j])))

---------------------------------------------------------------------------
(* Krylov spaces *)
\* columns v, Av, A^2 v, ... each divided by its integer content (the spans are those of the power basis)
RECURSIVE KrylovCols(_, _, _)
KrylovCols(A, v, j) ==
    IF j = 0 THEN <<>> ELSE <<v>> \o KrylovCols(A, Primitive(MMul(A, v)), j - 1)
Krylov(A, v, j) == MHStackSeq(KrylovCols(A, Primitive(v), j))        \* j >= 1, A and v integer (d = 1)
\* dimension of the full Krylov space = degree of the minimal polynomial of A w.r.t. v
KDim(A, v) ==
    IF MIsZero(v) THEN 0
    ELSE CHOOSE j \in 1..A.r:
            /\ FullColRank(Krylov(A, v, j))
            /\ (j = A.r \/ ~FullColRank(Krylov(A, v, j + 1)))
Min2(a, b) == IF a < b THEN a ELSE b

\* exact minimiser of ||b - A x|| over x0 + K_m(A, r0); unique because A is invertible and the prefix
\* K_j, j = min(m, KDim), has full column rank and spans K_m
GmresOpt(A, b, x0, m) ==
    LET r0 == MSub(b, MMul(A, x0))
        j == Min2(m, KDim(A, r0))
    IN IF j = 0 THEN [x |-> x0, rho2 |-> Norm2(r0), j |-> 0]
       ELSE LET K == Krylov(A, r0, j)
                y == LsqSolve(MMul(A, K), r0)
                x == MNormalize(MAdd(x0, MMul(K, y)))
            IN [x |-> x, rho2 |-> Norm2(MSub(b, MMul(A, x))), j |-> j]

\* Galerkin / FOM iterate: x0 + K y with K^H (r0 - A K y) = 0; undefined when K^H A K is singular
GalerkinOpt(A, b, x0, m) ==
    LET r0 == MSub(b, MMul(A, x0))
        j == Min2(m, KDim(A, r0))
    IN IF j = 0 THEN [def |-> TRUE, x |-> x0, rho2 |-> Norm2(r0)]
       ELSE LET K == Krylov(A, r0, j)
                KH == MAdj(K)
                G == MMul(KH, MMul(A, K))
            IN IF DetN(G) = CZ THEN [def |-> FALSE, x |-> x0, rho2 |-> Norm2(r0)]
               ELSE LET x == MNormalize(MAdd(x0, MMul(K, MNormalize(MMul(MInverse(G), MMul(KH, r0))))))
                    IN [def |-> TRUE, x |-> x, rho2 |-> Norm2(MSub(b, MMul(A, x)))]

---------------------------------------------------------------------------
(* Wide integers.                                                          *)
(*                                                                         *)
(* Badly scaled systems (entries 1 .. 10^7, condition numbers 10^2..10^7)  *)
(* have exact optimal residuals whose reduced numerators and denominators  *)
(* need hundreds of bits, far beyond TLC's 32-bit integers.  They are      *)
(* evaluated with sign-magnitude integers in base 2^14: a magnitude is a   *)
(* little-endian sequence of digits 0..2^14-1 without leading zero digit   *)
(* (<<>> is 0), so that digit*digit + digit + carry < 2^29 never overflows.*)
(* A wide integer is [s |-> -1 | 0 | 1, m |-> magnitude].                  *)
WB == 16384

RECURSIVE MagTrim(_)
MagTrim(a) == IF a = <<>> THEN a
              ELSE IF a[Len(a)] = 0 THEN MagTrim(SubSeq(a, 1, Len(a) - 1)) ELSE a

RECURSIVE MagAddC(_, _, _, _, _)
MagAddC(a, b, i, cy, acc) ==
    IF i > Len(a) /\ i > Len(b) THEN (IF cy = 0 THEN acc ELSE Append(acc, cy))
    ELSE LET s == (IF i <= Len(a) THEN a[i] ELSE 0) + (IF i <= Len(b) THEN b[i] ELSE 0) + cy
         IN MagAddC(a, b, i + 1, s \div WB, Append(acc, s % WB))
MagAdd(a, b) == IF a = <<>> THEN b ELSE IF b = <<>> THEN a ELSE MagAddC(a, b, 1, 0, <<>>)

\* a - b for a >= b
RECURSIVE MagSubC(_, _, _, _, _)
MagSubC(a, b, i, bw, acc) ==
    IF i > Len(a) THEN MagTrim(acc)
    ELSE LET s == a[i] - (IF i <= Len(b) THEN b[i] ELSE 0) - bw
         IN IF s < 0 THEN MagSubC(a, b, i + 1, 1, Append(acc, s + WB))
            ELSE MagSubC(a, b, i + 1, 0, Append(acc, s))
MagSub(a, b) == MagSubC(a, b, 1, 0, <<>>)

\* -1, 0, 1
RECURSIVE MagCmpAt(_, _, _)
MagCmpAt(a, b, i) == IF i = 0 THEN 0
                     ELSE IF a[i] < b[i] THEN -1 ELSE IF a[i] > b[i] THEN 1 ELSE MagCmpAt(a, b, i - 1)
MagCmp(a, b) == IF Len(a) < Len(b) THEN -1 ELSE IF Len(a) > Len(b) THEN 1 ELSE MagCmpAt(a, b, Len(a))

\* a * d * WB^k for one digit d (schoolbook row)
RECURSIVE MagMulDC(_, _, _, _, _)
MagMulDC(a, d, i, cy, acc) ==
    IF i > Len(a) THEN (IF cy = 0 THEN acc ELSE Append(acc, cy))
    ELSE LET p == a[i] * d + cy IN MagMulDC(a, d, i + 1, p \div WB, Append(acc, p % WB))
MagMulD(a, d, k) == IF d = 0 THEN <<>> ELSE MagMulDC(a, d, 1, 0, [i \in 1..k |-> 0])
RECURSIVE MagMulAt(_, _, _)
MagMulAt(a, b, j) == IF j > Len(b) THEN <<>> ELSE MagAdd(MagMulD(a, b[j], j - 1), MagMulAt(a, b, j + 1))
MagMul(a, b) == IF a = <<>> \/ b = <<>> THEN <<>>
                ELSE IF Len(a) >= Len(b) THEN MagMulAt(a, b, 1) ELSE MagMulAt(b, a, 1)

RECURSIVE MagOfNat(_)
MagOfNat(n) == IF n = 0 THEN <<>> ELSE <<n % WB>> \o MagOfNat(n \div WB)

WZero == [s |-> 0, m |-> <<>>]
WInt(n) == IF n = 0 THEN WZero
           ELSE IF n > 0 THEN [s |-> 1, m |-> MagOfNat(n)] ELSE [s |-> -1, m |-> MagOfNat(-n)]
WNeg(a) == [s |-> -a.s, m |-> a.m]
WAdd(a, b) ==
    IF a.s = 0 THEN b ELSE IF b.s = 0 THEN a
    ELSE IF a.s = b.s THEN [s |-> a.s, m |-> MagAdd(a.m, b.m)]
    ELSE LET c == MagCmp(a.m, b.m)
         IN IF c = 0 THEN WZero
            ELSE IF c > 0 THEN [s |-> a.s, m |-> MagSub(a.m, b.m)]
            ELSE [s |-> b.s, m |-> MagSub(b.m, a.m)]
WSub(a, b) == WAdd(a, WNeg(b))
WMul(a, b) == IF a.s = 0 \/ b.s = 0 THEN WZero ELSE [s |-> a.s * b.s, m |-> MagMul(a.m, b.m)]
WIsZero(a) == a.s = 0
WLeq(a, b) == WSub(a, b).s <= 0
\* a wide integer is well formed (checked on every exported value)
WOk(a) == /\ a.s \in {-1, 0, 1} /\ (a.s = 0 <=> a.m = <<>>)
          /\ \A i \in 1..Len(a.m): a.m[i] \in 0..(WB - 1)
          /\ (a.m # <<>> => a.m[Len(a.m)] # 0)
\* flat form for printing: <<sign, d1, d2, ...>>
WFlat(a) == <<a.s>> \o a.m

(* wide vectors (sequences) and matrices (sequences of rows) *)
RECURSIVE WSumSeq(_)
WSumSeq(s) == IF s = <<>> THEN WZero ELSE WAdd(Head(s), WSumSeq(Tail(s)))
WDot(u, v) == WSumSeq([i \in 1..Len(u) |-> WMul(u[i], v[i])])
WRows(X) == Len(X)
WColsN(X) == IF X = <<>> THEN 0 ELSE Len(X[1])
WCol(X, j) == [i \in 1..Len(X) |-> X[i][j]]
WMatMul(X, Y) == [i \in 1..Len(X) |-> [j \in 1..WColsN(Y) |-> WDot(X[i], WCol(Y, j))]]
WMatVec(X, v) == [i \in 1..Len(X) |-> WDot(X[i], v)]
WTr(X) == [j \in 1..WColsN(X) |-> WCol(X, j)]
WGram(X) == [i \in 1..WColsN(X) |-> [j \in 1..WColsN(X) |-> WDot(WCol(X, i), WCol(X, j))]]
WVecScale(c, v) == [i \in 1..Len(v) |-> WMul(c, v[i])]
WVecAdd(u, v) == [i \in 1..Len(u) |-> WAdd(u[i], v[i])]
WVecSub(u, v) == [i \in 1..Len(u) |-> WSub(u[i], v[i])]
WVecIsZero(v) == \A i \in 1..Len(v): WIsZero(v[i])
\* matrix with the given columns (a sequence of equally long vectors, at least one)
WOfCols(cols) == [i \in 1..Len(cols[1]) |-> [j \in 1..Len(cols) |-> cols[j][i]]]
WMinor(X, i, j) ==
    [a \in 1..(Len(X) - 1) |-> [b \in 1..(Len(X) - 1) |->
        X[IF a < i THEN a ELSE a + 1][IF b < j THEN b ELSE b + 1]]]
\* Laplace expansion along the first row (dimensions <= 5); the empty determinant is 1
RECURSIVE WDet(_)
WDet(X) ==
    IF Len(X) = 0 THEN WInt(1)
    ELSE IF Len(X) = 1 THEN X[1][1]
    ELSE WSumSeq([j \in 1..Len(X) |->
            IF WIsZero(X[1][j]) THEN WZero
            ELSE LET t == WMul(X[1][j], WDet(WMinor(X, 1, j)))
                 IN IF j % 2 = 1 THEN t ELSE WNeg(t)])
\* X with column i replaced by the vector v
WReplaceCol(X, i, v) == [a \in 1..Len(X) |-> [b \in 1..WColsN(X) |-> IF b = i THEN v[a] ELSE X[a][b]]]
\* real integer Mat (d = 1) -> wide matrix / first column as a wide vector
WOfMat(M) == [i \in 1..M.r |-> [j \in 1..M.c |-> WInt(M.e[i][j][1])]]
WVecOfMat(M) == [i \in 1..M.r |-> WInt(M.e[i][1][1])]

(* GMRES on a badly scaled real integer system, exactly.                    *)
(*   K_j = [r0, A r0, .., A^(j-1) r0]   (plain power basis)                 *)
(*   dist^2(r0, range(A K_j)) = det Gram([A K_j, r0]) / det Gram(A K_j)     *)
(*   y = argmin ||r0 - A K_j y||: Cramer's rule on Gram(A K_j) y = (A K_j)^T r0 *)
(*   x_m = x0 + K_j y = xn / xd with xd = det Gram(A K_j)                   *)
RECURSIVE WPowerCols(_, _, _)
WPowerCols(A, v, j) == IF j = 0 THEN <<>> ELSE <<v>> \o WPowerCols(A, WMatVec(A, v), j - 1)
WKrylov(A, v, j) == WOfCols(WPowerCols(A, v, j))
WGramDet(X) == WDet(WGram(X))
WKDim(A, v) ==
    IF WVecIsZero(v) THEN 0
    ELSE CHOOSE j \in 1..Len(A):
            /\ ~WIsZero(WGramDet(WKrylov(A, v, j)))
            /\ (j = Len(A) \/ WIsZero(WGramDet(WKrylov(A, v, j + 1))))
\* [n2/d2 = rho2_m, x_m = xn/xd, j = dimension of the space used, kd = dimension of the full Krylov space]
WGmresOptJ(A, b, x0, r0, j, kd) ==
    IF j = 0 THEN [n2 |-> WDot(r0, r0), d2 |-> WInt(1), xn |-> x0, xd |-> WInt(1), j |-> 0, kd |-> kd]
    ELSE LET K == WKrylov(A, r0, j)
             AK == WMatMul(A, K)
             G == WGram(AK)
             D == WDet(G)
             c == WMatVec(WTr(AK), r0)
             yn == [i \in 1..j |-> WDet(WReplaceCol(G, i, c))]
             AKr == WOfCols(WPowerCols(A, WMatVec(A, r0), j) \o <<r0>>)
         IN [n2 |-> WGramDet(AKr), d2 |-> D,
             xn |-> WVecAdd(WVecScale(D, x0), WMatVec(K, yn)), xd |-> D, j |-> j, kd |-> kd]
\* kd0 >= 0: the dimension of the full Krylov space if already known (it does not depend on m), -1: evaluate it
WGmresOptKd(Am, bm, x0m, m, kd0) ==
    LET A == WOfMat(Am)
        b == WVecOfMat(bm)
        x0 == WVecOfMat(x0m)
        r0 == WVecSub(b, WMatVec(A, x0))
        kd == IF kd0 >= 0 THEN kd0 ELSE WKDim(A, r0)
    IN WGmresOptJ(A, b, x0, r0, Min2(m, kd), kd)
WGmresOpt(Am, bm, x0m, m) == WGmresOptKd(Am, bm, x0m, m, -1)

---------------------------------------------------------------------------
(* singular value decompositions given by exact factors *)
SigmaMat(r, c, sig) ==
    MkMat(r, c, LAMBDA i, j: IF i = j /\ i <= Len(sig) THEN CInt(sig[i]) ELSE CZ)
\* sum of the k leading triplets (sig in decreasing order) = best rank-k approximation (Eckart-Young)
BestRank(U, sig, V, k) ==
    MNormalize(MMul(MMul(Cols(U, k), SigmaMat(k, k, SubSeq(sig, 1, k))), MAdj(Cols(V, k))))
StrictlyDecreasingPositive(sig) ==
    /\ \A i \in 1..Len(sig): sig[i] > 0
    /\ \A i \in 1..(Len(sig) - 1): sig[i] > sig[i + 1]

---------------------------------------------------------------------------
(* C16 extensions: trailing triplets, Hermitian matrices given by their    *)
(* spectral decomposition, the scaling law of the pseudo-inverse           *)
\* sum of the triplets lo..hi of U Sigma V^H (1 <= lo <= hi <= Len(sig)); lo = 1: BestRank, hi = Len(sig): the
\* hi - lo + 1 SMALLEST triplets (what `which = "SM"` asks for)
TripletSum(U, sig, V, lo, hi) ==
    LET w == hi - lo + 1
        idx == [i \in 1..w |-> lo + i - 1]
    IN MNormalize(MMul(MMul(MGather(U, Iota(U.r), idx), SigmaMat(w, w, SubSeq(sig, lo, hi))),
                       MAdj(MGather(V, Iota(V.r), idx))))

\* A Hermitian matrix with unitary eigenvector matrix W and non-zero real (integer) eigenvalues lam, LISTED BY
\* DECREASING MODULUS: A = W diag(lam) W^H is a singular value decomposition up to signs,
\*     Sigma = diag |lam|,   V = W,   U = W diag(sign lam)      (column j of U carries the sign of lam[j]).
SignOf(x) == IF x < 0 THEN -1 ELSE 1
AbsSeq(lam) == [i \in 1..Len(lam) |-> Abs(lam[i])]
HermLeft(W, lam) == MkMatD(W.r, W.c, W.d, LAMBDA i, j: CScaleI(SignOf(lam[j]), W.e[i][j]))
SpectralForm(W, lam) == MMul(MMul(W, MDiagOf([i \in 1..Len(lam) |-> CInt(lam[i])])), MAdj(W))
IsIndefiniteSpectrum(lam) == (\E i \in 1..Len(lam): lam[i] > 0) /\ (\E i \in 1..Len(lam): lam[i] < 0)
\* some negative eigenvalue has a larger modulus than some positive one: listed by increasing VALUE the signs are
\* (-, .., -, +, .., +), listed by increasing MODULUS they are not, so signs (the difference between U and V) cannot
\* be carried over from one ordering to the other
NegativeDominatesPositive(lam) == \E i \in 1..Len(lam): \E j \in (i + 1)..Len(lam): lam[i] < 0 /\ lam[j] > 0

\* SCALING LAW: pinv(c A) = pinv(A) / c for every scalar c # 0, c a Gaussian rational [n |-> <<re, im>>, d |-> d]:
\* the minimum-norm least-squares solution of (c A) x = b is x / c.  Stated both through the normal equations
\* (PinvSolve of the scaled matrix) and through the Moore-Penrose characterisation of the scaled candidate.
PinvScaled(A, b, c) == MScale(QInv(c), PinvSolve(A, b))
PinvScalingLaw(A, b, c) ==
    LET cA == MScale(c, A)
    IN /\ MEq(PinvSolve(cA, b), PinvScaled(A, b, c))
       /\ IsMinNormLsq(cA, b, PinvScaled(A, b, c))

\* REVERSE-ORDER "LAW" (F1 F2 .. Fn)^+ = Fn^+ .. F2^+ F1^+ : NOT a law.  It holds when all factors are square and
\* invertible, or when F1 has full column rank and F2 full row rank (n = 2), and fails in general for rectangular
\* factors in other positions (tall @ tall, wide @ wide, wide @ tall, square @ tall, wide @ square).  The pseudo-
\* inverse of a product is therefore ALWAYS specified through the product's own matrix (PinvSolve(MProdSeq(Fs), b));
\* MC_Pinv exports for every product of the catalog whether the reverse-order candidate coincides with it, and
\* checks the catalog's claim (witnesses of failure in each of the five patterns).
RECURSIVE ReverseOrderSolve(_, _)
ReverseOrderSolve(Fs, b) ==             \* Fn^+ ( .. (F2^+ (F1^+ b)))  for full-rank factors
    IF Fs = <<>> THEN b ELSE ReverseOrderSolve(Tail(Fs), PinvSolve(Head(Fs), b))
ReverseOrderLawHolds(Fs, b) == MEq(ReverseOrderSolve(Fs, b), PinvSolve(MProdSeq(Fs), b))
=============================================================================
