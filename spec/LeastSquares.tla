--------------------------- MODULE LeastSquares ---------------------------
(***************************************************************************)
(* Exact (Gaussian-rational) least squares: the oracles of C13 (GMRES) and *)
(* C16 (svd / pinv).                                                       *)
(*                                                                         *)
(*  - LsqSolve(K, r): for a full-column-rank K the unique minimiser y of   *)
(*    ||r - K y||_2, from the normal equations (K^H K) y = K^H r;          *)
(*    LsqRes2: the exact squared residual, a rational number.              *)
(*  - PinvSolve(A, b): x = pinv(A) b for full-rank A of any shape.         *)
(*  - Krylov / KDim / GmresOpt(A, b, x0, m): the exact minimiser of        *)
(*    ||b - A x|| over x0 + K_m(A, r0) on a rank-revealing prefix of the   *)
(*    Krylov matrix, and rho2 = its exact squared residual.                *)
(*  - GalerkinOpt: the exact Galerkin (FOM) iterate of the same space, the *)
(*    classical *wrong* answer, exported so that a conformance failure can *)
(*    be classified exactly.                                               *)
(*  - BestRank: sum of the k leading singular triplets of U Sigma V^H.     *)
(*                                                                         *)
(* All values are exact; 32-bit overflow aborts TLC (never silent), the    *)
(* harness pre-screens its catalog with an exact mirror of these formulas  *)
(* (harness/lsqfam.py) and counts what it drops.                           *)
(***************************************************************************)
EXTENDS Mat

---------------------------------------------------------------------------
(* real rationals n/d, d > 0 *)
QNorm(q) ==
    LET g == Gcd(Gcd(q.n[1], q.n[2]), q.d)
    IN IF g <= 1 THEN q ELSE [n |-> <<q.n[1] \div g, q.n[2] \div g>>, d |-> q.d \div g]

\* a/b <= c/d for a, c >= 0 and b, d > 0 by the Euclidean (continued fraction) comparison:
\* no cross multiplication, hence no 32-bit overflow whatever the operands
RECURSIVE FracLeq(_, _, _, _)
FracLeq(a, b, c, d) ==
    LET qa == a \div b
        qc == c \div d
        ra == a % b
        rc == c % d
    IN IF qa # qc THEN qa < qc
       ELSE IF ra = 0 THEN TRUE
       ELSE IF rc = 0 THEN FALSE
       ELSE FracLeq(d, rc, b, ra)      \* ra/b <= rc/d  <=>  d/rc <= b/ra
\* x <= y for non-negative real rationals
QLeqNN(x, y) == FracLeq(x.n[1], x.d, y.n[1], y.d)

\* squared Frobenius norm (squared 2-norm of a column) as a reduced rational
Norm2(M0) ==
    LET M == MNormalize(M0)
        RECURSIVE RowSum(_)
        RowSum(s) == IF s = <<>> THEN 0 ELSE CAbs2(Head(s)) + RowSum(Tail(s))
        RECURSIVE AllSum(_)
        AllSum(rows) == IF rows = <<>> THEN 0 ELSE RowSum(Head(rows)) + AllSum(Tail(rows))
    IN QNorm([n |-> <<AllSum(M.e), 0>>, d |-> M.d * M.d])

Iota(k) == [i \in 1..k |-> i]
\* leading k columns
Cols(M, k) == MGather(M, Iota(M.r), Iota(k))
\* divide an integer matrix by the content of its entries (same span, smaller numbers)
Primitive(M) ==
    LET g == GcdRows(M.e, 0)
    IN IF g <= 1 THEN M
       ELSE MkMatD(M.r, M.c, M.d, LAMBDA i, j: <<M.e[i][j][1] \div g, M.e[i][j][2] \div g>>)

---------------------------------------------------------------------------
(* rank *)
\* K (r x c) has full column rank  <=>  det(K^H K) # 0.  By Cauchy-Binet det(K^H K) is the sum of
\* |minor|^2 over all c x c minors of K, so the test is evaluated on the minors (much smaller integers).
GramDet(K) == DetN(MMul(MAdj(K), K))
FullColRank(K) ==
    /\ K.c <= K.r
    /\ \E S \in SUBSET (1..K.r):
          /\ Cardinality(S) = K.c
          /\ DetN(MGather(K, SetToSeq(S), Iota(K.c))) # CZ
FullRank(A) == IF A.r >= A.c THEN FullColRank(A) ELSE FullColRank(MAdj(A))

---------------------------------------------------------------------------
(* least squares *)
\* unique minimiser of ||r - K y|| for full-column-rank K (square K: the plain solve)
LsqSolve(K, r) ==
    IF K.r = K.c THEN MNormalize(MMul(MInverse(K), r))
    ELSE LET KH == MAdj(K)
         IN MNormalize(MMul(MInverse(MMul(KH, K)), MNormalize(MMul(KH, r))))
LsqRes2(K, r) == Norm2(MSub(r, MMul(K, LsqSolve(K, r))))

\* minimum-norm least-squares solution pinv(A) b for full-rank A
PinvSolve(A, b) ==
    IF A.r = A.c THEN MNormalize(MMul(MInverse(A), b))
    ELSE IF A.r < A.c
    THEN LET AH == MAdj(A) IN MNormalize(MMul(AH, MNormalize(MMul(MInverse(MMul(A, AH)), b))))
    ELSE LsqSolve(A, b)

\* Moore-Penrose characterisation of x = pinv(A) b: the residual is orthogonal to range(A) and x lies in
\* range(A^H) (adding the column x to A^H does not raise the rank)
IsMinNormLsq(A, b, x) ==
    /\ MIsZero(MMul(MAdj(A), MSub(MMul(A, x), b)))
    /\ \/ A.r >= A.c                                  \* full column rank: range(A^H) is everything
       \/ MIsZero(x)
       \/ ~FullColRank(MHStack(MAdj(A), MkMatD(x.r, x.c, 1, LAMBDA i, j: x.e[i][j])))

---------------------------------------------------------------------------
(* Krylov spaces *)
\* columns v, Av, A^2 v, ... each divided by its integer content (the spans are those of the power basis)
RECURSIVE KrylovCols(_, _, _)
KrylovCols(A, v, j) ==
    IF j = 0 THEN <<>> ELSE <<v>> \o KrylovCols(A, Primitive(MMul(A, v)), j - 1)
Krylov(A, v, j) == MHStackSeq(KrylovCols(A, Primitive(v), j))        \* j >= 1, A and v integer (d = 1)
\* dimension of the full Krylov space = degree of the minimal polynomial of A w.r.t. v
KDim(A, v) ==
    IF MIsZero(v) THEN 0
    ELSE CHOOSE j \in 1..A.r:
            /\ FullColRank(Krylov(A, v, j))
            /\ (j = A.r \/ ~FullColRank(Krylov(A, v, j + 1)))
Min2(a, b) == IF a < b THEN a ELSE b

\* exact minimiser of ||b - A x|| over x0 + K_m(A, r0); unique because A is invertible and the prefix
\* K_j, j = min(m, KDim), has full column rank and spans K_m
GmresOpt(A, b, x0, m) ==
    LET r0 == MSub(b, MMul(A, x0))
        j == Min2(m, KDim(A, r0))
    IN IF j = 0 THEN [x |-> x0, rho2 |-> Norm2(r0), j |-> 0]
       ELSE LET K == Krylov(A, r0, j)
                y == LsqSolve(MMul(A, K), r0)
                x == MNormalize(MAdd(x0, MMul(K, y)))
            IN [x |-> x, rho2 |-> Norm2(MSub(b, MMul(A, x))), j |-> j]

\* Galerkin / FOM iterate: x0 + K y with K^H (r0 - A K y) = 0; undefined when K^H A K is singular
GalerkinOpt(A, b, x0, m) ==
    LET r0 == MSub(b, MMul(A, x0))
        j == Min2(m, KDim(A, r0))
    IN IF j = 0 THEN [def |-> TRUE, x |-> x0, rho2 |-> Norm2(r0)]
       ELSE LET K == Krylov(A, r0, j)
                KH == MAdj(K)
                G == MMul(KH, MMul(A, K))
            IN IF DetN(G) = CZ THEN [def |-> FALSE, x |-> x0, rho2 |-> Norm2(r0)]
               ELSE LET x == MNormalize(MAdd(x0, MMul(K, MNormalize(MMul(MInverse(G), MMul(KH, r0))))))
                    IN [def |-> TRUE, x |-> x, rho2 |-> Norm2(MSub(b, MMul(A, x)))]

---------------------------------------------------------------------------
(* singular value decompositions given by exact factors *)
SigmaMat(r, c, sig) ==
    MkMat(r, c, LAMBDA i, j: IF i = j /\ i <= Len(sig) THEN CInt(sig[i]) ELSE CZ)
\* sum of the k leading triplets (sig in decreasing order) = best rank-k approximation (Eckart-Young)
BestRank(U, sig, V, k) ==
    MNormalize(MMul(MMul(Cols(U, k), SigmaMat(k, k, SubSeq(sig, 1, k))), MAdj(Cols(V, k))))
StrictlyDecreasingPositive(sig) ==
    /\ \A i \in 1..Len(sig): sig[i] > 0
    /\ \A i \in 1..(Len(sig) - 1): sig[i] > sig[i + 1]
=============================================================================
