------------------------- MODULE Trace_LoopControl -------------------------
(***************************************************************************)
(* Trace validation of the Lanczos / Arnoldi control skeletons             *)
(* (LoopControl.tla) against recorded executions of the real loops.        *)
(*                                                                         *)
(* One line of TRACE_FILE is one execution of lanczos_fact / arnoldi_fact  *)
(* as seen by the harness recorder wrapped around the cond_fun / body_fun  *)
(* handed to xnp.while_loop_winfo (the original loop runs):                *)
(*   [alg, n, m (requested max_iters), mb (cap the buffers were sized by), *)
(*    b (batch),                                                           *)
(*    kd (0, or the exact Krylov dimension - maximum over the batch - of   *)
(*        an execution of the exact-breakdown family: every residual of    *)
(*        such a run is an exact floating-point number, zero exactly at    *)
(*        step kd, so the numeric test observed in the real loop must be   *)
(*        the exact test "residual # 0" of MC_Krylov, whatever tol >= 0),  *)
(*    evs |-> << [c |-> counter in the loop state,                         *)
(*                t |-> "T" | "F" | "E"   harness-recomputed numeric test  *)
(*                                        (E = within the band, either),   *)
(*                r |-> value returned by the real cond_fun] ... >>,       *)
(*    buf |-> buffer shapes seen by the first evaluation,                  *)
(*    fin |-> [ctr, q, t, offd, steps, iterations, nerr]  outputs ]        *)
(* One TLC state per consumed event.  Each event must be explained by      *)
(* LoopControl!Cont for an admissible test outcome with the spec's own     *)
(* counter; after the last event the skeleton must have stopped and the    *)
(* recorded outputs must equal LoopControl!Out.  The verdict of a trace    *)
(* (and the first failing event / clause) is printed in its last state.    *)
(***************************************************************************)
EXTENDS LoopControl, Json, TLC, IOUtils

CONSTANTS Block

Traces == ndJsonDeserialize(IOEnv.TRACE_FILE)
NTraces == Len(Traces)

VARIABLES t, l, st, ok, why
vars == <<t, l, st, ok, why>>

Tr == Traces[t]
Start(k) == /\ t' = k /\ l' = 0 /\ st' = CtlInit(Traces[k].alg) /\ ok' = TRUE /\ why' = "-"
Init == /\ t \in {k \in 1..NTraces: (k - 1) % Block = 0}
        /\ l = 0 /\ st = CtlInit(Traces[t].alg) /\ ok = TRUE /\ why = "-"

Allowed(tag) == IF tag = "T" THEN {TRUE} ELSE IF tag = "F" THEN {FALSE} ELSE BOOLEAN
Fail(msg) == /\ ok' = FALSE /\ why' = msg /\ UNCHANGED st

\* the exact numeric test of MC_Krylov at counter value c (the first evaluation is unconditional; a tag "E" is a
\* non-finite residual, left to the skeleton)
ExactTag(c) ==
    IF Tr.alg = "lanczos" THEN (IF c - 1 < Tr.kd THEN "T" ELSE "F") ELSE (IF c < Tr.kd THEN "T" ELSE "F")

Consume(e) ==
    IF ~ok THEN UNCHANGED <<st, ok, why>>
    ELSE IF st.done THEN Fail("event after the skeleton stopped")
    ELSE IF e.c # st.ctr THEN Fail("counter")
    ELSE IF Tr.kd > 0 /\ e.c > CtrInit(Tr.alg) /\ e.t \notin {ExactTag(e.c), "E"} THEN Fail("exact test")
    ELSE IF ~(\E lg \in Allowed(e.t): Cont(Tr.alg, st.ctr, Cap(Tr.m, Tr.n), lg) = e.r)
    THEN Fail("condition")
    ELSE /\ st' = CtlAdvance(st, e.r) /\ UNCHANGED <<ok, why>>

Next ==
    IF l < Len(Tr.evs)
    THEN /\ l' = l + 1 /\ Consume(Tr.evs[l + 1]) /\ UNCHANGED t
    ELSE /\ t < NTraces /\ t % Block # 0 /\ Start(t + 1)
Spec == Init /\ [][Next]_vars

BufOK ==
    IF Tr.alg = "lanczos"
    THEN LET cap == Cap(Tr.m, Tr.n) IN
         /\ Tr.mb = cap
         /\ Tr.buf = <<<<Tr.b, Tr.n, cap + 2>>, <<Tr.b, cap>>, <<Tr.b, cap + 1>>>>
    ELSE /\ Tr.mb \in ArnoldiBufCaps(Tr.m, Tr.n)
         /\ Tr.buf = <<<<Tr.b, Tr.n, Tr.mb + 1>>, <<Tr.b, Tr.mb + 1, Tr.mb>>>>
FinalClause ==
    IF ~ok THEN why
    ELSE IF ~st.done THEN "loop stopped early or trace truncated"
    ELSE IF ~CtlInv(Tr.alg, Tr.n, Tr.m, st) THEN "contract"
    ELSE IF ~BufOK THEN "buffers"
    ELSE LET o == Out(Tr.alg, Tr.n, IF Tr.alg = "arnoldi" THEN Tr.mb ELSE Tr.m, st)
             f == Tr.fin
         IN IF f.ctr # st.ctr THEN "final counter"
            ELSE IF f.q # o.q THEN "shape of Q"
            ELSE IF f.t # o.t THEN "shape of T/H"
            ELSE IF f.offd # o.offd THEN "off-diagonal length"
            ELSE IF f.steps # o.steps THEN "steps"
            ELSE IF f.iterations # o.iterations THEN "info.iterations"
            ELSE IF f.nerr # o.nerr THEN "info.errors"
            ELSE "ok"
Verdict ==
    IF l = Len(Tr.evs)
    THEN PrintT(ToJson([t |-> t, ok |-> (FinalClause = "ok"), clause |-> FinalClause, at |-> l]))
    ELSE TRUE
=============================================================================
