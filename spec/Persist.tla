------------------------------ MODULE Persist ------------------------------
(***************************************************************************)
(* Property C18, persistence part: cola operators are persistent values.   *)
(*                                                                         *)
(* owned  caller-owned arrays: id -> content digest (right-hand sides,     *)
(*        initial guesses, start vectors, index arrays, and the arrays the *)
(*        pool operators were built from)                                  *)
(* ops    live operators in order of creation, each the FULL OBSERVABLE    *)
(*        STATE of the operator:                                           *)
(*        <<dense digest, annotation set, flatten-leaves digest,           *)
(*          state digest>>   where the state digest covers shape, dtype,   *)
(*        the static fields and every attribute reachable from the         *)
(*        instance, public or hidden (arrays inside algorithm objects,     *)
(*        remembered solutions, caches, ...)                               *)
(* memo   call signature -> result digest, for every call made so far      *)
(*                                                                         *)
(* Every public operation is an instance of Call: it may return a value    *)
(* and may create new operators, but every pre-existing entry of owned and *)
(* ops is unchanged (frame condition), and a call whose signature was seen *)
(* before returns the remembered result.                                   *)
(*                                                                         *)
(* ARGUMENTS.  A call receives caller-owned arrays as arguments (right- and *)
(* left-hand sides of products and solves, initial guesses, start vectors, *)
(* index arrays, the arrays an operator is constructed from).  NumPy hands *)
(* one and the same VALUE over in many memory LAYOUTS: 1-D, (n,1) column,  *)
(* C-ordered, Fortran-ordered, transposed view, strided (non-contiguous)   *)
(* slice, negative strides, read-only.  For the specification a layout is  *)
(* just another caller-owned array - owned[a] = <<value, layout>> - and    *)
(*   (1) the frame condition owned' = owned holds for an argument in EVERY *)
(*       layout (bytes of the array, of the buffer it is a view of, and    *)
(*       its shape / strides / flags): CallOnArgument, ArgumentsFrame;     *)
(*   (2) the layout is NOT part of a call's signature: the result is a     *)
(*       function of the value of the arguments, so two calls that differ  *)
(*       only in the layout of an argument return the same result (MemoOk  *)
(*       with a layout-free signature).  In particular a read-only array   *)
(*       is an argument like any other: a routine that raises because it   *)
(*       tried to write into it returns something else than it does on the *)
(*       writable array of equal value, which violates (2) - besides       *)
(*       showing that (1) only held by the grace of the flag.              *)
(***************************************************************************)
EXTENDS Integers, Sequences, FiniteSets, TLC

VARIABLES owned, ops, memo

FrameArrays(o1, o2) == o2 = o1
FrameOps(p1, p2) == /\ Len(p2) >= Len(p1)
                    /\ \A i \in 1..Len(p1): p2[i] = p1[i]
MemoOk(m, sig, res) == sig \in DOMAIN m => m[sig] = res
Remember(m, sig, res) == IF sig \in DOMAIN m THEN m ELSE m @@ (sig :> res)

Call(sig, res, created) ==
    /\ owned' = owned
    /\ ops' = ops \o created
    /\ MemoOk(memo, sig, res)
    /\ memo' = Remember(memo, sig, res)

(* OPERANDS.  An operation of the operator algebra (negation, subtraction, scalar multiplication / division on     *)
(* either side - negative, complex and zero scalars included -, sum, product, kron, kronsum, block_diag, .T, .H,   *)
(* slicing, declaration wrappers PSD / SelfAdjoint / Unitary / Stiefel) and the application of an operator to an   *)
(* array are Calls whose operands xs are entries of ops.  FrameOps leaves EVERY component of EVERY pre-existing    *)
(* entry unchanged: an operand keeps its matrix, its ANNOTATIONS (whatever the operation concludes about the       *)
(* annotations of its result), its leaves and its whole state; and since the result is a function of the operands  *)
(* (MemoOk), repeating the call - directly or after unrelated calls on the same operator - returns the same.       *)
CallOnOperands(sig, res, created, xs) ==
    /\ xs \subseteq 1..Len(ops)
    /\ Call(sig, res, created)

(* a call one of whose arguments is the caller-owned array `arg` (in whatever layout owned[arg] records) *)
CallOnArgument(sig, res, created, arg) ==
    /\ arg \in DOMAIN owned
    /\ Call(sig, res, created)

(* consequences, checked on the enumerating model *)
ArgumentsFrame == [][\A a \in DOMAIN owned: a \in DOMAIN owned' /\ owned'[a] = owned[a]]_<<owned, ops, memo>>
Persistence == [][FrameArrays(owned, owned') /\ FrameOps(ops, ops')]_<<owned, ops, memo>>
MemoStable == [][\A s \in DOMAIN memo: s \in DOMAIN memo' /\ memo'[s] = memo[s]]_<<owned, ops, memo>>
=============================================================================
