------------------------------ MODULE Persist ------------------------------
(***************************************************************************)
(* Property C18, persistence part: cola operators are persistent values.   *)
(*                                                                         *)
(* owned  caller-owned arrays: id -> content digest (right-hand sides,     *)
(*        initial guesses, start vectors, index arrays, and the arrays the *)
(*        pool operators were built from)                                  *)
(* ops    live operators in order of creation:                             *)
(*        <<dense digest, annotation set, flatten-leaves digest>>          *)
(* memo   call signature -> result digest, for every call made so far      *)
(*                                                                         *)
(* Every public operation is an instance of Call: it may return a value    *)
(* and may create new operators, but every pre-existing entry of owned and *)
(* ops is unchanged (frame condition), and a call whose signature was seen *)
(* before returns the remembered result.                                   *)
(***************************************************************************)
EXTENDS Integers, Sequences, FiniteSets, TLC

VARIABLES owned, ops, memo

FrameArrays(o1, o2) == o2 = o1
FrameOps(p1, p2) == /\ Len(p2) >= Len(p1)
                    /\ \A i \in 1..Len(p1): p2[i] = p1[i]
MemoOk(m, sig, res) == sig \in DOMAIN m => m[sig] = res
Remember(m, sig, res) == IF sig \in DOMAIN m THEN m ELSE m @@ (sig :> res)

Call(sig, res, created) ==
    /\ owned' = owned
    /\ ops' = ops \o created
    /\ MemoOk(memo, sig, res)
    /\ memo' = Remember(memo, sig, res)

(* consequences, checked on the enumerating model *)
Persistence == [][FrameArrays(owned, owned') /\ FrameOps(ops, ops')]_<<owned, ops, memo>>
MemoStable == [][\A s \in DOMAIN memo: s \in DOMAIN memo' /\ memo'[s] = memo[s]]_<<owned, ops, memo>>
=============================================================================
