----------------------------- MODULE MC_BigDet -----------------------------
(***************************************************************************)
(* Two uses of BigDet.tla:                                                 *)
(*  SpecSmall - enumerates every small compressed tree (dimension <= 8)    *)
(*              and checks FactSound: the factored determinant multiplies  *)
(*              out to the determinant (Mat!DetN) of the expanded matrix;  *)
(*  SpecBig   - one state per large tree of the generated catalog          *)
(*              (BigDetCatalog!BigCases); EmitBig prints the factored      *)
(*              determinant, from which the harness forms sign and         *)
(*              log|det| and compares them with cola's slogdet / logdet.   *)
(* Mutant (negative control): a wrong exponent in the Kronecker identity.  *)
(***************************************************************************)
EXTENDS BigDet, BigDetCatalog, Json

CONSTANTS MaxLvl, MaxSize, Mutant

VARIABLES t, lvl, idx
vars == <<t, lvl, idx>>

Qh == Q(1, 0, 2)
SmallLeaves == {
    [k |-> "Rep", runs |-> << [v |-> QInt(2), r |-> 1], [v |-> QInt(-1), r |-> 1] >>],
    [k |-> "Rep", runs |-> << [v |-> Qh, r |-> 2] >>],
    [k |-> "Rep", runs |-> << [v |-> Q(0, 1, 1), r |-> 1], [v |-> QInt(3), r |-> 2] >>],
    [k |-> "Tri", runs |-> << [v |-> QInt(-2), r |-> 1], [v |-> QInt(1), r |-> 1] >>],
    [k |-> "Scal", c |-> QInt(-3), n |-> 2],
    [k |-> "Scal", c |-> Q(1, 1, 1), n |-> 3],
    [k |-> "Scal", c |-> Qh, n |-> 1],
    [k |-> "Ident", n |-> 2],
    [k |-> "Swaps", n |-> 2, s |-> 1],
    [k |-> "Swaps", n |-> 3, s |-> 1],
    [k |-> "Swaps", n |-> 4, s |-> 2] }

Combos(x) ==
    {[k |-> "Kron", a |-> <<x, l>>] : l \in SmallLeaves} \cup {[k |-> "Kron", a |-> <<l, x>>] : l \in SmallLeaves}
    \cup {[k |-> "Kron", a |-> <<l1, x, l2>>] : l1 \in SmallLeaves, l2 \in SmallLeaves}
    \cup {[k |-> "Prod", a |-> <<x, l>>] : l \in {m \in SmallLeaves: BSize(m) = BSize(x)}}
    \cup {[k |-> "Prod", a |-> <<l, x, l>>] : l \in {m \in SmallLeaves: BSize(m) = BSize(x)}}
    \cup {[k |-> "Block", a |-> <<x, l>>, m |-> <<m1, m2>>] : l \in SmallLeaves, m1 \in 1..2, m2 \in 1..3}
    \cup {[k |-> "Block", a |-> <<x>>, m |-> <<m1>>] : m1 \in 2..3}

InitSmall == t \in SmallLeaves /\ lvl = 0 /\ idx = 0
NextSmall == /\ lvl < MaxLvl
             /\ \E n \in Combos(t): BSize(n) <= MaxSize /\ t' = n /\ lvl' = lvl + 1 /\ idx' = idx
SpecSmall == InitSmall /\ [][NextSmall]_vars

\* the wrong Kronecker identity of the negative control: exponent dim(A_i) instead of N / dim(A_i)
RECURSIVE FactDetMut(_)
FactDetMut(x) ==
    IF x.k = "Kron" THEN Flatten([i \in 1..Len(x.a) |-> ScaleExp(FactDetMut(x.a[i]), BSize(x.a[i]))])
    ELSE IF x.k = "Prod" THEN Flatten([i \in 1..Len(x.a) |-> FactDetMut(x.a[i])])
    ELSE IF x.k = "Block" THEN Flatten([i \in 1..Len(x.a) |-> ScaleExp(FactDetMut(x.a[i]), x.m[i])])
    ELSE FactDet(x)

Fits(x) == LET M == MNormalize(Expand(x)) IN M.d <= 2 /\ RowNormBound(M, 2097152) < 2097152
SmallSound ==
    (BWf(t) /\ Fits(t)) =>
        IF Mutant THEN LET M == MNormalize(Expand(t)) IN QEq(BagValue(FactDetMut(t)), Det(M)) ELSE FactSound(t)
SmallWf == BWf(t)

---------------------------------------------------------------------------
InitBig == idx \in 1..Len(BigCases) /\ t = BigCases[idx] /\ lvl = 0
NextBig == FALSE /\ UNCHANGED vars
SpecBig == InitBig /\ [][NextBig]_vars
EmitBig == PrintT(ToJson([i |-> idx, wf |-> BWf(t), n |-> BSize(t), bag |-> FactDet(t)]))
=============================================================================
