------------------------------ MODULE Krylov ------------------------------
(***************************************************************************)
(* Exact Krylov oracle for C14 (Lanczos) / C15 (Arnoldi).                  *)
(*                                                                         *)
(* For a small Gaussian-integer matrix A (n <= 4) and start vector v the   *)
(* Krylov matrix K_j = [v, Av, ..., A^(j-1) v] is computed exactly, its    *)
(* rank is decided by non-vanishing minors (no division, so every answer   *)
(* is exact or TLC aborts on 32-bit overflow), and KDim(A, v) is the       *)
(* eventual rank.  When the catalog supplies a spectral witness            *)
(*      A V = V J ,  det V # 0 ,  J = diag(lam) + superdiagonal sup        *)
(* (Jordan blocks of size <= 2, sup[i] = 1 joins i and i+1) the spectrum   *)
(* seen from v is stated exactly: with c = adj(V) v (= det(V) V^-1 v) the  *)
(* eigenvalue mu is excited with grade                                     *)
(*      2  if some generalised vector of mu has c_i # 0,                   *)
(*      1  if otherwise some eigenvector of mu has c_i # 0,   0 otherwise  *)
(* and the minimal polynomial of v w.r.t. A is prod (x - mu)^grade, so     *)
(* KDim = sum of grades and the projected matrix (T resp. the square part  *)
(* of H) at exhaustion has exactly these eigenvalues with these            *)
(* multiplicities.                                                         *)
(*                                                                         *)
(* The expected observables of the property (column counts, number of      *)
(* orthonormal columns, shapes) are defined here as functions of           *)
(* (max_iters, n, KDim); MC_Krylov checks that the control skeletons of    *)
(* LoopControl, fed with the exact numeric test, produce them.             *)
(***************************************************************************)
EXTENDS Mat

KMin2(a, b) == IF a < b THEN a ELSE b
KMin3(a, b, c) == KMin2(a, KMin2(b, c))

---------------------------------------------------------------------------
(* Krylov matrix: v is an n x 1 matrix with denominator 1, A is n x n with denominator 1 *)
RECURSIVE KrylovCols(_, _, _)
KrylovCols(A, v, j) == IF j = 0 THEN <<>> ELSE <<v>> \o KrylovCols(A, MMul(A, v), j - 1)
KrylovMat(A, v, j) ==
    LET cols == KrylovCols(A, v, j) IN MkMat(A.r, j, LAMBDA i, k: cols[k].e[i][1])

(* rank by minors *)
KSubseqs(n, k) == {SetToSeq(S): S \in {T \in SUBSET (1..n): Cardinality(T) = k}}
HasMinor(M, k) ==
    \/ k = 0
    \/ LET Ts == KSubseqs(M.c, k)
       IN \E S \in KSubseqs(M.r, k): \E T \in Ts: DetN(MGather(M, S, T)) # CZ
\* a non-vanishing (k+1)-minor implies a non-vanishing k-minor (Laplace expansion), so the rank is found by
\* counting upwards until the first k without one
RECURSIVE RankFrom(_, _)
RankFrom(M, k) == IF k < KMin2(M.r, M.c) /\ HasMinor(M, k + 1) THEN RankFrom(M, k + 1) ELSE k
Rank(M) == RankFrom(M, 0)

KRank(A, v, j) == Rank(KrylovMat(A, v, j))
\* eventual rank: K_j has at most n independent columns, and the rank is stationary once it stalls
\* (checked by RanksOK below), so the rank of K_n is the eventual one
KDim(A, v) == KRank(A, v, A.r)
Ranks(A, v) == [j \in 1..A.r |-> KRank(A, v, j)]

\* rank sequence is monotone, grows by at most one, stalls for good, and equals min(j, KDim)
RanksOK(A, v) ==
    LET rk == Ranks(A, v)
        kd == rk[A.r]
    IN /\ rk[1] = (IF MIsZero(v) THEN 0 ELSE 1)
       /\ \A j \in 1..(A.r - 1): rk[j] <= rk[j + 1] /\ rk[j + 1] <= rk[j] + 1
       /\ \A j \in 1..(A.r - 1): rk[j + 1] = rk[j] => \A q \in j..A.r: rk[q] = rk[j]
       /\ \A j \in 1..A.r: rk[j] = KMin2(j, kd)
       /\ kd <= A.r
       \* invariance of the exhausted space: A K_kd adds nothing
       /\ (kd >= 1 /\ kd < A.r) =>
             Rank(MHStack(KrylovMat(A, v, kd), MMul(A, KrylovMat(A, v, kd)))) = kd

---------------------------------------------------------------------------
(* spectral witness *)
JMat(lam, sup) ==
    MkMat(Len(lam), Len(lam),
          LAMBDA i, j: IF i = j THEN lam[i] ELSE IF j = i + 1 THEN <<sup[i], 0>> ELSE CZ)
WitnessOK(A, V, lam, sup) ==
    /\ Len(lam) = A.r /\ Len(sup) = (IF A.r = 0 THEN 0 ELSE A.r - 1)
    /\ DetN(V) # CZ
    /\ MEq(MMul(A, V), MMul(V, JMat(lam, sup)))
    /\ \A i \in 1..Len(sup): sup[i] \in {0, 1}
    /\ \A i \in 1..Len(sup): sup[i] = 1 => lam[i] = lam[i + 1]
    /\ \A i \in 1..(Len(sup) - 1): ~(sup[i] = 1 /\ sup[i + 1] = 1)       \* blocks of size <= 2
\* c = adj(V) v : c_i # 0 iff the i-th coordinate of v in the basis V is non-zero
Coeffs(V, v) == LET c == MMul(AdjN(V), v) IN [i \in 1..V.r |-> c.e[i][1]]
Grade(lam, sup, c, mu) ==
    IF \E i \in 2..Len(lam): lam[i] = mu /\ sup[i - 1] = 1 /\ c[i] # CZ THEN 2
    ELSE IF \E i \in 1..Len(lam): lam[i] = mu /\ c[i] # CZ THEN 1
    ELSE 0
\* set of [lam, mult]: the exact spectrum of the projected matrix at exhaustion
ExcitedSpec(V, lam, sup, v) ==
    LET c == Coeffs(V, v)
    IN {[lam |-> mu, mult |-> Grade(lam, sup, c, mu)]: mu \in {m \in {lam[i]: i \in 1..Len(lam)}:
                                                                 Grade(lam, sup, c, m) > 0}}
RECURSIVE SumMult(_)
SumMult(S) == IF S = {} THEN 0 ELSE LET x == CHOOSE y \in S: TRUE IN x.mult + SumMult(S \ {x})
RECURSIVE AnySeq(_)
AnySeq(S) == IF S = {} THEN <<>> ELSE LET x == CHOOSE y \in S: TRUE IN <<x>> \o AnySeq(S \ {x})
\* full spectrum with algebraic multiplicities (for arnoldi_eigs when KDim = n)
FullSpec(lam) ==
    {[lam |-> mu, mult |-> Cardinality({i \in 1..Len(lam): lam[i] = mu})]: mu \in {lam[i]: i \in 1..Len(lam)}}

---------------------------------------------------------------------------
(* Exact Arnoldi factorisation over Q(i): the "exact breakdown" family.    *)
(*                                                                         *)
(* For catalog cases flagged `exact` every residual norm of the Arnoldi    *)
(* process is rational, so the orthonormal basis q_1..q_KDim and the       *)
(* Hessenberg matrix are computed here exactly (Gram-Schmidt in exact      *)
(* arithmetic; classical = modified).  The process ends at the first step  *)
(* whose residual is identically zero; that step must be KDim (rank based).*)
(* FPExact states that every q_j and every h_ij is a dyadic rational with  *)
(* small numerator / denominator (q_j: real or purely imaginary entries):  *)
(* all products and sums of the floating-point run (binary32 included) are *)
(* then exact whatever their order, the norms are square roots of perfect  *)
(* squares, and the residual at breakdown is the floating-point number 0.0.*)
(* So for these cases the numeric stopping test with tol = 0 IS the exact  *)
(* test "residual # 0" that MC_Krylov feeds to the control skeleton, 0/0   *)
(* appears in any unguarded normalisation, and the returned Q / H must     *)
(* equal the matrices exported here.                                       *)
(* integer square root of a perfect square (-1 otherwise); arguments are small *)
RECURSIVE ISqrtFrom(_, _)
ISqrtFrom(k, s) == IF s * s = k THEN s ELSE IF s * s > k THEN -1 ELSE ISqrtFrom(k, s + 1)
ISqrt(k) == IF k < 0 THEN -1 ELSE ISqrtFrom(k, 0)
RECURSIVE IsPow2(_)
IsPow2(k) == k = 1 \/ (k > 1 /\ k % 2 = 0 /\ IsPow2(k \div 2))
QRed(x) ==
    LET g == Gcd(Gcd(x.n[1], x.n[2]), x.d)
    IN IF g <= 1 THEN x ELSE [n |-> <<x.n[1] \div g, x.n[2] \div g>>, d |-> x.d \div g]
\* columns are n x 1 matrices; ||w||^2 = ColAbs2(w) / w.d^2
ColAbs2(w) == CSumSeq([i \in 1..w.r |-> <<CAbs2(w.e[i][1]), 0>>])[1]
Inner(q, w) == LET p == MMul(MAdj(q), w) IN QRed([n |-> p.e[1][1], d |-> p.d])
\* Gram-Schmidt sweep of w against qs[i..]: [w |-> remainder, h |-> coefficients]
RECURSIVE Sweep(_, _, _)
Sweep(qs, w, i) ==
    IF i > Len(qs) THEN [w |-> w, h |-> <<>>]
    ELSE LET hij == Inner(qs[i], w)
             r == Sweep(qs, MNormalize(MSub(w, MScale(hij, qs[i]))), i + 1)
         IN [w |-> r.w, h |-> <<hij>> \o r.h]
\* qs: orthonormal columns so far; hs[j] = <<h_1j, ..., h_(j+1)j>>.  Ends at the first zero residual (at the
\* latest after n steps: n + 1 orthonormal vectors do not exist) or at the first irrational norm.
RECURSIVE XArn(_, _, _)
XArn(A, qs, hs) ==
    LET sw == Sweep(qs, MMul(A, qs[Len(qs)]), 1)
        s2 == ColAbs2(sw.w)
        s == ISqrt(s2)
    IN IF s2 = 0 THEN [q |-> qs, h |-> hs \o <<sw.h \o <<QInt(0)>>>>, rational |-> TRUE]
       ELSE IF s < 0 \/ Len(qs) >= A.r THEN [q |-> qs, h |-> hs, rational |-> FALSE]
       ELSE XArn(A, qs \o <<MNormalize(MkMatD(A.r, 1, s, LAMBDA i, k: sw.w.e[i][1]))>>,
                 hs \o <<sw.h \o <<QRed([n |-> <<s, 0>>, d |-> sw.w.d])>>>>)
ExactArnoldi(A, v) ==
    LET s == ISqrt(ColAbs2(v))
    IN IF s <= 0 THEN [q |-> <<>>, h |-> <<>>, rational |-> FALSE]
       ELSE XArn(A, <<MNormalize(MkMatD(A.r, 1, s, LAMBDA i, k: v.e[i][1]))>>, <<>>)

DyadicC(x, d, b) ==
    /\ IsPow2(d) /\ d <= b
    /\ x[1] <= b /\ x[1] >= -b /\ x[2] <= b /\ x[2] >= -b
\* entries of the basis vectors are real or purely imaginary (their moduli, hence the norms, are computed exactly)
FPExact(xa, b) ==
    /\ xa.rational
    /\ \A j \in 1..Len(xa.q): \A i \in 1..xa.q[j].r:
          LET x == xa.q[j].e[i][1] IN DyadicC(x, xa.q[j].d, b) /\ (x[1] = 0 \/ x[2] = 0)
    /\ \A j \in 1..Len(xa.h): \A i \in 1..Len(xa.h[j]): DyadicC(xa.h[j][i].n, xa.h[j][i].d, b)
RECURSIVE LinComb(_, _, _)
LinComb(hs, qs, i) ==
    IF i = 1 THEN MScale(hs[1], qs[1]) ELSE MAdd(LinComb(hs, qs, i - 1), MScale(hs[i], qs[i]))
\* the exact factorisation has the property's shape: KDim orthonormal columns starting with v/||v||, upper
\* Hessenberg H with positive sub-diagonal, A q_j = sum_(i <= j+1) h_ij q_i, zero residual exactly at step KDim
ExactArnoldiOK(A, v, kd, b) ==
    LET xa == ExactArnoldi(A, v)
        k == Len(xa.q)
    IN /\ FPExact(xa, b)
       /\ \A i \in 1..A.r: \A j \in 1..A.c: DyadicC(A.e[i][j], A.d, b)
       /\ k = kd /\ Len(xa.h) = kd
       /\ MEq(MScale(QInt(ISqrt(ColAbs2(v))), xa.q[1]), v)
       /\ \A i \in 1..k: \A j \in 1..k: Inner(xa.q[i], xa.q[j]) = (IF i = j THEN QInt(1) ELSE QInt(0))
       /\ \A j \in 1..k:
             /\ Len(xa.h[j]) = j + 1
             /\ MEq(MMul(A, xa.q[j]), LinComb(xa.h[j], xa.q, KMin2(j + 1, k)))
             /\ xa.h[j][j + 1].n[2] = 0
             /\ IF j < k THEN xa.h[j][j + 1].n[1] > 0 ELSE xa.h[j][j + 1].n[1] = 0
\* Scale equivariance.  The Arnoldi / Lanczos process is homogeneous of degree (0, 1) in the operator: for every
\* c > 0 the process of c*A from the same start vector has the same orthonormal basis, the Hessenberg (tridiagonal)
\* matrix c*H, and breaks down at the same step, so KDim, the step / column counts for every max_iters and - the
\* stopping tests being relative to ||A q_1|| - the outcome of every numeric test for every tolerance are those
\* of A.  (q_1 does not depend on A; inductively w = (cA) q_j - sum (c h_ij) q_i = c w_A, ||w|| = c ||w_A||, same
\* q_(j+1).)  The argument holds for every positive c, in particular dyadic c = 2^-30, 2^20 that stay exact in
\* floating point; it is CHECKED here as an invariant on the exact catalog cases with small dyadic c (32-bit
\* integers), MC_Krylov!ScaleSet.
ScaleEquivariantAt(A, v, c) ==
    LET xa == ExactArnoldi(A, v)
        xs == ExactArnoldi(MScale(c, A), v)
    IN /\ xs.rational = xa.rational
       /\ Len(xs.q) = Len(xa.q) /\ Len(xs.h) = Len(xa.h)
       /\ \A j \in 1..Len(xa.q): MEq(xs.q[j], xa.q[j])
       /\ \A j \in 1..Len(xa.h):
             /\ Len(xs.h[j]) = Len(xa.h[j])
             /\ \A i \in 1..Len(xa.h[j]): QEq(xs.h[j][i], QMul(c, xa.h[j][i]))
\* Start-vector invariance.  The factorisation depends on the start vector only through its DIRECTION: q_1 = v/||v||
\* is the only place where v enters, so for every c > 0 the process of (A, c v) is the process of (A, v) - same
\* basis, same H, same breakdown step, whatever the size of ||c v|| (1e-13 times a residual, 1e8 times a unit
\* vector).  Likewise the NUMBER TYPE in which v is handed over is immaterial: a real (integer, single precision)
\* vector is the complex (double precision) vector with the same entries - in this model start vectors are
\* Gaussian rationals from the outset, so promotion to the operator's field is the identity - and the
\* factorisation lives in the operator's type.  Checked as an invariant on the exact catalog with dyadic c
\* (MC_Krylov!StartScaleInvariant).
StartScaleInvariantAt(A, v, c) ==
    LET xa == ExactArnoldi(A, v)
        xs == ExactArnoldi(A, MScale(c, v))
    IN /\ xs.rational = xa.rational
       /\ Len(xs.q) = Len(xa.q) /\ Len(xs.h) = Len(xa.h)
       /\ \A j \in 1..Len(xa.q): MEq(xs.q[j], xa.q[j])
       /\ \A j \in 1..Len(xa.h):
             /\ Len(xs.h[j]) = Len(xa.h[j])
             /\ \A i \in 1..Len(xa.h[j]): QEq(xs.h[j][i], xa.h[j][i])
\* export: columns of Q as [e (numerators), d], columns of H as sequences of [n, d]
ExactExport(A, v) ==
    LET xa == ExactArnoldi(A, v)
    IN [xq |-> [j \in 1..Len(xa.q) |-> [e |-> [i \in 1..A.r |-> xa.q[j].e[i][1]], d |-> xa.q[j].d]],
        xh |-> xa.h]

---------------------------------------------------------------------------
(* expected observables as functions of (max_iters m, size n, KDim kd) *)
\* Lanczos: number of columns of Q = size of T
LanczosCols(m, n, kd) == KMin3(m, n, kd)
\* Arnoldi: number of Arnoldi steps actually carried out (columns of H that are computed)
ArnoldiSteps(m, n, kd) == KMin3(m, n, kd)
\* Arnoldi: number of leading columns of Q that can (and must) be orthonormal
ArnoldiOrtho(m, n, kd) == KMin2(m + 1, kd)
\* Arnoldi buffers are sized by the requested cap
ArnoldiQShape(m, n) == <<n, m + 1>>
ArnoldiHShape(m, n) == <<m + 1, m>>
Expect(m, n, kd) ==
    [m |-> m, lcols |-> LanczosCols(m, n, kd), asteps |-> ArnoldiSteps(m, n, kd),
     aortho |-> ArnoldiOrtho(m, n, kd), aq |-> ArnoldiQShape(m, n), ah |-> ArnoldiHShape(m, n),
     exhausted |-> (kd <= KMin2(m, n)),
     regime |-> IF m < n THEN "m<n" ELSE IF m = n THEN "m=n" ELSE "m>n"]
=============================================================================
