-------------------------- MODULE MC_AutoChoice --------------------------
(***************************************************************************)
(* Enumeration model for AutoChoice: the state is one (entry point, facts) *)
(* combination; the fact values (shapes on both sides of the 1e6 switch    *)
(* and of the diag threshold, tolerances, option names) come from the      *)
(* generated module AutoFacts (harness/rulesfam2.py; seeded shapes).       *)
(* Facts that an entry point does not read are fixed to their defaults.    *)
(* In every state TLC decides the statements of AutoChoice.tla and prints  *)
(* one JSON line (entry point, facts, chosen algorithm, exception of the   *)
(* hand-over) which the harness replays on the real resolver.              *)
(***************************************************************************)
EXTENDS AutoChoice, AutoFacts, Json, TLC

CONSTANT DoEmit
VARIABLE c
vars == <<c>>

SeqSet(s) == {s[i]: i \in 1..Len(s)}
Shapes == SeqSet(AF_Shapes)          \* [n, m]
AnnSets == SeqSet(AF_Anns)           \* sets of annotation names
Tols == SeqSet(AF_Tols)              \* [def] / [def, p, q]
OptSets == SeqSet(AF_Opts)           \* sets of option names
DefTol == [def |-> TRUE]

Fact(sh, an, tol, k, wh, opts, al) ==
    [anns |-> an, n |-> sh.n, m |-> sh.m, tol |-> tol, k |-> k, which |-> wh, opts |-> opts, alpha |-> al]

TolFns == {"diag", "trace"}
KFns == {"eig", "svd"}
PlainFns == AC_Fns \ (TolFns \cup KFns \cup {"pow"})
\* facts that an entry point does not read stay at their defaults; diag reads tol from the options, so the tol option
\* is given exactly when the fact says so
Combos ==
    {[fn |-> fn, F |-> Fact(sh, an, DefTol, 2, "LM", opts, "frac")]:
        fn \in PlainFns, sh \in Shapes, an \in AnnSets, opts \in OptSets}
    \cup {[fn |-> fn, F |-> Fact(sh, an, DefTol, 2, "LM", opts, "frac")]:
        fn \in TolFns, sh \in Shapes, an \in AnnSets, opts \in {o \in OptSets: "tol" \notin o}}
    \cup {[fn |-> fn, F |-> Fact(sh, an, tol, 2, "LM", opts, "frac")]:
        fn \in TolFns, sh \in Shapes, an \in AnnSets, tol \in Tols \ {DefTol}, opts \in {o \in OptSets: "tol" \in o}}
    \cup {[fn |-> fn, F |-> Fact(sh, an, DefTol, k, wh, opts, "frac")]:
        fn \in KFns, sh \in Shapes, an \in AnnSets, k \in {1, 2}, wh \in {"LM", "SM"}, opts \in OptSets}
    \cup {[fn |-> "pow", F |-> Fact(sh, an, DefTol, 2, "LM", opts, al)]:
        sh \in Shapes, an \in AnnSets, opts \in OptSets, al \in {"m1", "int", "frac"}}

Init == c \in Combos
Next == UNCHANGED c
Spec == Init /\ [][Next]_vars

\* in-run negative controls: instances of the selection with the CONSTANT AutoMutant substituted; "nc" lists the
\* mutants whose statement is FALSE in this state (a control is caught when that happens in some state)
A_UDL == INSTANCE AutoChoice WITH AutoMutant <- "UnaryDropLast"
A_PO == INSTANCE AutoChoice WITH AutoMutant <- "PinvOverlap"
A_ISC == INSTANCE AutoChoice WITH AutoMutant <- "InvSmallCG"
A_SLD == INSTANCE AutoChoice WITH AutoMutant <- "SvdLargeDense"
A_SPL == INSTANCE AutoChoice WITH AutoMutant <- "SlogdetPSDLU"
A_ENP == INSTANCE AutoChoice WITH AutoMutant <- "EigNoPower"
A_UUS == INSTANCE AutoChoice WITH AutoMutant <- "UnaryUsesSA"
A_DS6 == INSTANCE AutoChoice WITH AutoMutant <- "DiagSwitch1e6"
A_EPF == INSTANCE AutoChoice WITH AutoMutant <- "EigPowerForwardAll"
Ctl ==
    LET nc == {<<"UnaryDropLast", A_UDL!AutoTotalAt(c.fn, c.F)>>,
               <<"PinvOverlap", A_PO!AutoUniqueAt(c.fn, c.F)>>,
               <<"InvSmallCG", A_ISC!AutoContractSmallAt(c.fn, c.F)>>,
               <<"SvdLargeDense", A_SLD!AutoContractLargeAt(c.fn, c.F)>>,
               <<"SlogdetPSDLU", A_SPL!AutoContractPSDAt(c.fn, c.F)>>,
               <<"EigNoPower", A_ENP!AutoMatchesDocAt(c.fn, c.F)>>,
               <<"UnaryUsesSA", A_UUS!AutoMatchesDocAt(c.fn, c.F)>>,
               <<"DiagSwitch1e6", A_DS6!DiagChoiceSoundAt(c.fn, c.F)>>,
               <<"EigPowerForwardAll", A_EPF!AutoOptsForwardAt(c.fn, c.F)>>}
        wit == {<<"none", TRUE>>}
    IN [nc |-> {x[1]: x \in {y \in nc: ~y[2]}}, wit |-> {x[1]: x \in {y \in wit: ~y[2]}}]

Out == LET o == AutoOutcome(c.fn, c.F)
           ch == AC_Chain(AC_Base(c.fn, c.F), c.fn, c.F)
       IN [fn |-> c.fn, F |-> c.F, base |-> AC_Base(c.fn, c.F), alg |-> o.alg, exc |-> o.exc, passed |-> o.passed,
           small |-> AC_Small(c.F), matching |-> Cardinality(AC_Matching(ch)), doc |-> AutoDoc(c.fn, c.F),
           docdev |-> AC_KnownDocDeviation(c.fn, c.F), iterbelow |-> (AC_Small(c.F) /\ AC_KnownIterBelow(c.fn, c.F)),
           directabove |-> (~AC_Small(c.F) /\ AC_KnownDirectAbove(c.fn, c.F)), ctl |-> Ctl]
Emit == DoEmit => PrintT(ToJson(Out))
\* the table of structural rules that pre-empt the Auto base case (printed once; compared with the live registry)
Tables == [tables |-> [b \in AC_Bases \ {"none"} |-> AC_Structural(b)],
           fields |-> [a \in AC_DenseAlgs \cup AC_IterAlgs \cup {"Exact"} |-> AC_Fields(a)]]
ASSUME DoEmit => PrintT(ToJson(Tables))

AutoTotal == AutoTotalAt(c.fn, c.F)
AutoUnique == AutoUniqueAt(c.fn, c.F)
AutoContractSmall == AutoContractSmallAt(c.fn, c.F)
AutoContractLarge == AutoContractLargeAt(c.fn, c.F)
AutoContractPSD == AutoContractPSDAt(c.fn, c.F)
AutoMatchesDoc == AutoMatchesDocAt(c.fn, c.F)
DiagChoiceSound == DiagChoiceSoundAt(c.fn, c.F)
\* (held for every entry point except eig before fix 00e9d62; unconditional since)
AutoOptsForward == AutoOptsForwardAt(c.fn, c.F)
=============================================================================
