-------------------------- MODULE MC_AutoChoice --------------------------
(***************************************************************************)
(* Enumeration model for AutoChoice: the state is one (entry point, facts) *)
(* combination; the fact values (shapes on both sides of the 1e6 switch    *)
(* and of the diag threshold, tolerances, option names) come from the      *)
(* generated module AutoFacts (harness/rulesfam2.py; seeded shapes).       *)
(* Facts that an entry point does not read are fixed to their defaults.    *)
(* In every state TLC decides the statements of AutoChoice.tla and prints  *)
(* one JSON line (entry point, facts, chosen algorithm, exception of the   *)
(* hand-over) which the harness replays on the real resolver.              *)
(***************************************************************************)
EXTENDS AutoChoice, AutoFacts, Json, TLC

CONSTANT DoEmit
VARIABLE c
vars == <<c>>

SeqSet(s) == {s[i]: i \in 1..Len(s)}
Shapes == SeqSet(AF_Shapes)          \* [n, m]
AnnSets == SeqSet(AF_Anns)           \* sets of annotation names
Tols == SeqSet(AF_Tols)              \* [def] / [def, p, q]
OptSets == SeqSet(AF_Opts)           \* sets of option names
DefTol == [def |-> TRUE]

Fact(sh, an, tol, k, wh, opts, al) ==
    [anns |-> an, n |-> sh.n, m |-> sh.m, tol |-> tol, k |-> k, which |-> wh, opts |-> opts, alpha |-> al]

ReadsTol(fn) == fn \in {"diag", "trace"}
ReadsK(fn) == fn \in {"eig", "svd"}
Combos ==
    {[fn |-> fn, F |-> Fact(sh, an, tol, k, wh, opts, al)]:
        fn \in AC_Fns, sh \in Shapes, an \in AnnSets, tol \in Tols, k \in {1, 2}, wh \in {"LM", "SM"},
        opts \in OptSets, al \in {"m1", "int", "frac"}}
\* drop the combinations that differ only in a fact the entry point does not read
Relevant(x) ==
    /\ (ReadsTol(x.fn) \/ x.F.tol = DefTol)
    /\ (ReadsK(x.fn) \/ (x.F.k = 2 /\ x.F.which = "LM"))
    /\ (x.fn = "pow" \/ x.F.alpha = "frac")
    \* the tol option is given exactly when the fact says so (diag reads it from the options)
    /\ (ReadsTol(x.fn) => (("tol" \in x.F.opts) <=> ~x.F.tol.def))

Init == c \in {x \in Combos: Relevant(x)}
Next == UNCHANGED c
Spec == Init /\ [][Next]_vars

Out == LET o == AutoOutcome(c.fn, c.F)
           ch == AC_Chain(AC_Base(c.fn, c.F), c.fn, c.F)
       IN [fn |-> c.fn, F |-> c.F, base |-> AC_Base(c.fn, c.F), alg |-> o.alg, exc |-> o.exc,
           small |-> AC_Small(c.F), matching |-> Cardinality(AC_Matching(ch)), doc |-> AutoDoc(c.fn, c.F),
           docdev |-> AC_KnownDocDeviation(c.fn, c.F), iterbelow |-> (AC_Small(c.F) /\ AC_KnownIterBelow(c.fn, c.F)),
           directabove |-> (~AC_Small(c.F) /\ AC_KnownDirectAbove(c.fn, c.F))]
Emit == DoEmit => PrintT(ToJson(Out))
\* the table of structural rules that pre-empt the Auto base case (printed once; compared with the live registry)
Tables == [tables |-> [b \in AC_Bases \ {"none"} |-> AC_Structural(b)],
           fields |-> [a \in AC_DenseAlgs \cup AC_IterAlgs \cup {"Exact"} |-> AC_Fields(a)]]
ASSUME DoEmit => PrintT(ToJson(Tables))

AutoTotal == AutoTotalAt(c.fn, c.F)
AutoUnique == AutoUniqueAt(c.fn, c.F)
AutoContractSmall == AutoContractSmallAt(c.fn, c.F)
AutoContractLarge == AutoContractLargeAt(c.fn, c.F)
AutoContractPSD == AutoContractPSDAt(c.fn, c.F)
AutoMatchesDoc == AutoMatchesDocAt(c.fn, c.F)
DiagChoiceSound == DiagChoiceSoundAt(c.fn, c.F)
AutoOptsForwardExceptEig == AutoOptsForwardExceptEigAt(c.fn, c.F)
\* expected to FAIL (defect witness): eig forwards Lanczos-style options to PowerIteration
AutoOptsForward == AutoOptsForwardAt(c.fn, c.F)
=============================================================================
