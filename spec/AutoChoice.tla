---------------------------- MODULE AutoChoice ----------------------------
(***************************************************************************)
(* The algorithm selection performed by the `alg: Auto` base cases of      *)
(* every entry point of cola.linalg, transcribed from the code at HEAD:    *)
(*   inv / solve          cola/linalg/inverse/inv.py     (match statement) *)
(*   pinv                 cola/linalg/inverse/pinv.py                      *)
(*   slogdet / logdet     cola/linalg/logdet/logdet.py   (if / elif)       *)
(*   diag / trace         cola/linalg/trace/diag_trace.py                  *)
(*   eig / eigmax / eigmin cola/linalg/eig/eigs.py                         *)
(*   svd                  cola/linalg/svd/svd.py                           *)
(*   apply_unary / exp / log / sqrt / isqrt / pow                          *)
(*                        cola/linalg/unary/unary.py                       *)
(*                                                                         *)
(* A selection is a CHAIN of branches  [g, alg, fwd]  in source order:     *)
(* g = the guard evaluated on the facts, alg = the algorithm class that    *)
(* is instantiated, fwd = TRUE when the options of the Auto object are     *)
(* forwarded (`Alg(options of the Auto object as keywords)`), FALSE when they are dropped          *)
(* (`Alg()`).  The code takes the FIRST branch whose guard holds.          *)
(*                                                                         *)
(* Facts  F = [anns  |-> set of annotation names A carries,                *)
(*             n, m  |-> A.shape,                                          *)
(*             tol   |-> [def |-> TRUE] (no tol option: 1e-6) or           *)
(*                       [def |-> FALSE, p, q]  (tol = p / q, q <= 46340), *)
(*             k, which |-> arguments of eig / svd,                        *)
(*             opts  |-> set of option names given to Auto(...),           *)
(*             alpha |-> "m1" | "int" | "frac"   (exponent class of pow)]  *)
(*                                                                         *)
(* All names are prefixed AC_ (or contain Auto) so that the module can be  *)
(* EXTENDed next to Mat / Expr / Annot / LinalgRules.                      *)
(* Integers are 32 bit: n * m < 2^31 is a domain restriction; for the      *)
(* default tolerance 1e-6 the threshold of diag is n * m < 1e11, which is  *)
(* TRUE on the whole domain.                                               *)
(***************************************************************************)
EXTENDS Integers, Sequences, FiniteSets

CONSTANT AutoMutant      \* "none", or the name of a deliberately wrong variant (negative controls)

AC_Implies(a, b) == a = b \/ (a = "PSD" /\ b = "SelfAdjoint") \/ (a = "Unitary" /\ b = "Stiefel")
AC_Isa(anns, b) == \E a \in anns: AC_Implies(a, b)             \* A.isa(b)

AC_Fns == {"inv", "solve", "pinv", "slogdet", "logdet", "diag", "trace", "eig", "eigmax", "eigmin", "svd",
           "apply_unary", "exp", "log", "sqrt", "isqrt", "pow"}
AC_Bases == {"inv", "pinv", "slogdet", "diag", "eig", "svd", "apply_unary", "none"}

\* which Auto rule an entry point reaches (pow: by the class of the exponent, see UnaryEigRules!PowRule)
AC_Base(fn, F) ==
    CASE fn \in {"inv", "solve"} -> "inv"
      [] fn = "pinv" -> "pinv"
      [] fn \in {"slogdet", "logdet"} -> "slogdet"
      [] fn \in {"diag", "trace"} -> "diag"                  \* trace(A, alg) = diag(A, 0, alg).sum()
      [] fn \in {"eig", "eigmax", "eigmin"} -> "eig"
      [] fn = "svd" -> "svd"
      [] fn \in {"apply_unary", "exp", "log", "sqrt", "isqrt"} -> "apply_unary"
      [] fn = "pow" -> IF F.alpha = "m1" THEN "inv" ELSE IF F.alpha = "int" THEN "none" ELSE "apply_unary"
\* eigmax = eig(A, k=1, which='LM'), eigmin = eig(A, k=1, which='SM')
AC_K(fn, F) == IF fn \in {"eigmax", "eigmin"} THEN 1 ELSE F.k
AC_Which(fn, F) == IF fn = "eigmax" THEN "LM" ELSE IF fn = "eigmin" THEN "SM" ELSE F.which

AC_Small(F) == F.n * F.m <= 1000000                           \* np.prod(A.shape) <= 1e6
\* diag:  tol = alg.__dict__.get("tol", 1e-6);  exact_faster = tol < 1 / np.sqrt(10 * np.prod(A.shape))
\*        <=>  10 n m tol^2 < 1  <=>  10 n m p^2 < q^2  <=>  10 n m <= (q^2 - 1) div p^2        (p, q > 0)
AC_ExactFaster(F) ==
    IF F.tol.def THEN TRUE
    ELSE IF F.tol.p = 0 THEN TRUE                             \* tol = 0 is below every positive threshold
    ELSE 10 * F.n * F.m <= (F.tol.q * F.tol.q - 1) \div (F.tol.p * F.tol.p)

AC_Br(g, alg, fwd) == [g |-> g, alg |-> alg, fwd |-> fwd]

AC_Chain(base, fn, F) ==
    LET psd == AC_Isa(F.anns, "PSD")
        sa == AC_Isa(F.anns, "SelfAdjoint")
        small == AC_Small(F)
        k == AC_K(fn, F)
        wh == AC_Which(fn, F)
    IN CASE base = "inv" ->
               \* match (A.isa(PSD), bool(np.prod(A.shape) <= 1e6)):
               <<AC_Br(psd /\ small, IF AutoMutant = "InvSmallCG" THEN "CG" ELSE "Cholesky", FALSE),
                 AC_Br(psd /\ ~small, "CG", TRUE),
                 AC_Br(~psd /\ small, "LU", FALSE),
                 AC_Br(~psd /\ ~small, "GMRES", TRUE)>>
         [] base = "pinv" ->
               <<AC_Br(small, "LSTSQ", FALSE),
                 AC_Br(IF AutoMutant = "PinvOverlap" THEN F.n * F.m >= 1000000 ELSE ~small, "CG", TRUE)>>
         [] base = "slogdet" ->
               <<AC_Br(psd /\ small, IF AutoMutant = "SlogdetPSDLU" THEN "LU" ELSE "Cholesky", FALSE),
                 AC_Br(~psd /\ small, "LU", FALSE),
                 AC_Br(psd /\ ~small, "Lanczos", TRUE),
                 AC_Br(~psd /\ ~small, "Arnoldi", TRUE)>>
         [] base = "diag" ->
               LET ef == IF AutoMutant = "DiagSwitch1e6" THEN small ELSE AC_ExactFaster(F) IN
               <<AC_Br(ef, "Exact", FALSE), AC_Br(~ef, "Hutch", TRUE)>>
         [] base = "eig" ->
               (IF AutoMutant = "EigNoPower" THEN <<>> ELSE <<AC_Br(k = 1 /\ wh = "LM", "PowerIteration", TRUE)>>)
               \o <<AC_Br(sa /\ small, "Eigh", FALSE),
                    AC_Br(~sa /\ small, "Eig", FALSE),
                    AC_Br(sa /\ ~small, "Lanczos", TRUE),
                    AC_Br(~sa /\ ~small, "Arnoldi", TRUE)>>
         [] base = "svd" ->
               <<AC_Br(small, "DenseSVD", FALSE),
                 AC_Br(~small, IF AutoMutant = "SvdLargeDense" THEN "DenseSVD" ELSE "Lanczos", TRUE)>>
         [] base = "apply_unary" ->
               \* psd, small = A.isa(PSD), np.prod(A.shape) <= 1e6      (the docstring says "Hermitian")
               LET h == IF AutoMutant = "UnaryUsesSA" THEN sa ELSE psd
                   full == <<AC_Br(h /\ small, "Eigh", FALSE),
                             AC_Br(~h /\ small, "Eig", FALSE),
                             AC_Br(h /\ ~small, "Lanczos", TRUE),
                             AC_Br(~h /\ ~small, "Arnoldi", TRUE)>>
               IN IF AutoMutant = "UnaryDropLast" THEN SubSeq(full, 1, 3) ELSE full
         [] base = "none" -> <<AC_Br(TRUE, "none", FALSE)>>

AC_Matching(ch) == {i \in 1..Len(ch): ch[i].g}
AC_First(ch) == LET M == AC_Matching(ch) IN IF M = {} THEN 0 ELSE CHOOSE i \in M: \A j \in M: i <= j

\* the concrete algorithm class the Auto rule hands over to ("NONE": no branch fires - the if / elif chains have no
\* else, the call would re-dispatch to the same rule for ever; the match statement of inv asserts)
AutoChoice(fn, F) ==
    LET ch == AC_Chain(AC_Base(fn, F), fn, F)
        i == AC_First(ch)
    IN IF i = 0 THEN "NONE" ELSE ch[i].alg

\* dataclass fields of the algorithm classes (the keyword arguments their constructors accept)
AC_Fields(alg) ==
    CASE alg \in {"CG", "GMRES"} -> {"tol", "max_iters", "pbar", "x0", "P"}
      [] alg \in {"Lanczos", "Arnoldi"} -> {"start_vector", "max_iters", "tol", "pbar", "key"}
      [] alg = "PowerIteration" -> {"tol", "max_iter", "pbar", "key"}
      [] alg = "Hutch" -> {"tol", "max_iters", "bs", "rand", "pbar", "key"}
      [] alg = "Exact" -> {"bs", "pbar"}
      [] OTHER -> {}
\* what the hand-over does with the options: `Alg(options of the Auto object as keywords)` raises TypeError on an unknown keyword
AutoOutcome(fn, F) ==
    LET ch == AC_Chain(AC_Base(fn, F), fn, F)
        i == AC_First(ch)
    IN IF i = 0 THEN [alg |-> "NONE", exc |-> "RecursionError"]
       ELSE IF ch[i].fwd /\ ~(F.opts \subseteq AC_Fields(ch[i].alg)) THEN [alg |-> ch[i].alg, exc |-> "TypeError"]
       ELSE [alg |-> ch[i].alg, exc |-> "none"]

\* operand classes with a structural rule (typed on a proper operator class) that pre-empts the Auto base case;
\* "?" marks a conditional rule
AC_Structural(base) ==
    CASE base = "inv" -> {"Identity", "ScalarMul", "Permutation", "Product?", "BlockDiag", "Kronecker", "Diagonal",
                          "Triangular"}
      [] base = "pinv" -> {"Identity", "ScalarMul", "Diagonal", "Permutation"}
      [] base = "slogdet" -> {"Product?", "Identity", "ScalarMul", "Diagonal", "Kronecker", "BlockDiag", "Triangular",
                              "Permutation"}
      [] base = "diag" -> {"Dense", "Identity", "Diagonal", "Sum", "BlockDiag?", "ScalarMul", "Kronecker?", "KronSum"}
      [] base = "eig" -> {"Identity", "Triangular", "Diagonal"}
      [] base = "svd" -> {"Identity", "Diagonal"}
      [] base = "apply_unary" -> {"Diagonal", "BlockDiag", "Identity", "ScalarMul", "Transpose", "Adjoint"}
      [] OTHER -> {}

---------------------------------------------------------------------------
(* The documented contract.                                                *)
AC_DenseAlgs == {"Cholesky", "LU", "Eigh", "Eig", "DenseSVD", "LSTSQ"}          \* factor / decompose A.to_dense()
AC_IterAlgs == {"CG", "GMRES", "Lanczos", "Arnoldi", "Hutch", "PowerIteration"} \* matrix-free, iterative / stochastic
AC_PSDFamily == {"Cholesky", "CG", "Lanczos", "Eigh"}
\* "Exact" (the diagonal prober) is matrix-free and direct: n products, no dense copy

\* the docstrings of the Auto rules ("if A is PSD and small, use Cholesky ...", "if A is Hermitian and small, use
\* Eigh ..."); "undoc" where the rule has no docstring (slogdet, diag)
AutoDoc(fn, F) ==
    LET base == AC_Base(fn, F)
        psd == AC_Isa(F.anns, "PSD")
        sa == AC_Isa(F.anns, "SelfAdjoint")
        small == AC_Small(F)
    IN CASE base = "inv" -> IF psd THEN (IF small THEN "Cholesky" ELSE "CG") ELSE (IF small THEN "LU" ELSE "GMRES")
         [] base \in {"eig", "apply_unary"} ->
               IF sa THEN (IF small THEN "Eigh" ELSE "Lanczos") ELSE (IF small THEN "Eig" ELSE "Arnoldi")
         [] base = "svd" -> IF small THEN "DenseSVD" ELSE "Lanczos"
         [] base = "pinv" -> IF small THEN "LSTSQ" ELSE "CG"            \* "dense algorithms" / "iterative algorithms"
         [] base = "none" -> "none"
         [] OTHER -> "undoc"

\* recorded deviations of the code from its documentation / from the size contract (findings, see the final report)
AC_PowerBranch(fn, F) == AC_Base(fn, F) = "eig" /\ AC_K(fn, F) = 1 /\ AC_Which(fn, F) = "LM"
AC_UnarySANotPSD(fn, F) == AC_Base(fn, F) = "apply_unary" /\ AC_Isa(F.anns, "SelfAdjoint") /\ ~AC_Isa(F.anns, "PSD")
AC_KnownDocDeviation(fn, F) == AC_PowerBranch(fn, F) \/ AC_UnarySANotPSD(fn, F)
\* iterative below the switch: power iteration for k = 1 'LM'; Hutchinson whenever tol >= 1 / sqrt(10 n m)
AC_KnownIterBelow(fn, F) == AC_PowerBranch(fn, F) \/ (AC_Base(fn, F) = "diag" /\ ~AC_ExactFaster(F))
\* not iterative above the switch: the exact prober (n products) whenever tol < 1 / sqrt(10 n m): diag / trace do
\* not have the 1e6 switch at all
AC_KnownDirectAbove(fn, F) == AC_Base(fn, F) = "diag" /\ AC_ExactFaster(F)

AutoTotalAt(fn, F) == AutoChoice(fn, F) # "NONE"
\* exactly one guard holds, except where the chain is order dependent (recorded: the power-iteration branch of eig)
AutoUniqueAt(fn, F) ==
    LET ch == AC_Chain(AC_Base(fn, F), fn, F) IN (Cardinality(AC_Matching(ch)) > 1) <=> AC_PowerBranch(fn, F)
AutoContractSmallAt(fn, F) ==
    (AC_Small(F) /\ AC_Base(fn, F) # "none") =>
        LET a == AutoChoice(fn, F) IN
        /\ a \in AC_DenseAlgs \cup AC_IterAlgs \cup {"Exact"}
        /\ (a \in AC_IterAlgs) <=> AC_KnownIterBelow(fn, F)
AutoContractLargeAt(fn, F) ==
    (~AC_Small(F) /\ AC_Base(fn, F) # "none") =>
        LET a == AutoChoice(fn, F) IN
        /\ a \notin AC_DenseAlgs                                   \* never a dense factorisation above the switch
        /\ (a \notin AC_IterAlgs) <=> AC_KnownDirectAbove(fn, F)
AutoContractPSDAt(fn, F) ==
    (AC_Isa(F.anns, "PSD") /\ AC_Base(fn, F) \in {"inv", "slogdet", "apply_unary", "eig"} /\ ~AC_PowerBranch(fn, F))
        => AutoChoice(fn, F) \in AC_PSDFamily
AutoMatchesDocAt(fn, F) ==
    AutoDoc(fn, F) # "undoc" => ((AutoChoice(fn, F) # AutoDoc(fn, F)) <=> AC_KnownDocDeviation(fn, F))
DiagChoiceSoundAt(fn, F) ==
    AC_Base(fn, F) = "diag" =>
        ((AutoChoice(fn, F) = "Exact") <=>
            (F.tol.def \/ 10 * F.n * F.m * F.tol.p * F.tol.p < F.tol.q * F.tol.q))
\* an option that one of the algorithms reachable from the entry point accepts never crashes the hand-over.
\* FAILS for eig (recorded defect: PowerIteration spells its iteration cap `max_iter` and has no start_vector, so
\* eigmax(A, Auto(max_iters=10)) raises TypeError while eig(A, 2, 'LM', Auto(max_iters=10)) works)
AC_Forwardable(fn, F) ==
    LET ch == AC_Chain(AC_Base(fn, F), fn, F) IN UNION {IF ch[i].fwd THEN AC_Fields(ch[i].alg) ELSE {}: i \in 1..Len(ch)}
AutoOptsForwardAt(fn, F) ==
    (F.opts \subseteq AC_Forwardable(fn, F)) => AutoOutcome(fn, F).exc = "none"
AutoOptsForwardExceptEigAt(fn, F) == AC_Base(fn, F) # "eig" => AutoOptsForwardAt(fn, F)
=============================================================================
