---------------------------- MODULE AutoChoice ----------------------------
(***************************************************************************)
(* The algorithm selection performed by the `alg: Auto` base cases of      *)
(* every entry point of cola.linalg, transcribed from the code at HEAD:    *)
(*   inv / solve          cola/linalg/inverse/inv.py     (match statement) *)
(*   pinv                 cola/linalg/inverse/pinv.py                      *)
(*   slogdet / logdet     cola/linalg/logdet/logdet.py   (if / elif)       *)
(*   diag / trace         cola/linalg/trace/diag_trace.py                  *)
(*   eig / eigmax / eigmin cola/linalg/eig/eigs.py                         *)
(*   svd                  cola/linalg/svd/svd.py                           *)
(*   apply_unary / exp / log / sqrt / isqrt / pow                          *)
(*                        cola/linalg/unary/unary.py                       *)
(*                                                                         *)
(* A selection is a CHAIN of branches  [g, alg, fwd]  in source order:     *)
(* g = the guard evaluated on the facts, alg = the algorithm class that    *)
(* is instantiated, fwd = "all" when the options of the Auto object are    *)
(* forwarded verbatim as keywords, "drop" when they are dropped (`Alg()`), *)
(* "known" when they are renamed to the algorithm's spelling and filtered  *)
(* to its fields (eig -> PowerIteration since fix 00e9d62).                *)
(* The code takes the FIRST branch whose guard holds.                      *)
(*                                                                         *)
(* Facts  F = [anns  |-> set of annotation names A carries,                *)
(*             n, m  |-> A.shape,                                          *)
(*             tol   |-> [def |-> TRUE] (no tol option: 1e-6) or           *)
(*                       [def |-> FALSE, p, q]  (tol = p / q, q <= 46340), *)
(*             k, which |-> arguments of eig / svd,                        *)
(*             opts  |-> set of option names given to Auto(...),           *)
(*             alpha |-> "m1" | "int" | "frac"   (exponent class of pow)]  *)
(*                                                                         *)
(* All names are prefixed AC_ (or contain Auto) so that the module can be  *)
(* EXTENDed next to Mat / Expr / Annot / LinalgRules.                      *)
(* Integers are 32 bit: n * m < 2^31 is a domain restriction; for the      *)
(* default tolerance 1e-6 the threshold of diag is n * m < 1e11, which is  *)
(* TRUE on the whole domain.                                               *)
(***************************************************************************)
EXTENDS Integers, Sequences, FiniteSets

CONSTANT AutoMutant      \* "none", or the name of a deliberately wrong variant (negative controls)

AC_Implies(a, b) == a = b \/ (a = "PSD" /\ b = "SelfAdjoint") \/ (a = "Unitary" /\ b = "Stiefel")
AC_Isa(anns, b) == \E a \in anns: AC_Implies(a, b)             \* A.isa(b)

AC_Fns == {"inv", "solve", "pinv", "slogdet", "logdet", "diag", "trace", "eig", "eigmax", "eigmin", "svd",
           "apply_unary", "exp", "log", "sqrt", "isqrt", "pow"}
AC_Bases == {"inv", "pinv", "slogdet", "diag", "eig", "svd", "apply_unary", "none"}

\* which Auto rule an entry point reaches (pow: by the class of the exponent, see UnaryEigRules!PowRule)
AC_Base(fn, F) ==
    CASE fn \in {"inv", "solve"} -> "inv"
      [] fn = "pinv" -> "pinv"
      [] fn \in {"slogdet", "logdet"} -> "slogdet"
      [] fn \in {"diag", "trace"} -> "diag"                  \* trace(A, alg) = diag(A, 0, alg).sum()
      [] fn \in {"eig", "eigmax", "eigmin"} -> "eig"
      [] fn = "svd" -> "svd"
      [] fn \in {"apply_unary", "exp", "log", "sqrt", "isqrt"} -> "apply_unary"
      [] fn = "pow" -> IF F.alpha = "m1" THEN "inv" ELSE IF F.alpha = "int" THEN "none" ELSE "apply_unary"
\* eigmax = eig(A, k=1, which='LM'), eigmin = eig(A, k=1, which='SM')
AC_K(fn, F) == IF fn \in {"eigmax", "eigmin"} THEN 1 ELSE F.k
AC_Which(fn, F) == IF fn = "eigmax" THEN "LM" ELSE IF fn = "eigmin" THEN "SM" ELSE F.which

AC_Small(F) == F.n * F.m <= 1000000                           \* np.prod(A.shape) <= 1e6
\* diag:  tol = alg.__dict__.get("tol", 1e-6);  exact_faster = tol < 1 / np.sqrt(10 * np.prod(A.shape))
\*        <=>  10 n m tol^2 < 1  <=>  10 n m p^2 < q^2  <=>  10 n m <= (q^2 - 1) div p^2        (p, q > 0)
AC_ExactFaster(F) ==
    IF F.tol.def THEN TRUE
    ELSE IF F.tol.p = 0 THEN TRUE                             \* tol = 0 is below every positive threshold
    ELSE 10 * F.n * F.m <= (F.tol.q * F.tol.q - 1) \div (F.tol.p * F.tol.p)

AC_Br(g, alg, fwd) == [g |-> g, alg |-> alg, fwd |-> fwd]

AC_Chain(base, fn, F) ==
    LET psd == AC_Isa(F.anns, "PSD")
        sa == AC_Isa(F.anns, "SelfAdjoint")
        small == AC_Small(F)
        k == AC_K(fn, F)
        wh == AC_Which(fn, F)
    IN CASE base = "inv" ->
               \* match (A.isa(PSD), bool(np.prod(A.shape) <= 1e6)):
               <<AC_Br(psd /\ small, IF AutoMutant = "InvSmallCG" THEN "CG" ELSE "Cholesky", "drop"),
                 AC_Br(psd /\ ~small, "CG", "all"),
                 AC_Br(~psd /\ small, "LU", "drop"),
                 AC_Br(~psd /\ ~small, "GMRES", "all")>>
         [] base = "pinv" ->
               <<AC_Br(small, "LSTSQ", "drop"),
                 AC_Br(IF AutoMutant = "PinvOverlap" THEN F.n * F.m >= 1000000 ELSE ~small, "CG", "all")>>
         [] base = "slogdet" ->
               <<AC_Br(psd /\ small, IF AutoMutant = "SlogdetPSDLU" THEN "LU" ELSE "Cholesky", "drop"),
                 AC_Br(~psd /\ small, "LU", "drop"),
                 AC_Br(psd /\ ~small, "Lanczos", "all"),
                 AC_Br(~psd /\ ~small, "Arnoldi", "all")>>
         [] base = "diag" ->
               LET ef == IF AutoMutant = "DiagSwitch1e6" THEN small ELSE AC_ExactFaster(F) IN
               <<AC_Br(ef, "Exact", "drop"), AC_Br(~ef, "Hutch", "all")>>
         [] base = "eig" ->
               (IF AutoMutant = "EigNoPower" THEN <<>> ELSE <<AC_Br(k = 1 /\ wh = "LM", "PowerIteration",
                                                                  IF AutoMutant = "EigPowerForwardAll" THEN "all" ELSE "known")>>)
               \o <<AC_Br(sa /\ small, "Eigh", "drop"),
                    AC_Br(~sa /\ small, "Eig", "drop"),
                    AC_Br(sa /\ ~small, "Lanczos", "all"),
                    AC_Br(~sa /\ ~small, "Arnoldi", "all")>>
         [] base = "svd" ->
               <<AC_Br(small, "DenseSVD", "drop"),
                 AC_Br(~small, IF AutoMutant = "SvdLargeDense" THEN "DenseSVD" ELSE "Lanczos", "all")>>
         [] base = "apply_unary" ->
               \* psd, small = A.isa(PSD), np.prod(A.shape) <= 1e6      (the docstring says "Hermitian")
               LET h == IF AutoMutant = "UnaryUsesSA" THEN sa ELSE psd
                   full == <<AC_Br(h /\ small, "Eigh", "drop"),
                             AC_Br(~h /\ small, "Eig", "drop"),
                             AC_Br(h /\ ~small, "Lanczos", "all"),
                             AC_Br(~h /\ ~small, "Arnoldi", "all")>>
               IN IF AutoMutant = "UnaryDropLast" THEN SubSeq(full, 1, 3) ELSE full
         [] base = "none" -> <<AC_Br(TRUE, "none", "drop")>>

AC_Matching(ch) == {i \in 1..Len(ch): ch[i].g}
AC_First(ch) == LET M == AC_Matching(ch) IN IF M = {} THEN 0 ELSE CHOOSE i \in M: \A j \in M: i <= j

\* the concrete algorithm class the Auto rule hands over to ("NONE": no branch fires - the if / elif chains have no
\* else, the call would re-dispatch to the same rule for ever; the match statement of inv asserts)
AutoChoice(fn, F) ==
    LET ch == AC_Chain(AC_Base(fn, F), fn, F)
        i == AC_First(ch)
    IN IF i = 0 THEN "NONE" ELSE ch[i].alg

\* dataclass fields of the algorithm classes (the keyword arguments their constructors accept)
AC_Fields(alg) ==
    CASE alg \in {"CG", "GMRES"} -> {"tol", "max_iters", "pbar", "x0", "P"}
      [] alg \in {"Lanczos", "Arnoldi"} -> {"start_vector", "max_iters", "tol", "pbar", "key"}
      [] alg = "PowerIteration" -> {"tol", "max_iter", "pbar", "key"}
      [] alg = "Hutch" -> {"tol", "max_iters", "bs", "rand", "pbar", "key"}
      [] alg = "Exact" -> {"bs", "pbar"}
      [] OTHER -> {}
\* what the hand-over does with the options: "all": Alg(options as keywords) raises TypeError on an unknown keyword;
\* "known" (eig -> PowerIteration): max_iters is renamed max_iter, then only the fields of the class are passed
AC_Rename(alg, o) == IF alg = "PowerIteration" /\ o = "max_iters" THEN "max_iter" ELSE o
AC_Unrename(alg, o) == IF alg = "PowerIteration" /\ o = "max_iter" THEN "max_iters" ELSE o
AC_Passed(br, opts) ==
    CASE br.fwd = "all" -> opts
      [] br.fwd = "known" -> {AC_Rename(br.alg, o): o \in opts} \cap AC_Fields(br.alg)
      [] OTHER -> {}
AutoOutcome(fn, F) ==
    LET ch == AC_Chain(AC_Base(fn, F), fn, F)
        i == AC_First(ch)
    IN IF i = 0 THEN [alg |-> "NONE", exc |-> "RecursionError", passed |-> {}]
       ELSE IF ch[i].fwd = "all" /\ ~(F.opts \subseteq AC_Fields(ch[i].alg))
       THEN [alg |-> ch[i].alg, exc |-> "TypeError", passed |-> {}]
       ELSE [alg |-> ch[i].alg, exc |-> "none", passed |-> AC_Passed(ch[i], F.opts)]

\* operand classes with a structural rule (typed on a proper operator class) that pre-empts the Auto base case;
\* "?" marks a conditional rule
AC_Structural(base) ==
    CASE base = "inv" -> {"Identity", "ScalarMul", "Permutation", "Product?", "BlockDiag", "Kronecker", "Diagonal",
                          "Triangular"}
      [] base = "pinv" -> {"Identity", "ScalarMul", "Diagonal", "Permutation"}
      [] base = "slogdet" -> {"Product?", "Identity", "ScalarMul", "Diagonal", "Kronecker", "BlockDiag", "Triangular",
                              "Permutation"}
      [] base = "diag" -> {"Dense", "Identity", "Diagonal", "Sum", "BlockDiag?", "ScalarMul", "Kronecker?", "KronSum"}
      [] base = "eig" -> {"Identity", "Triangular", "Diagonal"}
      [] base = "svd" -> {"Identity", "Diagonal"}
      [] base = "apply_unary" -> {"Diagonal", "BlockDiag", "Identity", "ScalarMul", "Transpose", "Adjoint"}
      [] OTHER -> {}

---------------------------------------------------------------------------
(* The documented contract.                                                *)
AC_DenseAlgs == {"Cholesky", "LU", "Eigh", "Eig", "DenseSVD", "LSTSQ"}          \* factor / decompose A.to_dense()
AC_IterAlgs == {"CG", "GMRES", "Lanczos", "Arnoldi", "Hutch", "PowerIteration"} \* matrix-free, iterative / stochastic
AC_PSDFamily == {"Cholesky", "CG", "Lanczos", "Eigh"}
\* "Exact" (the diagonal prober) is matrix-free and direct: n products, no dense copy

\* the docstrings of the Auto rules ("if A is PSD and small, use Cholesky ...", "if A is Hermitian and small, use
\* Eigh ..."); "undoc" where the rule has no docstring (slogdet, diag)
AutoDoc(fn, F) ==
    LET base == AC_Base(fn, F)
        psd == AC_Isa(F.anns, "PSD")
        sa == AC_Isa(F.anns, "SelfAdjoint")
        small == AC_Small(F)
    IN CASE base = "inv" -> IF psd THEN (IF small THEN "Cholesky" ELSE "CG") ELSE (IF small THEN "LU" ELSE "GMRES")
         [] base \in {"eig", "apply_unary"} ->
               IF sa THEN (IF small THEN "Eigh" ELSE "Lanczos") ELSE (IF small THEN "Eig" ELSE "Arnoldi")
         [] base = "svd" -> IF small THEN "DenseSVD" ELSE "Lanczos"
         [] base = "pinv" -> IF small THEN "LSTSQ" ELSE "CG"            \* "dense algorithms" / "iterative algorithms"
         [] base = "none" -> "none"
         [] OTHER -> "undoc"

\* recorded deviations of the code from its documentation / from the size contract (findings, see the final report)
AC_PowerBranch(fn, F) == AC_Base(fn, F) = "eig" /\ AC_K(fn, F) = 1 /\ AC_Which(fn, F) = "LM"
AC_UnarySANotPSD(fn, F) == AC_Base(fn, F) = "apply_unary" /\ AC_Isa(F.anns, "SelfAdjoint") /\ ~AC_Isa(F.anns, "PSD")
AC_KnownDocDeviation(fn, F) == AC_PowerBranch(fn, F) \/ AC_UnarySANotPSD(fn, F)
\* iterative below the switch: power iteration for k = 1 'LM'; Hutchinson whenever tol >= 1 / sqrt(10 n m)
AC_KnownIterBelow(fn, F) == AC_PowerBranch(fn, F) \/ (AC_Base(fn, F) = "diag" /\ ~AC_ExactFaster(F))
\* not iterative above the switch: the exact prober (n products) whenever tol < 1 / sqrt(10 n m): diag / trace do
\* not have the 1e6 switch at all
AC_KnownDirectAbove(fn, F) == AC_Base(fn, F) = "diag" /\ AC_ExactFaster(F)

AutoTotalAt(fn, F) == AutoChoice(fn, F) # "NONE"
\* exactly one guard holds, except where the chain is order dependent (recorded: the power-iteration branch of eig)
AutoUniqueAt(fn, F) ==
    LET ch == AC_Chain(AC_Base(fn, F), fn, F) IN (Cardinality(AC_Matching(ch)) > 1) <=> AC_PowerBranch(fn, F)
AutoContractSmallAt(fn, F) ==
    (AC_Small(F) /\ AC_Base(fn, F) # "none") =>
        LET a == AutoChoice(fn, F) IN
        /\ a \in AC_DenseAlgs \cup AC_IterAlgs \cup {"Exact"}
        /\ (a \in AC_IterAlgs) <=> AC_KnownIterBelow(fn, F)
AutoContractLargeAt(fn, F) ==
    (~AC_Small(F) /\ AC_Base(fn, F) # "none") =>
        LET a == AutoChoice(fn, F) IN
        /\ a \notin AC_DenseAlgs                                   \* never a dense factorisation above the switch
        /\ (a \notin AC_IterAlgs) <=> AC_KnownDirectAbove(fn, F)
AutoContractPSDAt(fn, F) ==
    (AC_Isa(F.anns, "PSD") /\ AC_Base(fn, F) \in {"inv", "slogdet", "apply_unary", "eig"} /\ ~AC_PowerBranch(fn, F))
        => AutoChoice(fn, F) \in AC_PSDFamily
AutoMatchesDocAt(fn, F) ==
    AutoDoc(fn, F) # "undoc" => ((AutoChoice(fn, F) # AutoDoc(fn, F)) <=> AC_KnownDocDeviation(fn, F))
DiagChoiceSoundAt(fn, F) ==
    AC_Base(fn, F) = "diag" =>
        ((AutoChoice(fn, F) = "Exact") <=>
            (F.tol.def \/ 10 * F.n * F.m * F.tol.p * F.tol.p < F.tol.q * F.tol.q))
\* an option that one of the algorithms reachable from the entry point accepts (in Auto's spelling) never crashes the
\* hand-over.  Before fix 00e9d62 this FAILED for eig (PowerIteration spells its iteration cap `max_iter` and has no
\* start_vector, so eigmax(A, Auto(max_iters=10)) raised TypeError): mutant EigPowerForwardAll.
AC_Forwardable(fn, F) ==
    LET ch == AC_Chain(AC_Base(fn, F), fn, F) IN
    UNION {IF ch[i].fwd = "drop" THEN {} ELSE {AC_Unrename(ch[i].alg, o): o \in AC_Fields(ch[i].alg)}: i \in 1..Len(ch)}
AutoOptsForwardAt(fn, F) ==
    (F.opts \subseteq AC_Forwardable(fn, F)) => AutoOutcome(fn, F).exc = "none"
=============================================================================
