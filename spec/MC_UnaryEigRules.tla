------------------------- MODULE MC_UnaryEigRules -------------------------
(***************************************************************************)
(* Enumeration model for UnaryEigRules (style of MC_LinalgRules): the      *)
(* state is one constructor-level operator tree over the generated leaf    *)
(* catalog UnaryCatalog (leaves with exact eigendecompositions, diagonal / *)
(* identity / scalar leaves, non-square leaves), grown by one constructor  *)
(* application per step.  In every state TLC decides the statements of     *)
(* UnaryEigRules.tla (INVARIANTs) and prints one JSON line: for a fixed    *)
(* list of calls (apply_unary with exact scalar functions, exp, log, sqrt, *)
(* isqrt, pow with 12 exponents, with and without the algorithm argument,  *)
(* eig with k = -1 .. n + 1, 'LM' / 'SM' / an unknown selector) the rules  *)
(* fired in call order, the exception class, the class skeleton of the     *)
(* result and - for exact scalar functions - the exact value, TLC's verdict *)
(* whether it is the true value, and whether the operand is in the rule's  *)
(* domain.  harness/rulesfam2.py replays the lines through the library.    *)
(***************************************************************************)
EXTENDS UnaryEigRules, UnaryCatalog, Json

CONSTANTS MaxLvl, MaxDim, Acts, DoEmit, EntryBound

VARIABLES t, lvl, ph
vars == <<t, lvl, ph>>

Fits(x) == LET s == ShapeOf(x) IN s[1] <= MaxDim /\ s[2] <= MaxDim /\ s[1] >= 1 /\ s[2] >= 1
Seeds == {UC_Seeds[i]: i \in 1..Len(UC_Seeds)}
Operands == {UC_Operands[i]: i \in 1..Len(UC_Operands)}
Smalls == {UC_Small[i]: i \in 1..Len(UC_Small)}

Init == t \in Seeds /\ lvl = 0 /\ ph = "new"

Unary(x) ==
    (IF "Transpose" \in Acts THEN {N("Transpose", <<x>>, NoP)} ELSE {})
    \cup (IF "Adjoint" \in Acts THEN {N("Adjoint", <<x>>, NoP)} ELSE {})
    \cup (IF "NoDispatch" \in Acts THEN {N("NoDispatch", <<x>>, NoP)} ELSE {})
    \cup (IF "Annot" \in Acts /\ x.k # "Annot" /\ ShapeOf(x)[1] <= 4 /\ ShapeOf(x)[2] <= 4
          THEN {N("Annot", <<x>>, [ann |-> a]): a \in {b \in {"PSD", "SelfAdjoint"}: Holds(b, Denote(x))}}
          ELSE {})
Binary(x, o) ==
    (IF "Kronecker" \in Acts THEN {N("Kronecker", <<x, o>>, NoP), N("Kronecker", <<o, x>>, NoP)} ELSE {})
    \cup (IF "KronSum" \in Acts THEN {N("KronSum", <<x, o>>, NoP)} ELSE {})
    \cup (IF "BlockDiag" \in Acts
          THEN {N("BlockDiag", <<x, o>>, [mult |-> m]): m \in {<<1, 1>>, <<2, 1>>}} ELSE {})
    \* scalar multiple c * X; X itself not a (declared) ScalarMul: Annot!Infer reads the kind of the wrapper, the code
    \* the class of the wrapped object (DOMAIN RESTRICTION of the annotation model, not of the rules)
    \cup (IF "Product" \in Acts /\ o.k = "ScalarMul" /\ Strip(x).k # "ScalarMul" THEN {N("Product", <<o, x>>, NoP)} ELSE {})
Ternary(x, o1, o2) ==
    (IF "Kronecker3" \in Acts THEN {N("Kronecker", <<x, o1, o2>>, NoP)} ELSE {})
    \cup (IF "KronSum3" \in Acts THEN {N("KronSum", <<o1, x, o2>>, NoP)} ELSE {})
    \cup (IF "BlockDiag3" \in Acts THEN {N("BlockDiag", <<x, o1, o2>>, [mult |-> <<1, 2, 1>>])} ELSE {})

Accept(n) == WellFormed(n) /\ Fits(n) /\ EntriesWithin(Denote(n), EntryBound)
Step(n) == /\ lvl < MaxLvl /\ Accept(n)
           /\ t' = n /\ lvl' = lvl + 1 /\ ph' = "new"
Grow == /\ ph = "done" /\ lvl < MaxLvl
        /\ \/ \E n \in Unary(t): Step(n)
           \/ \E o \in Operands: \E n \in Binary(t, o): Step(n)
           \/ \E o1 \in Smalls: \E o2 \in Smalls: \E n \in Ternary(t, o1, o2): Step(n)
Decide == ph = "new" /\ ph' = "done" /\ UNCHANGED <<t, lvl>>
Next == Decide \/ Grow
Spec == Init /\ [][Next]_vars

---------------------------------------------------------------------------
\* exact scalar functions used with apply_unary
F_P2 == F_Poly(<<QInt(1), QInt(0), QInt(1)>>)                  \* x^2 + 1
F_R1 == F_Rat(<<QInt(1), QInt(2)>>, <<QInt(7), QInt(1)>>)      \* (1 + 2 x) / (7 + x)
F_CI == F_Poly(<<QInt(1), Q(0, 1, 1)>>)                        \* 1 + i x      (not conjugation symmetric)
ExactFs == <<[id |-> "P2", f |-> F_P2], [id |-> "R1", f |-> F_R1], [id |-> "CI", f |-> F_CI]>>

QA(p, q) == [n |-> p, d |-> q]
UC(id, fn, f, al, hasalg, alg) == [id |-> id, fn |-> fn, f |-> f, al |-> al, hasalg |-> hasalg, alg |-> alg]
NoF == F_Opaque("none")
AUC(i, a) == UC("au:" \o ExactFs[i].id \o ":" \o a, "apply_unary", ExactFs[i].f, QA(0, 1), a # "Auto", a)
AUCalls == <<AUC(1, "Auto"), AUC(1, "Eig"), AUC(1, "Eigh"), AUC(2, "Auto"), AUC(3, "Auto"), AUC(3, "Eigh")>>
PowAlphas == <<QA(-2, 1), QA(-1, 1), QA(0, 1), QA(1, 1), QA(2, 1), QA(3, 1), QA(9, 1), QA(10, 1),
               QA(1, 2), QA(5, 2), QA(200001, 100000), QA(20001, 10000)>>
PowAlphasAlg == <<QA(-1, 1), QA(0, 1), QA(2, 1), QA(5, 2)>>
AlphaId(al) == ToString(al.n) \o "/" \o ToString(al.d)
PowCalls ==
    [i \in 1..Len(PowAlphas) |-> UC("pow:" \o AlphaId(PowAlphas[i]) \o ":none", "pow", NoF, PowAlphas[i], FALSE, "Auto")]
    \o [i \in 1..Len(PowAlphasAlg) |->
            UC("pow:" \o AlphaId(PowAlphasAlg[i]) \o ":Auto", "pow", NoF, PowAlphasAlg[i], TRUE, "Auto")]
    \o [j \in 1..4 |-> LET a == <<"Eig", "Eigh", "Lanczos", "Arnoldi">>[j] IN
            UC("pow:-1/1:" \o a, "pow", NoF, QA(-1, 1), TRUE, a)]
    \o <<UC("pow:2/1:Eig", "pow", NoF, QA(2, 1), TRUE, "Eig"), UC("pow:5/2:Eigh", "pow", NoF, QA(5, 2), TRUE, "Eigh")>>
OtherCalls ==
    <<UC("exp:none", "exp", NoF, QA(0, 1), FALSE, "Auto"), UC("exp:Auto", "exp", NoF, QA(0, 1), TRUE, "Auto"),
      UC("exp:Eigh", "exp", NoF, QA(0, 1), TRUE, "Eigh"), UC("exp:Arnoldi", "exp", NoF, QA(0, 1), TRUE, "Arnoldi"),
      UC("log:none", "log", NoF, QA(0, 1), FALSE, "Auto"), UC("log:Lanczos", "log", NoF, QA(0, 1), TRUE, "Lanczos"),
      UC("sqrt:none", "sqrt", NoF, QA(1, 2), FALSE, "Auto"), UC("sqrt:Auto", "sqrt", NoF, QA(1, 2), TRUE, "Auto"),
      UC("sqrt:Eig", "sqrt", NoF, QA(1, 2), TRUE, "Eig"),
      UC("isqrt:none", "isqrt", NoF, QA(-1, 2), FALSE, "Auto"), UC("isqrt:Eigh", "isqrt", NoF, QA(-1, 2), TRUE, "Eigh")>>
UCalls == AUCalls \o OtherCalls \o PowCalls

RunU(c) ==
    CASE c.fn = "apply_unary" -> AURule(c.f, t, c.alg)
      [] c.fn = "exp" -> ExpRule(t, c.hasalg, c.alg)
      [] c.fn = "log" -> LogRule(t, c.hasalg, c.alg)
      [] c.fn = "sqrt" -> SqrtRule(t, c.hasalg, c.alg)
      [] c.fn = "isqrt" -> ISqrtRule(t, c.hasalg, c.alg)
      [] c.fn = "pow" -> PowRule(t, c.al, c.hasalg, c.alg)
\* the scalar function whose value the call returns (an exponent within np.isclose of an integer IS that integer)
FOf(c) ==
    CASE c.fn = "apply_unary" -> c.f
      [] c.fn \in {"exp", "log"} -> F_Opaque(c.fn)
      [] OTHER -> IF IntLike(c.al) THEN F_IPow(RoundQ(c.al)) ELSE F_PowQ(c.al)
TameFor(f, s) == (IF f.k = "ipow" THEN PowTameS(t, s, f.e) ELSE LamWithin(s, 60)) /\ ValsTame(f, s)
DomOf(c, f) ==
    IF c.fn \in {"sqrt", "isqrt", "pow"} /\ ~IntLike(c.al) THEN PowDomain(f, c.al.d, t)
    ELSE IF c.fn = "pow" THEN TRUE ELSE AUDomain(f, t)

\* compact emission: the six resolutions of inv(V) inside the Eig base case are one token, skeletons are strings
RECURSIVE Compress(_)
Compress(c) ==
    IF c = <<>> THEN <<>>
    ELSE IF Len(c) >= Len(ELU) /\ SubSeq(c, 1, Len(ELU)) = ELU THEN <<"@ELU">> \o Compress(SubSeq(c, Len(ELU) + 1, Len(c)))
    ELSE <<Head(c)>> \o Compress(Tail(c))
RECURSIVE SkelStr(_)
SkelStr(k) ==
    LET RECURSIVE J(_)
        J(i) == IF i > Len(k.a) THEN "" ELSE (IF i > 1 THEN "," ELSE "") \o SkelStr(k.a[i]) \o J(i + 1)
    IN IF Len(k.a) = 0 THEN k.k ELSE k.k \o "[" \o J(1) \o "]"
\* calls whose exact value is computed and printed (the others: rule selection, exception, skeleton)
ValIds == {"au:P2:Auto", "au:P2:Eig", "au:R1:Auto", "au:CI:Auto", "sqrt:none", "isqrt:none", "pow:-2/1:none", "pow:-1/1:none",
           "pow:0/1:none", "pow:1/1:none", "pow:2/1:none", "pow:3/1:none", "pow:9/1:none", "pow:10/1:none",
           "pow:200001/100000:none", "pow:-1/1:Eig"}
WantVal(id) == id \in ValIds
UOut(c, s) ==
    LET r == RunU(c)
        f == FOf(c)
        hasval == WantVal(c.id) /\ OK(r) /\ HasSpecG(t) /\ IsSq(t) /\ FExact(f) /\ SpecDefAll(f, s) /\ TameFor(f, s) /\ ValDefS(r.val, t, s)
        v == MNormalize(MatVS(r.val, t, s))
    IN [id |-> c.id, calls |-> Compress(r.calls), exc |-> r.exc, skel |-> IF OK(r) THEN SkelStr(SkelU(r.val)) ELSE "Raise",
        f |-> f.name, hasval |-> hasval,
        val |-> IF hasval THEN v ELSE Zero(0, 0),
        dom |-> IF hasval THEN DomOf(c, f) ELSE TRUE,
        sound |-> IF hasval THEN MEq(v, SumLamP(FSpecM(f, s))) ELSE TRUE]

\* eig calls
EigKs == LET n == ShapeOf(t)[1] IN {-1, 0, 1, 2, n, n + 1}
EC(k, wh, alg) == [k |-> k, which |-> wh, alg |-> alg]
EigCalls ==
    {EC(k, wh, "Auto"): k \in EigKs, wh \in {"LM", "SM"}}
    \cup {EC(2, "XX", "Auto"), EC(2, "LM", "Eig"), EC(1, "LM", "Eig"), EC(2, "SM", "Eigh"), EC(1, "LM", "PowerIteration"),
          EC(2, "LM", "PowerIteration")}
EOut(c, bag) ==
    LET r == EigRuleB(t, bag, c.k, c.which, c.alg) IN
    [k |-> c.k, which |-> c.which, alg |-> c.alg, calls |-> r.calls, exc |-> r.exc,
     vals |-> IF OK(r) THEN r.val.vals ELSE <<>>, amb |-> IF OK(r) THEN r.val.amb ELSE FALSE,
     approx |-> IF OK(r) THEN r.val.approx ELSE FALSE]
SetToSeqAny(S) ==
    LET RECURSIVE F(_)
        F(T) == IF T = {} THEN <<>> ELSE LET x == CHOOSE y \in T: TRUE IN <<x>> \o F(T \ {x})
    IN F(S)

---------------------------------------------------------------------------
(* In-run negative controls and defect witnesses.  Every wrong rule variant is an instance of the rule module with the *)
(* CONSTANT Mutant substituted; its statement is evaluated next to the real one in the states selected by CtlDim /      *)
(* CtlLvl, and the names of the mutants whose statement is FALSE in the state are printed ("nc").  A control is caught  *)
(* when it is FALSE in some state (while the invariant of the unchanged rules holds in all).  "wit": the statements     *)
(* without their domain restriction that are FALSE in the state (defects of the code, confirmed by the replay).         *)
Algs3 == {"Auto", "Eig", "Eigh"}
FracAlphas == {QHalf, QMHalf}
IntKs == {-1, 0, 1, 2, 3, 9}
SqT == IsSq(t)
CONSTANTS CtlDim, CtlLvl        \* controls are evaluated on trees with at most CtlDim rows at level <= CtlLvl (0: never)
M_UBNM == INSTANCE UnaryEigRules WITH Mutant <- "UnaryBlockNoMult"
M_UTAA == INSTANCE UnaryEigRules WITH Mutant <- "UnaryTransposeAsAdjoint"
M_UINF == INSTANCE UnaryEigRules WITH Mutant <- "UnaryIdentityNoF"
M_PKKS == INSTANCE UnaryEigRules WITH Mutant <- "PowKronAsKronSum"
M_WNC == INSTANCE UnaryEigRules WITH Mutant <- "WindNoCarry"
M_PIO == INSTANCE UnaryEigRules WITH Mutant <- "PowIntOffByOne"
M_PNI == INSTANCE UnaryEigRules WITH Mutant <- "PowNegOneNoInv"
M_EKS == INSTANCE UnaryEigRules WITH Mutant <- "ExpKronSumAsKronSum"
M_ESA == INSTANCE UnaryEigRules WITH Mutant <- "EigSortAlgebraic"
M_ELH == INSTANCE UnaryEigRules WITH Mutant <- "EigLMHead"
M_ETR == INSTANCE UnaryEigRules WITH Mutant <- "EigTriFirstRow"
M_UANC == INSTANCE UnaryEigRules WITH Mutant <- "UnaryAdjointNoConj"
M_PKNS == INSTANCE UnaryEigRules WITH Mutant <- "PowKronNoSquareGuard"
CtlState == CtlDim > 0 /\ ShapeOf(t)[1] <= CtlDim /\ lvl <= CtlLvl
UFs == {ExactFs[i].f: i \in 1..Len(ExactFs)}
EigArgs == {<<k, wh, a>>: k \in 1..ShapeOf(t)[1], wh \in {"LM", "SM"}, a \in {"Auto", "Eig"}}
CtlOut ==
    LET s == SpecG(t)
        hs == HasSpecG(t) /\ IsSq(t)
        bag == SpecBag(s)
        nc == {<<"UnaryBlockNoMult", \A f \in UFs: M_UBNM!UnarySoundAtS(t, s, f, "Auto")>>,
               <<"UnaryTransposeAsAdjoint", \A f \in UFs: M_UTAA!UnarySoundAtS(t, s, f, "Auto")>>,
               <<"UnaryIdentityNoF", \A f \in UFs: M_UINF!UnarySoundAtS(t, s, f, "Auto")>>,
               <<"UnaryAdjointNoConj", \A f \in UFs: M_UANC!UnarySoundAtS(t, s, f, "Auto")>>,
               <<"PowKronNoSquareGuard", \A k \in 0..9: M_PKNS!PowIntCompleteAt(t, k, "Auto")>>,
               <<"PowKronAsKronSum", \A al \in FracAlphas: M_PKKS!PowFracSoundAtS(t, s, al, "Auto")>>,
               <<"WindNoCarry", \A al \in FracAlphas: M_WNC!PowKronDomainAt(t, al, "Auto")>>,
               <<"PowIntOffByOne", \A k \in {1, 2}: M_PIO!PowIntSoundAtS(t, s, k, "Auto")>>,
               <<"PowNegOneNoInv", M_PNI!PowIntSoundAtS(t, s, -1, "Auto")>>,
               <<"ExpKronSumAsKronSum", M_EKS!ExpKronSumSoundAt(t, "Auto")>>,
               <<"EigSortAlgebraic", hs => \A x \in EigArgs: M_ESA!EigSoundAtB(t, bag, x[1], x[2], x[3])>>,
               <<"EigLMHead", hs => \A x \in EigArgs: M_ELH!EigSoundAtB(t, bag, x[1], x[2], x[3])>>,
               <<"EigTriFirstRow", hs => \A x \in EigArgs: M_ETR!EigSoundAtB(t, bag, x[1], x[2], x[3])>>}
        wit == {<<"PowKronSoundEverywhere", \A al \in FracAlphas: PowFracSoundEverywhereAt(t, al, "Auto")>>,
                <<"EigRuleSoundEverywhere", hs => \A wh \in {"LM", "SM"}: EigSoundEverywhereAt(t, 0, wh, "Auto")>>}
    IN [nc |-> {x[1]: x \in {y \in nc: ~y[2]}}, wit |-> {x[1]: x \in {y \in wit: ~y[2]}}]

Out ==
    LET hs == HasSpecG(t) /\ IsSq(t)
        s == SpecG(t)
    IN [t |-> t, lvl |-> lvl, sh |-> ShapeOf(t), sq |-> IsSq(t), hasspec |-> hs, anns |-> Infer(t),
        herm |-> (IsSq(t) /\ IsHermitian(Denote(t))),
        spec |-> IF hs THEN [i \in 1..Len(s) |-> [lam |-> s[i].lam, P |-> MNormalize(s[i].P), mult |-> Mult(s[i])]] ELSE <<>>,
        un |-> [i \in 1..Len(UCalls) |-> UOut(UCalls[i], s)],
        eig |-> IF hs THEN LET cs == SetToSeqAny(EigCalls) IN [i \in 1..Len(cs) |-> EOut(cs[i], SpecBag(s))] ELSE <<>>,
        ctl |-> IF CtlState THEN CtlOut ELSE [nc |-> {}, wit |-> {}], ctlstate |-> CtlState,
        guards |-> [powkron |-> PowKronGuard, powkronsquare |-> PowKronSquareGuard, adjoint |-> UnaryAdjointGuard]]
Chk == ph = "done"
Emit == (DoEmit /\ Chk) => PrintT(ToJson(Out))

---------------------------------------------------------------------------

SpecGInv == Chk => SpecGValid(t)
UnaryRuleSound == Chk => LET s == SpecG(t) IN \A i \in 1..Len(ExactFs): \A a \in Algs3: UnarySoundAtS(t, s, ExactFs[i].f, a)
PowFracSound == Chk => LET s == SpecG(t) IN \A al \in FracAlphas: PowFracSoundAtS(t, s, al, "Auto")
PowKronDomain == Chk => \A al \in FracAlphas: PowKronDomainAt(t, al, "Auto")
PowIntSound == Chk => LET s == SpecG(t) IN
                      /\ \A k \in IntKs: PowIntSoundAtS(t, s, k, "Auto")
                      /\ PowIntSoundAtS(t, s, -1, "Eig") /\ PowIntSoundAtS(t, s, 10, "Auto") /\ PowIntSoundAtS(t, s, -2, "Auto")
PowIntComplete == Chk => \A k \in 0..9: PowIntCompleteAt(t, k, "Auto")
ExpKronSumSound == Chk => ExpKronSumSoundAt(t, "Auto")
EigRuleSound ==
    (Chk /\ HasSpecG(t) /\ SqT) =>
        LET bag == SpecBag(SpecG(t)) IN
        \A k \in 1..ShapeOf(t)[1]: \A wh \in {"LM", "SM"}: \A a \in {"Auto", "Eig"}: EigSoundAtB(t, bag, k, wh, a)
\* ---- expected to FAIL (defect witnesses, run separately by the harness)
PowKronSoundEverywhere == Chk => \A al \in FracAlphas: PowFracSoundEverywhereAt(t, al, "Auto")
EigRuleSoundEverywhere ==
    (Chk /\ HasSpecG(t) /\ SqT) => \A wh \in {"LM", "SM"}: EigSoundEverywhereAt(t, 0, wh, "Auto")
ShapeConsistent == Chk => LET d == Denote(t) IN <<d.r, d.c>> = ShapeOf(t)
=============================================================================
