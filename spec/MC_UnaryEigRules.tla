------------------------- MODULE MC_UnaryEigRules -------------------------
(***************************************************************************)
(* Enumeration model for UnaryEigRules (style of MC_LinalgRules): the      *)
(* state is one constructor-level operator tree over the generated leaf    *)
(* catalog UnaryCatalog (leaves with exact eigendecompositions, diagonal / *)
(* identity / scalar leaves, non-square leaves), grown by one constructor  *)
(* application per step.  In every state TLC decides the statements of     *)
(* UnaryEigRules.tla (INVARIANTs) and prints one JSON line: for a fixed    *)
(* list of calls (apply_unary with exact scalar functions, exp, log, sqrt, *)
(* isqrt, pow with 13 exponents, with and without the algorithm argument,  *)
(* eig with k = -1 .. n + 1, 'LM' / 'SM' / an unknown selector) the rules  *)
(* fired in call order, the exception class, the class skeleton of the     *)
(* result and - for exact scalar functions - the exact value, TLC's verdict *)
(* whether it is the true value, and whether the operand is in the rule's  *)
(* domain.  harness/rulesfam2.py replays the lines through the library.    *)
(***************************************************************************)
EXTENDS UnaryEigRules, UnaryCatalog, Json

CONSTANTS MaxLvl, MaxDim, Acts, DoEmit, EntryBound

VARIABLES t, lvl, ph
vars == <<t, lvl, ph>>

Fits(x) == LET s == ShapeOf(x) IN s[1] <= MaxDim /\ s[2] <= MaxDim /\ s[1] >= 1 /\ s[2] >= 1
Seeds == {UC_Seeds[i]: i \in 1..Len(UC_Seeds)}
Operands == {UC_Operands[i]: i \in 1..Len(UC_Operands)}
Smalls == {UC_Small[i]: i \in 1..Len(UC_Small)}

Init == t \in Seeds /\ lvl = 0 /\ ph = "new"

Unary(x) ==
    (IF "Transpose" \in Acts THEN {N("Transpose", <<x>>, NoP)} ELSE {})
    \cup (IF "Adjoint" \in Acts THEN {N("Adjoint", <<x>>, NoP)} ELSE {})
    \cup (IF "NoDispatch" \in Acts THEN {N("NoDispatch", <<x>>, NoP)} ELSE {})
    \cup (IF "Annot" \in Acts /\ x.k # "Annot" /\ ShapeOf(x)[1] <= 4 /\ ShapeOf(x)[2] <= 4
          THEN {N("Annot", <<x>>, [ann |-> a]): a \in {b \in {"PSD", "SelfAdjoint"}: Holds(b, Denote(x))}}
          ELSE {})
Binary(x, o) ==
    (IF "Kronecker" \in Acts THEN {N("Kronecker", <<x, o>>, NoP), N("Kronecker", <<o, x>>, NoP)} ELSE {})
    \cup (IF "KronSum" \in Acts THEN {N("KronSum", <<x, o>>, NoP)} ELSE {})
    \cup (IF "BlockDiag" \in Acts
          THEN {N("BlockDiag", <<x, o>>, [mult |-> m]): m \in {<<1, 1>>, <<2, 1>>}} ELSE {})
    \cup (IF "Product" \in Acts /\ o.k = "ScalarMul" THEN {N("Product", <<o, x>>, NoP)} ELSE {})
Ternary(x, o1, o2) ==
    (IF "Kronecker3" \in Acts THEN {N("Kronecker", <<x, o1, o2>>, NoP)} ELSE {})
    \cup (IF "KronSum3" \in Acts THEN {N("KronSum", <<o1, x, o2>>, NoP)} ELSE {})
    \cup (IF "BlockDiag3" \in Acts THEN {N("BlockDiag", <<x, o1, o2>>, [mult |-> <<1, 2, 1>>])} ELSE {})

Accept(n) == WellFormed(n) /\ Fits(n) /\ EntriesWithin(Denote(n), EntryBound)
Step(n) == /\ lvl < MaxLvl /\ Accept(n)
           /\ t' = n /\ lvl' = lvl + 1 /\ ph' = "new"
Grow == /\ ph = "done" /\ lvl < MaxLvl
        /\ \/ \E n \in Unary(t): Step(n)
           \/ \E o \in Operands: \E n \in Binary(t, o): Step(n)
           \/ \E o1 \in Smalls: \E o2 \in Smalls: \E n \in Ternary(t, o1, o2): Step(n)
Decide == ph = "new" /\ ph' = "done" /\ UNCHANGED <<t, lvl>>
Next == Decide \/ Grow
Spec == Init /\ [][Next]_vars

---------------------------------------------------------------------------
\* exact scalar functions used with apply_unary
F_P2 == F_Poly(<<QInt(1), QInt(0), QInt(1)>>)                  \* x^2 + 1
F_R1 == F_Rat(<<QInt(1), QInt(2)>>, <<QInt(7), QInt(1)>>)      \* (1 + 2 x) / (7 + x)
F_CI == F_Poly(<<QInt(1), Q(0, 1, 1)>>)                        \* 1 + i x      (not conjugation symmetric)
ExactFs == <<[id |-> "P2", f |-> F_P2], [id |-> "R1", f |-> F_R1], [id |-> "CI", f |-> F_CI]>>

QA(p, q) == [n |-> p, d |-> q]
UC(id, fn, f, al, hasalg, alg) == [id |-> id, fn |-> fn, f |-> f, al |-> al, hasalg |-> hasalg, alg |-> alg]
NoF == F_Opaque("none")
AUCalls == Flatten([i \in 1..Len(ExactFs) |->
              [j \in 1..3 |-> LET a == <<"Auto", "Eig", "Eigh">>[j] IN
                  UC("au:" \o ExactFs[i].id \o ":" \o a, "apply_unary", ExactFs[i].f, QA(0, 1), j > 1, a)]])
PowAlphas == <<QA(-2, 1), QA(-1, 1), QA(0, 1), QA(1, 1), QA(2, 1), QA(3, 1), QA(5, 1), QA(9, 1), QA(10, 1),
               QA(1, 2), QA(5, 2), QA(200001, 100000), QA(20001, 10000)>>
AlphaId(al) == ToString(al.n) \o "/" \o ToString(al.d)
PowCalls ==
    Flatten([i \in 1..Len(PowAlphas) |->
        <<UC("pow:" \o AlphaId(PowAlphas[i]) \o ":none", "pow", NoF, PowAlphas[i], FALSE, "Auto"),
          UC("pow:" \o AlphaId(PowAlphas[i]) \o ":Auto", "pow", NoF, PowAlphas[i], TRUE, "Auto")>>])
    \o [j \in 1..4 |-> LET a == <<"Eig", "Eigh", "Lanczos", "Arnoldi">>[j] IN
            UC("pow:-1/1:" \o a, "pow", NoF, QA(-1, 1), TRUE, a)]
    \o <<UC("pow:2/1:Eig", "pow", NoF, QA(2, 1), TRUE, "Eig"), UC("pow:5/2:Eigh", "pow", NoF, QA(5, 2), TRUE, "Eigh")>>
OtherCalls ==
    <<UC("exp:none", "exp", NoF, QA(0, 1), FALSE, "Auto"), UC("exp:Auto", "exp", NoF, QA(0, 1), TRUE, "Auto"),
      UC("exp:Eigh", "exp", NoF, QA(0, 1), TRUE, "Eigh"), UC("exp:Arnoldi", "exp", NoF, QA(0, 1), TRUE, "Arnoldi"),
      UC("log:none", "log", NoF, QA(0, 1), FALSE, "Auto"), UC("log:Lanczos", "log", NoF, QA(0, 1), TRUE, "Lanczos"),
      UC("sqrt:none", "sqrt", NoF, QA(1, 2), FALSE, "Auto"), UC("sqrt:Auto", "sqrt", NoF, QA(1, 2), TRUE, "Auto"),
      UC("sqrt:Eig", "sqrt", NoF, QA(1, 2), TRUE, "Eig"),
      UC("isqrt:none", "isqrt", NoF, QA(-1, 2), FALSE, "Auto"), UC("isqrt:Eigh", "isqrt", NoF, QA(-1, 2), TRUE, "Eigh")>>
UCalls == AUCalls \o OtherCalls \o PowCalls

RunU(c) ==
    CASE c.fn = "apply_unary" -> AURule(c.f, t, c.alg)
      [] c.fn = "exp" -> ExpRule(t, c.hasalg, c.alg)
      [] c.fn = "log" -> LogRule(t, c.hasalg, c.alg)
      [] c.fn = "sqrt" -> SqrtRule(t, c.hasalg, c.alg)
      [] c.fn = "isqrt" -> ISqrtRule(t, c.hasalg, c.alg)
      [] c.fn = "pow" -> PowRule(t, c.al, c.hasalg, c.alg)
\* the scalar function whose value the call returns (an exponent within np.isclose of an integer IS that integer)
FOf(c) ==
    CASE c.fn = "apply_unary" -> c.f
      [] c.fn \in {"exp", "log"} -> F_Opaque(c.fn)
      [] OTHER -> IF IntLike(c.al) THEN F_IPow(RoundQ(c.al)) ELSE F_PowQ(c.al)
TameFor(f) == IF f.k = "ipow" THEN PowTame(t, Abs(f.e)) ELSE LamWithin(SpecG(t), 60)
DomOf(c, f) ==
    IF c.fn \in {"sqrt", "isqrt", "pow"} /\ ~IntLike(c.al) THEN PowDomain(f, c.al.d, t)
    ELSE IF c.fn = "pow" THEN TRUE ELSE AUDomain(f, t)

UOut(c) ==
    LET r == RunU(c)
        f == FOf(c)
        hasval == OK(r) /\ HasSpecG(t) /\ IsSq(t) /\ FExact(f) /\ SpecDefAll(f, SpecG(t)) /\ ValDef(r.val) /\ TameFor(f)
        v == MNormalize(MatV(r.val))
    IN [id |-> c.id, calls |-> r.calls, exc |-> r.exc, skel |-> IF OK(r) THEN SkelU(r.val) ELSE SL("Raise"),
        f |-> f.name, hasval |-> hasval,
        val |-> IF hasval THEN v ELSE Zero(0, 0),
        dom |-> IF hasval THEN DomOf(c, f) ELSE TRUE,
        sound |-> IF hasval THEN MEq(v, SumLamP(FSpecM(f, SpecG(t)))) ELSE TRUE]

\* eig calls
EigKs == LET n == ShapeOf(t)[1] IN {-1, 0, 1, 2, n, n + 1}
EC(k, wh, alg) == [k |-> k, which |-> wh, alg |-> alg]
EigCalls ==
    {EC(k, wh, "Auto"): k \in EigKs, wh \in {"LM", "SM"}}
    \cup {EC(2, "XX", "Auto"), EC(2, "LM", "Eig"), EC(1, "LM", "Eig"), EC(2, "SM", "Eigh"), EC(1, "LM", "PowerIteration"),
          EC(2, "LM", "PowerIteration")}
EOut(c) ==
    LET r == EigRule(t, c.k, c.which, c.alg) IN
    [k |-> c.k, which |-> c.which, alg |-> c.alg, calls |-> r.calls, exc |-> r.exc,
     vals |-> IF OK(r) THEN r.val.vals ELSE <<>>, amb |-> IF OK(r) THEN r.val.amb ELSE FALSE,
     approx |-> IF OK(r) THEN r.val.approx ELSE FALSE]
SetToSeqAny(S) ==
    LET RECURSIVE F(_)
        F(T) == IF T = {} THEN <<>> ELSE LET x == CHOOSE y \in T: TRUE IN <<x>> \o F(T \ {x})
    IN F(S)

Out ==
    LET hs == HasSpecG(t) /\ IsSq(t)
        s == SpecG(t)
    IN [t |-> t, lvl |-> lvl, sh |-> ShapeOf(t), sq |-> IsSq(t), hasspec |-> hs, anns |-> Infer(t),
        herm |-> (IsSq(t) /\ IsHermitian(Denote(t))),
        spec |-> IF hs THEN [i \in 1..Len(s) |-> [lam |-> s[i].lam, P |-> MNormalize(s[i].P), mult |-> Mult(s[i])]] ELSE <<>>,
        un |-> [i \in 1..Len(UCalls) |-> UOut(UCalls[i])],
        eig |-> IF hs THEN LET cs == SetToSeqAny(EigCalls) IN [i \in 1..Len(cs) |-> EOut(cs[i])] ELSE <<>>,
        guards |-> [powkron |-> PowKronGuard, powkronsquare |-> PowKronSquareGuard, adjoint |-> UnaryAdjointGuard]]
Chk == ph = "done"
Emit == (DoEmit /\ Chk) => PrintT(ToJson(Out))

---------------------------------------------------------------------------
Algs3 == {"Auto", "Eig", "Eigh"}
FracAlphas == {QHalf, QMHalf}
IntKs == {-1, 0, 1, 2, 3, 5, 9}
SqT == IsSq(t)

SpecGInv == Chk => SpecGValid(t)
UnaryRuleSound == Chk => \A i \in 1..Len(ExactFs): \A a \in Algs3: UnarySoundAt(t, ExactFs[i].f, a)
PowFracSound == Chk => \A al \in FracAlphas: PowFracSoundAt(t, al, "Auto")
PowKronDomain == Chk => \A al \in FracAlphas: PowKronDomainAt(t, al, "Auto")
PowIntSound == Chk => /\ \A k \in IntKs: PowIntSoundAt(t, k, "Auto")
                      /\ PowIntSoundAt(t, -1, "Eig") /\ PowIntSoundAt(t, 10, "Auto") /\ PowIntSoundAt(t, -2, "Auto")
PowIntComplete == Chk => \A k \in 0..9: PowIntCompleteAt(t, k, "Auto")
ExpKronSumSound == Chk => ExpKronSumSoundAt(t, "Auto")
EigRuleSound ==
    (Chk /\ HasSpecG(t) /\ SqT) =>
        \A k \in 1..ShapeOf(t)[1]: \A wh \in {"LM", "SM"}: \A a \in {"Auto", "Eig"}: EigSoundAt(t, k, wh, a)
\* ---- expected to FAIL (defect witnesses, run separately by the harness)
UnaryRuleSoundEverywhere == Chk => \A i \in 1..Len(ExactFs): UnarySoundEverywhereAt(t, ExactFs[i].f, "Auto")
PowKronSoundEverywhere == Chk => \A al \in FracAlphas: PowFracSoundEverywhereAt(t, al, "Auto")
PowIntCompleteEverywhere == Chk => \A k \in 0..9: PowIntCompleteEverywhereAt(t, k, "Auto")
EigRuleSoundEverywhere ==
    (Chk /\ HasSpecG(t) /\ SqT) => \A wh \in {"LM", "SM"}: EigSoundEverywhereAt(t, 0, wh, "Auto")
ShapeConsistent == Chk => LET d == Denote(t) IN <<d.r, d.c>> = ShapeOf(t)
=============================================================================
