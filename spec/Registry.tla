------------------------------ MODULE Registry ------------------------------
(***************************************************************************)
(* Model of cola's per-class attribute registry (`_dynamic`), property C18 *)
(* "flatten leaves are exactly the array parameters, regardless of which   *)
(* operators were constructed earlier in the process".                     *)
(*                                                                         *)
(* Mechanism (cola/ops/operator_base.py, cola/backends/backends.py):       *)
(*  - every operator class owns a map attribute -> is-array-parameter;     *)
(*    a class's map is a COPY of its parent's at class creation time       *)
(*    (AutoRegisteringPyTree.__init__); plum creates parametric subclasses *)
(*    such as Product[Dense, Dense] lazily, at first instantiation;        *)
(*  - LinearOperator.__setattr__: the FIRST assignment of an attribute     *)
(*    name in a class decides once and for all:                            *)
(*       dynamic  iff  the value is an array or an operator, or some leaf  *)
(*                     of tree_flatten(value) is an array                  *)
(*    (the leaves of nested operators are taken under THEIR classes' maps  *)
(*    as they are at that moment);                                         *)
(*  - tree_flatten: attributes in sorted order, dynamic ones contribute    *)
(*    the leaves of their value, the others go to the static aux data.     *)
(*                                                                         *)
(* The generated module RegistryModel carries the instance templates       *)
(* extracted from the current tree:                                        *)
(*   RG_Inst[i]  = [cls, attrs |-> <<[n, first, fin]>>, sorted]            *)
(*       first / fin: shape of the value at first assignment / finally,    *)
(*       a shape is [dd |-> value itself is an array or operator,          *)
(*                   items |-> optree-ordered leaves:                      *)
(*                      [t |-> "arr" | "na" | "op", p |-> path, i |-> inst]] *)
(*   RG_Templates[k] = [name, root, ev |-> <<[i, a]>>]  the first          *)
(*       assignments performed while the template is built, in order.      *)
(***************************************************************************)
EXTENDS Integers, Sequences, FiniteSets, TLC, RegistryModel

VARIABLES dyn, born

RECURSIVE Flat(_, _)
Flat(ss, k) == IF k > Len(ss) THEN <<>> ELSE ss[k] \o Flat(ss, k + 1)

(* ---- leaves of an instance under a registry ---- *)
RECURSIVE Leaves(_, _, _)
RECURSIVE ItemLeaves(_, _, _)
ItemLeaves(items, d, pre) ==
    Flat([k \in 1..Len(items) |->
            LET it == items[k] IN
            CASE it.t = "arr" -> << <<"arr", pre \o it.p>> >>
              [] it.t = "na"  -> << <<"na", pre \o it.p>> >>
              [] it.t = "op"  -> Leaves(it.i, d, pre \o it.p)], 1)
Leaves(i, d, pre) ==
    LET inst == RG_Inst[i] IN
    Flat([k \in 1..Len(inst.sorted) |->
            LET at == inst.attrs[inst.sorted[k]] IN
            IF d[inst.cls][at.n] = "dyn" THEN ItemLeaves(at.fin.items, d, pre \o <<at.n>>) ELSE <<>>], 1)

(* ---- the oracle: every array reachable from the instance, same order ---- *)
RECURSIVE ArrayParams(_, _)
RECURSIVE ItemParams(_, _)
ItemParams(items, pre) ==
    Flat([k \in 1..Len(items) |->
            LET it == items[k] IN
            CASE it.t = "arr" -> << <<"arr", pre \o it.p>> >>
              [] it.t = "na"  -> <<>>
              [] it.t = "op"  -> ArrayParams(it.i, pre \o it.p)], 1)
ArrayParams(i, pre) ==
    LET inst == RG_Inst[i] IN
    Flat([k \in 1..Len(inst.sorted) |-> ItemParams(inst.attrs[inst.sorted[k]].fin.items, pre \o <<inst.attrs[inst.sorted[k]].n>>)], 1)

(* ---- __setattr__'s first-assignment rule ---- *)
HasArrayLeaf(items, d) ==
    \E k \in 1..Len(items):
        \/ items[k].t = "arr"
        \/ /\ items[k].t = "op"
           /\ LET ls == Leaves(items[k].i, d, <<>>) IN \E q \in 1..Len(ls): ls[q][1] = "arr"
Cond(shape, d) == shape.dd \/ HasArrayLeaf(shape.items, d)

(* ---- lazy class creation: copy of the parent's map ---- *)
RECURSIVE Birth(_, _, _)
Birth(c, d, b) ==
    IF c \in b THEN [dyn |-> d, born |-> b]
    ELSE LET p == RG_Parent[c]
             r == IF p = "" THEN [dyn |-> d, born |-> b] ELSE Birth(p, d, b)
         IN [dyn |-> IF p = "" THEN r.dyn ELSE [r.dyn EXCEPT ![c] = r.dyn[p]], born |-> r.born \cup {c}]

RECURSIVE Apply(_, _, _, _)
Apply(ev, j, d, b) ==
    IF j > Len(ev) THEN [dyn |-> d, born |-> b]
    ELSE LET inst == RG_Inst[ev[j].i]
             at == inst.attrs[ev[j].a]
             r == Birth(inst.cls, d, b)
             d2 == IF r.dyn[inst.cls][at.n] = "unset"
                   THEN [r.dyn EXCEPT ![inst.cls][at.n] = IF Cond(at.first, r.dyn) THEN "dyn" ELSE "static"]
                   ELSE r.dyn
         IN Apply(ev, j + 1, d2, r.born)

After(t) == Apply(RG_Templates[t].ev, 1, dyn, born)

Init == dyn = RG_Dyn0 /\ born = RG_Born0

Construct(t) == LET r == After(t) IN dyn' = r.dyn /\ born' = r.born

(* what flatten() of template t yields if it is constructed in the current state, and the oracle *)
Probe(t) == Leaves(RG_Templates[t].root, After(t).dyn, <<>>)
Oracle(t) == ArrayParams(RG_Templates[t].root, <<>>)

(* THE PROPERTY: in every reachable state, for every template *)
HistoryIndependent == \A t \in 1..Len(RG_Templates): Probe(t) = Oracle(t)
=============================================================================
