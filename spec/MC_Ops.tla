------------------------------ MODULE MC_Ops ------------------------------
(***************************************************************************)
(* Enumeration of cola operator expressions with their exact denotation.   *)
(*                                                                         *)
(* State: one expression tree `t` under construction.  Each action applies *)
(* one public constructor / combinator / overloaded Python operator to `t` *)
(* (and to operands from the catalog).  TLC visits every tree up to the    *)
(* level bound; for each distinct state the invariant Emit prints one JSON *)
(* line {tree, well-formed?, exact dense matrix, definitional dtype} that  *)
(* the conformance harness replays through the real library.  Invariants   *)
(* on the model itself: shape/denotation consistency, involution laws.     *)
(***************************************************************************)
EXTENDS Expr, PyIndex, Annot, Spectral, Catalog, Json, TLC

CONSTANTS MaxLvl,      \* number of combinator applications
          MaxDim,      \* bound on rows and on columns of every tree
          Acts,        \* enabled action names
          DoEmit,      \* print JSON lines
          EntryBound   \* bound on |re|, |im|, denominator of every entry (32-bit safety)

VARIABLES t, lvl, ok
vars == <<t, lvl, ok>>

Fits(x) == LET s == ShapeOf(x) IN s[1] <= MaxDim /\ s[2] <= MaxDim /\ s[1] >= 1 /\ s[2] >= 1

Init == /\ t \in {SeedLeaves[i]: i \in 1..Len(SeedLeaves)}
        /\ lvl = 0
        /\ ok = TRUE

FullSlice == [t |-> "slice", s |-> <<None, None, None>>]
Ops == {OperandLeaves[i]: i \in 1..Len(OperandLeaves)}
Small == {SmallLeaves[i]: i \in 1..Len(SmallLeaves)}

\* constructor-level results (cola.ops.*)
Unary(x) ==
    (IF "Transpose" \in Acts THEN {N("Transpose", <<x>>, NoP)} ELSE {})
    \cup (IF "Adjoint" \in Acts THEN {N("Adjoint", <<x>>, NoP)} ELSE {})
    \cup (IF "NoDispatch" \in Acts THEN {N("NoDispatch", <<x>>, NoP)} ELSE {})
    \cup (IF "op_T" \in Acts THEN {N("op_T", <<x>>, NoP)} ELSE {})
    \cup (IF "op_H" \in Acts THEN {N("op_H", <<x>>, NoP)} ELSE {})
    \cup (IF "op_neg" \in Acts THEN {N("op_neg", <<x>>, NoP)} ELSE {})
    \cup (IF "Sliced" \in Acts
          THEN LET s == ShapeOf(x) IN
               {N("Sliced", <<x>>, [rf |-> SliceForms[i], cf |-> SliceForms[j],
                                    rows |-> Resolve(SliceForms[i], s[1]),
                                    cols |-> Resolve(SliceForms[j], s[2])]):
                  <<i, j>> \in {ij \in (1..Len(SliceForms)) \X (1..Len(SliceForms)):
                                  /\ FormOK(SliceForms[ij[1]], s[1]) /\ FormOK(SliceForms[ij[2]], s[2])
                                  /\ (ij[1] + ij[2] + s[1]) % SliceStride = 0}}
          ELSE {})
    \cup (IF "Annot" \in Acts /\ ShapeOf(x)[1] <= 5 /\ ShapeOf(x)[2] <= 5
          THEN {N("Annot", <<x>>, [ann |-> a]):
                  a \in {b \in AnnNames: /\ (b = "SelfAdjoint" \/ (ShapeOf(x)[1] <= 4 /\ ShapeOf(x)[2] <= 4))
                                         /\ Holds(b, Denote(x))}}   \* (exact PSD test: 2^n minors, dims <= 4)
          ELSE {})
    \cup (IF "SelfProd" \in Acts THEN {N("SelfProd", <<x>>, NoP)} ELSE {})
    \cup (IF "GramWin" \in Acts THEN {N("GramWinH", <<x>>, NoP), N("GramWinT", <<x>>, NoP)} ELSE {})
    \cup (IF "Gram" \in Acts
          THEN {N("GramT", <<x>>, NoP), N("GramH", <<x>>, NoP), N("GramHr", <<x>>, NoP)} ELSE {})
    \cup (IF "op_getitem" \in Acts
          THEN LET s == ShapeOf(x) IN
               {N("op_getitem", <<x>>, [rf |-> IndexForms[i], cf |-> IndexForms[j], single |-> FALSE,
                                        rows |-> Resolve(IndexForms[i], s[1]),
                                        cols |-> Resolve(IndexForms[j], s[2])]):
                  <<i, j>> \in {ij \in (1..Len(IndexForms)) \X (1..Len(IndexForms)):
                                  /\ FormOK(IndexForms[ij[1]], s[1]) /\ FormOK(IndexForms[ij[2]], s[2])
                                  /\ (IndexForms[ij[1]].t = "list") = (IndexForms[ij[2]].t = "list")
                                  /\ (IndexForms[ij[1]].t = "list" =>
                                        Len(IndexForms[ij[1]].v) = Len(IndexForms[ij[2]].v))
                                  /\ (ij[1] + ij[2] + s[1]) % SliceStride = 0}}
               \cup
               {N("op_getitem", <<x>>, [rf |-> IndexForms[i], cf |-> FullSlice, single |-> TRUE,
                                        rows |-> Resolve(IndexForms[i], s[1]),
                                        cols |-> Resolve(FullSlice, s[2])]):
                  i \in {k \in 1..Len(IndexForms): FormOK(IndexForms[k], s[1]) /\ IndexForms[k].t # "list"}}
          ELSE {})
    \cup (IF "op_densify" \in Acts THEN {N("op_densify", <<x>>, NoP)} ELSE {})
    \cup (IF "op_rdiv" \in Acts /\ ShapeOf(x)[1] = ShapeOf(x)[2] /\ ShapeOf(x)[1] <= 3
          THEN IF ~EntriesWithin(Denote(x), 10) \/ MIsSingular(Denote(x)) THEN {}
               ELSE {N("op_rdiv", <<x>>, Scalars[i]): i \in {j \in 1..Len(Scalars): ~QIsZero(Scalars[j].c)}}
          ELSE {})
    \cup (IF "op_scalar" \in Acts
          THEN UNION {{N("op_smul", <<x>>, Scalars[i]), N("op_rsmul", <<x>>, Scalars[i])}: i \in 1..Len(Scalars)}
               \cup {N("op_div", <<x>>, Scalars[i]): i \in {j \in 1..Len(Scalars): ~QIsZero(Scalars[j].c)}}
          ELSE {})

Binary(x, o) ==
    (IF "Product" \in Acts THEN {N("Product", <<x, o>>, NoP), N("Product", <<o, x>>, NoP)} ELSE {})
    \cup (IF "Sum" \in Acts THEN {N("Sum", <<x, o>>, NoP)} ELSE {})
    \cup (IF "Kronecker" \in Acts THEN {N("Kronecker", <<x, o>>, NoP), N("Kronecker", <<o, x>>, NoP)} ELSE {})
    \cup (IF "KronSum" \in Acts THEN {N("KronSum", <<x, o>>, NoP)} ELSE {})
    \cup (IF "BlockDiag" \in Acts
          THEN {N("BlockDiag", <<x, o>>, [mult |-> m]): m \in {<<1, 1>>, <<2, 1>>, <<1, 2>>}} ELSE {})
    \cup (IF "Concatenated" \in Acts
          THEN {N("Concatenated", <<x, o>>, [axis |-> ax]): ax \in {0, 1}} ELSE {})
    \cup (IF "op_matmul" \in Acts THEN {N("op_matmul", <<x, o>>, NoP), N("op_matmul", <<o, x>>, NoP)} ELSE {})
    \cup (IF "op_add" \in Acts THEN {N("op_add", <<x, o>>, NoP), N("op_sub", <<x, o>>, NoP)} ELSE {})
    \cup (IF "op_kron" \in Acts THEN {N("op_kron", <<x, o>>, NoP), N("op_kron", <<o, x>>, NoP)} ELSE {})
    \cup (IF "op_kronsum" \in Acts THEN {N("op_kronsum", <<x, o>>, NoP)} ELSE {})
    \cup (IF "op_block_diag" \in Acts THEN {N("op_block_diag", <<x, o>>, [mult |-> <<1, 1>>])} ELSE {})

Ternary(x, o1, o2) ==
    (IF "Kronecker3" \in Acts THEN {N("Kronecker", <<x, o1, o2>>, NoP), N("Kronecker", <<o1, x, o2>>, NoP)} ELSE {})
    \cup (IF "KronSum3" \in Acts THEN {N("KronSum", <<o1, x, o2>>, NoP)} ELSE {})
    \cup (IF "Sum3" \in Acts THEN {N("Sum", <<o1, o2, x>>, NoP)} ELSE {})
    \cup (IF "Product3" \in Acts THEN {N("Product", <<o1, x, o2>>, NoP)} ELSE {})
    \cup (IF "BlockDiag3" \in Acts THEN {N("BlockDiag", <<x, o1, o2>>, [mult |-> <<1, 2, 1>>])} ELSE {})
    \cup (IF "op_sum" \in Acts THEN {N("op_sum", <<x, o1, o2>>, NoP)} ELSE {})

\* shape errors are reachable on purpose (the property demands a rejection) when "errors" is enabled
\* entries stay small enough that no 32-bit overflow can occur while the next action is evaluated
Accept(n) == IF WellFormed(n) THEN Fits(n) /\ EntriesWithin(Denote(n), EntryBound)
             ELSE "errors" \in Acts /\ n.k \in {"op_matmul", "op_add", "op_sub", "op_sum", "Product", "Sum"}
\* results that are arrays, not operators: nothing can be applied to them
Terminal(n) == \/ n.k \in {"op_getitem", "op_densify"}
               \/ n.k = "op_matmul" /\ \E i \in 1..Len(n.a): n.a[i].k = "Array"

Step(n) == /\ ok /\ lvl < MaxLvl
           /\ Accept(n)
           /\ t' = n /\ lvl' = lvl + 1 /\ ok' = (WellFormed(n) /\ ~Terminal(n))

Next == /\ ok /\ lvl < MaxLvl
        /\ \/ \E n \in Unary(t): Step(n)
           \/ \E o \in Ops: \E n \in Binary(t, o): Step(n)
           \/ \E o1 \in Small: \E o2 \in Small: \E n \in Ternary(t, o1, o2): Step(n)

Spec == Init /\ [][Next]_vars

---------------------------------------------------------------------------
\* exact linear-algebra facts of a square tree (determinant, inverse, definiteness) for C06/C07/C08/C11
LinalgFacts(d) ==
    LET dn == DetN(d)
        \* the inverse is only formed when |det|^2 and det * adjugate fit comfortably in 32 bits
        nz == dn # CZ /\ Abs(dn[1]) <= 2000 /\ Abs(dn[2]) <= 2000 /\ d.d <= 8
    IN [t |-> t, wf |-> TRUE, dense |-> d, dt |-> DTypeOf(t), lvl |-> lvl,
        true_anns |-> TrueAnns(d), infer |-> IF CtorOnly(t) THEN Infer(t) ELSE {},
        det |-> Det(d), singular |-> (dn = CZ), nonsing |-> nz, pd |-> IsPD(d),
        inv |-> IF nz THEN MInverse(d) ELSE Zero(1, 1)]

LinalgOut ==
    LET d == Denote(t)
    IN IF d.r >= 5 /\ ~(d.d = 1 /\ RowNormBound(d, 1073741824) < 1073741824)
       THEN [t |-> t, wf |-> TRUE, dense |-> d, dt |-> DTypeOf(t), lvl |-> lvl, nodet |-> TRUE]   \* minors may not fit 32 bits
       ELSE LinalgFacts(d)

\* exact spectral decomposition (verified against Denote by SpecInv) for C09 / C10
SpectralOut ==
    LET d == Denote(t)
        s == SpecOf(t)
        herm == IsHermitian(d)
        psd == herm /\ \A i \in 1..Len(s): s[i].lam.n[2] = 0 /\ s[i].lam.n[1] >= 0
    IN [t |-> t, wf |-> TRUE, dense |-> d, dt |-> DTypeOf(t), lvl |-> lvl,
        true_anns |-> (IF herm THEN {"SelfAdjoint"} ELSE {}) \cup (IF psd THEN {"PSD"} ELSE {}),
        spec |-> [i \in 1..Len(s) |-> [lam |-> s[i].lam, P |-> MNormalize(s[i].P), mult |-> Mult(s[i])]]]

Out == IF WellFormed(t)
       THEN IF "spectral" \in Acts /\ HasSpec(t) THEN SpectralOut
            ELSE IF "linalg" \in Acts /\ ShapeOf(t)[1] = ShapeOf(t)[2] /\ ShapeOf(t)[1] <= 8 THEN LinalgOut
            ELSE IF "anns" \in Acts
            THEN LET d == Denote(t) IN
                 [t |-> t, wf |-> TRUE, dense |-> d, dt |-> DTypeOf(t), lvl |-> lvl,
                  true_anns |-> TrueAnns(d), ctor |-> CtorOnly(t),
                  infer |-> IF CtorOnly(t) THEN Infer(t) ELSE {},
                  unsound |-> IF CtorOnly(t) THEN Unsound(t) ELSE {}]
            ELSE [t |-> t, wf |-> TRUE, dense |-> Denote(t), dt |-> DTypeOf(t), lvl |-> lvl]
       ELSE [t |-> t, wf |-> FALSE, lvl |-> lvl]
Emit == IF DoEmit THEN PrintT(ToJson(Out)) ELSE TRUE

\* every declaration wrapper in the tree (created by the Annot action or supplied in a seed) is true of its operand
RECURSIVE AnnotsHold(_)
AnnotsHold(x) == /\ (x.k = "Annot" => Holds(x.p.ann, Denote(x.a[1])))
                 /\ \A i \in 1..Len(x.a): AnnotsHold(x.a[i])
AnnotTrue == WellFormed(t) => AnnotsHold(t)
\* model-level sanity: the shape calculus agrees with the denotation
ShapeConsistent == WellFormed(t) => LET d == Denote(t) IN <<d.r, d.c>> = ShapeOf(t)
\* transposing / taking the adjoint twice is the identity on denotations
\* the structural spectral decomposition is a spectral decomposition of the denoted matrix
SpecInv == ("spectral" \in Acts /\ WellFormed(t) /\ HasSpec(t)) => SpectralValid(t)
\* the modelled inference never reports a false annotation (known to fail: see known_findings.json, C05)
InferSound == (WellFormed(t) /\ CtorOnly(t)) => Unsound(t) = {}
Involution == WellFormed(t) => /\ MEq(MTr(MTr(Denote(t))), Denote(t))
                    /\ MEq(MAdj(MAdj(Denote(t))), Denote(t))
=============================================================================
