---------------------------- MODULE HutchControl ----------------------------
(***************************************************************************)
(* C17, Hutchinson part: the estimator formula as coded in                 *)
(* cola/linalg/trace/diagonal_estimation.py (probe z, z2 = roll(z, -k)     *)
(* with the wrapped entries zeroed, estimator = ((A z) * z2)[slc]) is      *)
(* modelled as index arithmetic on exact integer matrices.                 *)
(*                                                                         *)
(* For Rademacher probes the expectation is a FINITE sum over the 2^n sign *)
(* vectors, so TLC decides unbiasedness exactly:                           *)
(*      sum_z Est(M, z, k) = 2^n * DiagK(M, k)          (Unbiased)         *)
(* and the exact variance  sum_z Est^2 / 2^n - mean^2 = sum_{j # l} M_pj^2 *)
(* (VarianceFormula), which is 0 exactly when the row has no entry off the *)
(* requested diagonal: then EVERY probe returns the exact entry            *)
(* (z_l^2 = 1) - clause "Rademacher probes on diagonal operators are       *)
(* exact".  Only second moments of the probes enter the expectation, and   *)
(* E[z_j z_l] = delta_jl for normal probes too; their variance adds        *)
(* 2 * M_pl^2 (fourth moment 3).                                           *)
(*                                                                         *)
(* The printed records (expected diagonal, variance numerators) are the    *)
(* oracle against which the harness tests cola's estimates (equality when  *)
(* the variance is 0, |z| <= 6 standard errors otherwise).                 *)
(***************************************************************************)
EXTENDS Integers, Sequences, FiniteSets, Json, TLC, HutchCatalog

\* HutchCatalog (generated): HC_Cases == << [name, n, k, m |-> <<row_1, .., row_n>>] , ... >>

VARIABLE ci
Init == ci \in 1..Len(HC_Cases)
Next == FALSE /\ ci' = ci
Spec == Init /\ [][Next]_ci

Abs(x) == IF x < 0 THEN -x ELSE x
RECURSIVE Pow2(_)
Pow2(n) == IF n = 0 THEN 1 ELSE 2 * Pow2(n - 1)
RECURSIVE SumSeq(_, _)
SumSeq(s, j) == IF j > Len(s) THEN 0 ELSE s[j] + SumSeq(s, j + 1)

SignVectors(n) == [1..n -> {-1, 1}]

(* --- the coded index arithmetic, 1-based --- *)
Roll(z, n, k) == [p \in 1..n |-> z[((p - 1 + k + n) % n) + 1]]          \* np.roll(z, -k, 0)
Zeroed(n, k) == IF k <= 0 THEN 1..Abs(k) ELSE (n - Abs(k) + 1)..n         \* update_array(z2, 0, ...)
Z2(z, n, k) == LET r == Roll(z, n, k) IN [p \in 1..n |-> IF p \in Zeroed(n, k) THEN 0 ELSE r[p]]
Slc(n, k) == IF -k > 0 THEN (Abs(k) + 1)..n ELSE 1..(n - Abs(k))         \* positions kept, ascending
MatVec(m, z, n) == [p \in 1..n |-> SumSeq([j \in 1..n |-> m[p][j] * z[j]], 1)]
\* estimator at kept position p (one probe)
EstAt(m, z, n, k, p) == MatVec(m, z, n)[p] * Z2(z, n, k)[p]

(* --- the definitional diagonal: position p of the kept range holds entry (p, p + k) --- *)
ColOf(p, k) == p + k
DiagEntry(m, k, p) == m[p][ColOf(p, k)]

RECURSIVE SumOver(_, _, _)
SumOver(S, f(_), acc) == IF S = {} THEN acc ELSE LET x == CHOOSE y \in S: TRUE IN SumOver(S \ {x}, f, acc + f(x))

SumEst(c, p) == SumOver(SignVectors(c.n), LAMBDA z: EstAt(c.m, z, c.n, c.k, p), 0)
SumEstSq(c, p) == SumOver(SignVectors(c.n), LAMBDA z: EstAt(c.m, z, c.n, c.k, p) * EstAt(c.m, z, c.n, c.k, p), 0)

VarRad(c, p) == SumSeq([j \in 1..c.n |-> IF j = ColOf(p, c.k) THEN 0 ELSE c.m[p][j] * c.m[p][j]], 1)
VarNormal(c, p) == VarRad(c, p) + 2 * DiagEntry(c.m, c.k, p) * DiagEntry(c.m, c.k, p)

Kept(c) == Slc(c.n, c.k)
LengthOk(c) == Cardinality(Kept(c)) = c.n - Abs(c.k)
Unbiased(c) == \A p \in Kept(c): SumEst(c, p) = Pow2(c.n) * DiagEntry(c.m, c.k, p)
VarianceFormula(c) ==
    \A p \in Kept(c): SumEstSq(c, p) = Pow2(c.n) * (VarRad(c, p) + DiagEntry(c.m, c.k, p) * DiagEntry(c.m, c.k, p))
\* zero variance <=> every single Rademacher probe is exact
ExactWhenVarZero(c) ==
    \A p \in Kept(c): (VarRad(c, p) = 0) <=>
        (\A z \in SignVectors(c.n): EstAt(c.m, z, c.n, c.k, p) = DiagEntry(c.m, c.k, p))

EstimatorCorrect == LET c == HC_Cases[ci] IN LengthOk(c) /\ Unbiased(c) /\ VarianceFormula(c) /\ ExactWhenVarZero(c)

SetToSortedSeq(S) == LET lo == CHOOSE x \in S: \A y \in S: x <= y IN [q \in 1..Cardinality(S) |-> lo + q - 1]
Emit == LET c == HC_Cases[ci]
            ps == IF Kept(c) = {} THEN <<>> ELSE SetToSortedSeq(Kept(c)) IN
        PrintT(ToJson([ci |-> ci, name |-> c.name, k |-> c.k,
                       diag |-> [q \in 1..Len(ps) |-> DiagEntry(c.m, c.k, ps[q])],
                       vrad |-> [q \in 1..Len(ps) |-> VarRad(c, ps[q])],
                       vnorm |-> [q \in 1..Len(ps) |-> VarNormal(c, ps[q])]]))
=============================================================================
