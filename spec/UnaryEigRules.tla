--------------------------- MODULE UnaryEigRules ---------------------------
(***************************************************************************)
(* Mechanism model of cola's matrix-function and eigenvalue rules:         *)
(*   cola/linalg/unary/unary.py  apply_unary exp log pow sqrt isqrt        *)
(*                               (AURule ExpRule LogRule PowRule ...)      *)
(*   cola/linalg/eig/eigs.py     eig eigmax eigmin + select_eigs/get_slice *)
(*                               of decompositions.py       (EigRule)      *)
(* transcribed from the code at HEAD, in the style of LinalgRules.tla:     *)
(* every rule returns Res(calls, exc, val) = (plum signatures resolved in  *)
(* call order, escaping exception class, value).  The Auto base cases are  *)
(* delegated to AutoChoice.tla.                                            *)
(*                                                                         *)
(* Values.  f is transcendental in general, so the rule bodies are stated  *)
(* over the spectral decomposition  A = sum_i lam_i P_i  (Spectral.tla):   *)
(* the value of a rule is a tree whose leaves are applications of f to a   *)
(* leaf operand (Diagonal(f(diag)), f(c) I, V f(D) V^-1) and whose inner   *)
(* nodes are the structural constructors the rule bodies use (BlockDiag    *)
(* with multiplicities, Kronecker, Transpose, Adjoint); SpecV(val) is the  *)
(* spectral decomposition of that tree computed from the leaves' ones, and *)
(* the soundness statements say it EQUALS (same eigenvalues, same          *)
(* projectors)  FSpecM(f, SpecG(t)) = { f(lam_i), P_i }  of the whole.     *)
(* TLC evaluates them for exact scalar functions only:                     *)
(*   poly (Gaussian-rational coefficients), rat = poly / poly, ipow        *)
(*   (integer exponent, negative = reciprocal), sqrt / isqrt (principal    *)
(*   branch, defined on squares of Gaussian rationals), exp2 (2^x on       *)
(*   integers: an exact exponential, a^(x+y) = a^x a^y).                   *)
(* For exp / log / non-integer powers other than +-1/2 the model gives     *)
(* rule selection, exceptions and class skeleton only (kind "opaque").     *)
(*                                                                         *)
(* Guards (recorded; where the code has none TLC exhibits witnesses and    *)
(* the conformance harness confirms that the real code returns the model's *)
(* wrong value):                                                           *)
(*   PowKronGuard    = "none": pow(Kronecker, a) = Kronecker(pow(M_i, a))  *)
(*      for every a; for a = p/q not an integer it is an identity iff q    *)
(*      divides the winding number of every tuple of factor eigenvalues    *)
(*      (sum of principal arguments = Arg(product) + 2 pi k);   OPEN       *)
(*   PowKronSquareGuard: since fix 32ca66c the rule is conditional on      *)
(*      square factors (before, it recursed into non-square factors of a   *)
(*      square Kronecker product: mutant PowKronNoSquareGuard);            *)
(*   UnaryAdjointGuard: since fix 415da5a apply_unary(f, Adjoint(A)) =     *)
(*      Adjoint(apply_unary(fbar, A)) with fbar(z) = conj f(conj z), an    *)
(*      identity for every f (before, f itself was passed on, which needs  *)
(*      f(conj z) = conj f(z): mutant UnaryAdjointNoConj).                 *)
(***************************************************************************)
EXTENDS LinalgRules, Spectral, AutoChoice

PowKronGuard == "none"
PowKronSquareGuard == "all factors square (conditional rule, fix 32ca66c)"
UnaryAdjointGuard == "not needed: the function is conjugated (fix 415da5a)"

---------------------------------------------------------------------------
(* 1.  Exact scalar functions on Gaussian rationals                        *)
Fn(k, c, d, e, name) == [k |-> k, c |-> c, d |-> d, e |-> e, name |-> name]
F_Poly(c) == Fn("poly", c, <<>>, 0, "poly")             \* c0 + c1 x + c2 x^2 + ...   (coefficients: rational scalars)
F_Rat(c, d) == Fn("rat", c, d, 0, "rat")               \* poly(c) / poly(d)
F_IPow(e) == Fn("ipow", <<>>, <<>>, e, "ipow")          \* x^e, e an integer
F_Sqrt == Fn("sqrt", <<>>, <<>>, 0, "sqrt")
F_ISqrt == Fn("isqrt", <<>>, <<>>, 0, "isqrt")
F_Exp2 == Fn("exp2", <<>>, <<>>, 0, "exp2")             \* 2^x on integers
F_Opaque(name) == Fn("opaque", <<>>, <<>>, 0, name)
F_Bar(f) == Fn("bar", <<f>>, <<>>, 0, f.name)   \* fbar(z) = conj(f(conj(z)))
RECURSIVE FExact(_)
FExact(f) == IF f.k = "bar" THEN FExact(f.c[1]) ELSE f.k # "opaque"

RECURSIVE Horner(_, _)
Horner(c, x) == IF c = <<>> THEN QInt(0) ELSE QNorm(QAdd(Head(c), QMul(x, Horner(Tail(c), x))))

\* principal square root of a Gaussian rational that is the square of one:  x = (a + b i) / d;
\* (u + v i)^2 = (a + b i) d  gives the root (u + v i) / d;  principal: u > 0, or u = 0 and v >= 0
SqCand(x) ==
    LET a == x.n[1] * x.d
        b == x.n[2] * x.d
    IN IF b = 0
       THEN IF a >= 0 THEN (IF ISqrtOK(a) THEN {<<ISqrt(a), 0>>} ELSE {})
            ELSE (IF ISqrtOK(-a) THEN {<<0, ISqrt(-a)>>} ELSE {})
       ELSE {<<w, b \div (2 * w)>>: w \in {v \in 1..60: b % (2 * v) = 0 /\ v * v - (b \div (2 * v)) * (b \div (2 * v)) = a}}
HasPSqrt(x) == SqCand(QNorm(x)) # {}
PSqrt(x) == LET y == QNorm(x) IN QNorm([n |-> CHOOSE p \in SqCand(y): TRUE, d |-> y.d])

QIsInt(x) == LET y == QNorm(x) IN y.d = 1 /\ y.n[2] = 0
RECURSIVE FDef(_, _)
FDef(f, x) ==
    CASE f.k = "poly" -> TRUE
      [] f.k = "bar" -> FDef(f.c[1], QConj(x))
      [] f.k = "rat" -> ~QIsZero(Horner(f.d, x))
      [] f.k = "ipow" -> f.e >= 0 \/ ~QIsZero(x)
      [] f.k = "sqrt" -> HasPSqrt(x)
      [] f.k = "isqrt" -> HasPSqrt(x) /\ ~QIsZero(x)
      [] f.k = "exp2" -> QIsInt(x) /\ Abs(QNorm(x).n[1]) <= 12
      [] OTHER -> FALSE
RECURSIVE FApp(_, _)
FApp(f, x) ==
    CASE f.k = "poly" -> Horner(f.c, x)
      [] f.k = "bar" -> QConj(FApp(f.c[1], QConj(x)))
      [] f.k = "rat" -> QNorm(QDiv(Horner(f.c, x), Horner(f.d, x)))
      [] f.k = "ipow" -> IF f.e >= 0 THEN QNorm(QPow(x, f.e)) ELSE QNorm(QInv(QNorm(QPow(x, -f.e))))
      [] f.k = "sqrt" -> PSqrt(x)
      [] f.k = "isqrt" -> QNorm(QInv(PSqrt(x)))
      [] f.k = "exp2" -> LET e == QNorm(x).n[1] IN IF e >= 0 THEN QInt(IPow(2, e)) ELSE Q(1, 0, IPow(2, -e))

---------------------------------------------------------------------------
(* 2.  Operations on spectral decompositions (sequences of [lam, P], Spectral.tla)                  *)
RECURSIVE Flatten(_)
Flatten(ss) == IF ss = <<>> THEN <<>> ELSE Head(ss) \o Flatten(Tail(ss))
RECURSIVE ISumSeq(_)
ISumSeq(s) == IF s = <<>> THEN 0 ELSE Head(s) + ISumSeq(Tail(s))

\* f(A) = sum_i f(lam_i) P_i   (terms with equal f(lam) merged: a spectral decomposition again)
FSpecM(f, s) == Merge([i \in 1..Len(s) |-> SP(FApp(f, s[i].lam), s[i].P)])
SpecDefAll(f, s) == \A i \in 1..Len(s): FDef(f, s[i].lam)
PairSpec(a, b, Op(_, _)) ==
    Merge([k \in 1..(Len(a) * Len(b)) |->
              LET i == ((k - 1) \div Len(b)) + 1
                  j == ((k - 1) % Len(b)) + 1
              IN SP(QNorm(Op(a[i].lam, b[j].lam)), MNormalize(MKron(a[i].P, b[j].P)))])
KronSpec(a, b) == PairSpec(a, b, QMul)          \* (lam_i mu_j, P_i (x) Q_j)
KronSumSpec(a, b) == PairSpec(a, b, QAdd)       \* (lam_i + mu_j, P_i (x) Q_j)
RECURSIVE KronSpecN(_)
KronSpecN(ss) == IF Len(ss) = 1 THEN ss[1] ELSE KronSpec(ss[1], KronSpecN(Tail(ss)))
RECURSIVE KronSumSpecN(_)
KronSumSpecN(ss) == IF Len(ss) = 1 THEN ss[1] ELSE KronSumSpec(ss[1], KronSumSpecN(Tail(ss)))
\* block diagonal of blocks with decompositions ss and sizes ns (multiplicities already expanded)
BlockSpec(ss, ns) ==
    LET tot == ISumSeq(ns)
        off(b) == ISumSeq(SubSeq(ns, 1, b - 1))
    IN Merge(Flatten([b \in 1..Len(ss) |->
                 [i \in 1..Len(ss[b]) |-> SP(ss[b][i].lam, PadBlock(ss[b][i].P, off(b), tot - off(b) - ns[b]))]]))
TrSpec(s) == [i \in 1..Len(s) |-> SP(s[i].lam, MTr(s[i].P))]
AdjSpec(s) == [i \in 1..Len(s) |-> SP(QConj(s[i].lam), MAdj(s[i].P))]

\* equality of spectral decompositions: the same eigenvalues with the same projectors
SpecEq(a, b) ==
    /\ Len(a) = Len(b)
    /\ \A i \in 1..Len(a): \E j \in 1..Len(b): QEq(a[i].lam, b[j].lam) /\ MEq(a[i].P, b[j].P)
\* s is a spectral decomposition of the matrix D (the body of Spectral!SpectralValid, for any s)
SpecValidOf(s, D) ==
    /\ Len(s) >= 1
    /\ \A i \in 1..Len(s): \A j \in 1..Len(s): i # j => ~QEq(s[i].lam, s[j].lam)
    /\ MEq(SumP(s), Eye(D.r))
    /\ \A i \in 1..Len(s): \A j \in 1..Len(s):
          IF i = j THEN MEq(MMul(s[i].P, s[i].P), s[i].P) ELSE MIsZero(MMul(s[i].P, s[j].P))
    /\ MEq(SumLamP(s), D)

\* SpecOf extended to any number of Kronecker / KronSum factors and to block diagonals with multiplicities
RECURSIVE HasSpecG(_)
HasSpecG(t) ==
    \/ "sp" \in DOMAIN t.p
    \/ t.k \in {"Diagonal", "Identity", "ScalarMul"}
    \/ t.k \in {"Annot", "NoDispatch", "Transpose", "Adjoint"} /\ HasSpecG(t.a[1])
    \/ t.k \in {"Kronecker", "KronSum", "BlockDiag"} /\ \A i \in 1..Len(t.a): (HasSpecG(t.a[i]) /\ IsSq(t.a[i]))
    \/ t.k = "Product" /\ Len(t.a) = 2 /\ t.a[1].k = "ScalarMul" /\ HasSpecG(t.a[2])
RECURSIVE SpecG(_)
SpecG(t) ==
    LET ch == [i \in 1..Len(t.a) |-> SpecG(t.a[i])] IN
    CASE "sp" \in DOMAIN t.p -> SpecOf(t)
      [] t.k \in {"Diagonal", "Identity", "ScalarMul"} -> SpecOf(t)
      [] t.k \in {"Annot", "NoDispatch"} -> ch[1]
      [] t.k = "Transpose" -> TrSpec(ch[1])
      [] t.k = "Adjoint" -> AdjSpec(ch[1])
      [] t.k = "Kronecker" -> KronSpecN(ch)
      [] t.k = "KronSum" -> KronSumSpecN(ch)
      [] t.k = "BlockDiag" -> BlockSpec(Repeat(ch, t.p.mult), Repeat([i \in 1..Len(t.a) |-> ShapeOf(t.a[i])[1]], t.p.mult))
      [] t.k = "Product" -> [i \in 1..Len(ch[2]) |-> SP(QNorm(QMul(t.a[1].p.c, ch[2][i].lam)), ch[2][i].P)]
SpecGValid(t) == HasSpecG(t) => SpecValidOf(SpecG(t), Denote(t))
\* the eigenvalues with their multiplicities, as a sequence
SpecBag(s) == Flatten([i \in 1..Len(s) |-> [j \in 1..Mult(s[i]) |-> QNorm(s[i].lam)]])

---------------------------------------------------------------------------
(* 3.  cola.linalg.apply_unary / exp / log / pow / sqrt / isqrt            *)
(*                                                                         *)
(* Algorithms are named by their class: "Auto", "Eig", "Eigh", "Lanczos",  *)
(* "Arnoldi"; `hasalg` tells whether the call passes the algorithm         *)
(* argument (plum registers a copy of every signature without it: the      *)
(* copy's name lacks the last type; the body then runs with alg = Auto()). *)
IsaSA(t) == Isa(Infer(t), "SelfAdjoint")
FactsOf(t, k, wh) ==
    [anns |-> Infer(t), n |-> ShapeOf(t)[1], m |-> ShapeOf(t)[2], tol |-> [def |-> TRUE], k |-> k, which |-> wh,
     opts |-> {}, alpha |-> "frac"]
RECURSIVE StripAll(_)
StripAll(t) == IF t.k \in {"Annot", "NoDispatch"} THEN StripAll(t.a[1]) ELSE t

\* inv(V) of the dense eigenvector matrix inside the Eig base case: the LU fallback of inv (LinalgRules!InvFallback)
ELU == <<"inv(LinearOperator,Auto)", "inv(LinearOperator,LU)", "plu(LinearOperator)", "inv(Triangular,Algorithm)",
         "inv(Triangular,Algorithm)", "inv(Permutation,Algorithm)">>
FLeaf(kind, f, t) == N(kind, <<>>, [f |-> f, t |-> t])

\* base cases (precedence -1) of apply_unary
AUBase(f, t, alg) ==
    LET base(a) == "apply_unary(Callable,LinearOperator," \o a \o ")"
        sq == IsSq(t)
        direct(a) ==
            CASE a = "Eigh" ->      \* assert A.isa(SelfAdjoint); eigs, V = eigh(A.to_dense()); V @ Diagonal(f(eigs)) @ V.H
                   IF ~IsaSA(t) THEN Res(<<base("Eigh")>>, "AssertionError", NoVal)
                   ELSE IF ~sq THEN Res(<<base("Eigh")>>, "LinAlgError", NoVal)
                   ELSE Res(<<base("Eigh")>>, "none", FLeaf("FEigh", f, t))
              [] a = "Eig" ->       \* eigs, V = eig(A.to_dense()); V @ Diagonal(f(eigs)) @ inv(V)
                   IF ~sq THEN Res(<<base("Eig")>>, "LinAlgError", NoVal)
                   ELSE Res(<<base("Eig")>> \o ELU, "none", FLeaf("FEig", f, t))
              [] a = "Lanczos" ->   \* assert A.isa(SelfAdjoint); LanczosUnary(A, f, options)   (lazy)
                   IF ~IsaSA(t) THEN Res(<<base("Lanczos")>>, "AssertionError", NoVal)
                   ELSE Res(<<base("Lanczos")>>, "none", FLeaf("FLanczos", f, t))
              [] a = "Arnoldi" -> Res(<<base("Arnoldi")>>, "none", FLeaf("FArnoldi", f, t))
              [] OTHER -> Res(<<base(a)>>, "RecursionError", NoVal)
    IN IF alg = "Auto"
       THEN LET r == direct(AutoChoice("apply_unary", FactsOf(t, 2, "LM"))) IN Res(<<base("Auto")>> \o r.calls, r.exc, r.val)
       ELSE direct(alg)

RECURSIVE AURule(_, _, _)
AURule(f, t, alg) ==
    LET u == Strip(t)
        cls == ClassOf(t)
        sub == [i \in 1..Len(u.a) |-> AURule(f, u.a[i], alg)]
        nm(c) == "apply_unary(Callable," \o c \o ",Algorithm)"
    IN CASE
         \* apply_unary(f, A: Diagonal, alg):  Diagonal(f(A.diag))
            cls = "Diagonal" -> Res(<<nm("Diagonal")>>, "none", FLeaf("FDiagonal", f, u))
         \* apply_unary(f, A: BlockDiag, alg):  BlockDiag(*[apply_unary(f, a, alg) for a in A.Ms], multiplicities=...)
         [] cls = "BlockDiag" ->
               Compose(nm("BlockDiag"), sub,
                       N("BlockDiag", Vals(sub),
                         [mult |-> IF Mutant = "UnaryBlockNoMult" THEN [i \in 1..Len(u.a) |-> 1] ELSE u.p.mult]))
         \* apply_unary(f, A: Identity, alg):  f(one) * A
         [] cls = "Identity" -> Res(<<nm("Identity")>>, "none", FLeaf("FIdentity", f, u))
         \* apply_unary(f, A: ScalarMul, alg):  f(A.c) * I_like(A)
         [] cls = "ScalarMul" -> Res(<<nm("ScalarMul")>>, "none", FLeaf("FScalarMul", f, u))
         \* apply_unary(f, A: Transpose, alg):  Transpose(apply_unary(f, A.A, alg))
         [] cls = "Transpose" ->
               Compose(nm("Transpose"), sub,
                       N(IF Mutant = "UnaryTransposeAsAdjoint" THEN "Adjoint" ELSE "Transpose", Vals(sub), NoP))
         \* apply_unary(f, A: Adjoint, alg):  Adjoint(apply_unary(lambda z: conj(f(conj(z))), A.A, alg))
         [] cls = "Adjoint" ->
               LET fb == IF Mutant = "UnaryAdjointNoConj" THEN f ELSE F_Bar(f)
                   subb == [i \in 1..Len(u.a) |-> AURule(fb, u.a[i], alg)]
               IN Compose(nm("Adjoint"), subb, N("Adjoint", Vals(subb), NoP))
         [] OTHER -> AUBase(f, t, alg)

Sfx1(hasalg) == IF hasalg THEN ",Algorithm)" ELSE ")"
Prepend(name, r) == Res(<<name>> \o r.calls, r.exc, r.val)

\* exp(A: KronSum, alg) = Kronecker(*[exp(a, alg) for a in A.Ms]);   exp(A, alg) = apply_unary(xnp.exp, A, alg)
\* (fexp: the scalar function standing for exp - opaque, or the exact exponential F_Exp2)
RECURSIVE ExpRuleF(_, _, _, _)
ExpRuleF(fexp, t, hasalg, alg) ==
    LET u == Strip(t)
        cls == ClassOf(t)
        sub == [i \in 1..Len(u.a) |-> ExpRuleF(fexp, u.a[i], TRUE, alg)]
    IN IF cls = "KronSum"
       THEN Compose("exp(KronSum" \o Sfx1(hasalg), sub,
                    N(IF Mutant = "ExpKronSumAsKronSum" THEN "KronSum" ELSE "Kronecker", Vals(sub), NoP))
       ELSE Prepend("exp(LinearOperator" \o Sfx1(hasalg), AURule(fexp, t, alg))
ExpRule(t, hasalg, alg) == ExpRuleF(F_Opaque("exp"), t, hasalg, alg)
LogRule(t, hasalg, alg) == Prepend("log(LinearOperator" \o Sfx1(hasalg), AURule(F_Opaque("log"), t, alg))

\* ---- pow(A, alpha, alg);  alpha = [n |-> p, d |-> q], q > 0
\* int(np.round(alpha)): round half to even
RoundQ(al) ==
    LET r == (2 * al.n + al.d) \div (2 * al.d)
        tie == (2 * al.n + al.d) % (2 * al.d) = 0
    IN IF tie /\ r % 2 = 1 THEN r - 1 ELSE r
\* np.isclose(alpha, k):  |alpha - k| <= 1e-8 + 1e-5 |k|   <=>   |p - k q| 1e8 <= q (1 + 1000 |k|)
IntLike(al) ==
    LET k == RoundQ(al)
        df == Abs(al.n - k * al.d)
    IN df <= 20 /\ df * 100000000 <= al.d * (1 + 1000 * Abs(k))
\* the scalar function x ** alpha
F_PowQ(al) ==
    IF al.d = 1 THEN F_IPow(al.n)
    ELSE IF al.d = 2 /\ al.n = 1 THEN F_Sqrt
    ELSE IF al.d = 2 /\ al.n = -1 THEN F_ISqrt
    ELSE F_Opaque("fpow")
\* pow(A, -1, alg) = inv(A, new_alg)
PowInvAlg(alg) ==
    CASE alg = "Lanczos" -> "CG" [] alg = "Arnoldi" -> "GMRES" [] alg = "Eigh" -> "Cholesky" [] alg = "Eig" -> "LU"
      [] OTHER -> alg

\* inv(A, alg) for an explicit algorithm: the structural rules are typed on Algorithm, only the base case differs
InvBaseA(t, a) ==
    LET D == Denote(t)
        tri == "inv(Triangular,Algorithm)"
        nm == "inv(LinearOperator," \o a \o ")"
    IN CASE a = "LU" ->
              IF ~IsSquare(D) THEN Res(<<nm, "plu(LinearOperator)", tri, tri>>, "AssertionError", NoVal)
              ELSE Res(<<nm, "plu(LinearOperator)", tri, tri, "inv(Permutation,Algorithm)">>, "none", InvLeaf("LUInv", D))
         [] a = "Cholesky" ->
              IF ~IsaPSD(t) THEN Res(<<nm>>, "AssertionError", NoVal)
              ELSE IF IsSquare(D) /\ IsPD(D)
              THEN Res(<<nm, "cholesky(LinearOperator)", tri, tri>>, "none", InvLeaf("CholInv", D))
              ELSE Res(<<nm, "cholesky(LinearOperator)">>, CholFailure(D), NoVal)
         [] a = "CG" ->
              IF ~IsaPSD(t) THEN Res(<<nm>>, "AssertionError", NoVal)
              ELSE Res(<<nm>>, "none", N("IterInv", <<>>, [alg |-> "CG"]))
         [] a = "GMRES" -> Res(<<nm>>, "none", N("IterInv", <<>>, [alg |-> "GMRES"]))
RECURSIVE InvRuleA(_, _)
InvRuleA(t, a) ==
    IF a = "Auto" THEN InvRule(t)
    ELSE LET u == Strip(t)
             cls == ClassOf(t)
             sub == [i \in 1..Len(u.a) |-> InvRuleA(u.a[i], a)]
         IN CASE cls = "Identity" -> InvIdentity(u)
              [] cls = "ScalarMul" -> InvScalarMul(u)
              [] cls = "Permutation" -> InvPermutation(u)
              [] cls = "Diagonal" -> InvDiagonal(u)
              [] cls = "Triangular" -> InvTriangular(u)
              [] cls = "Product" /\ AllSquare(u) ->
                    Compose("inv(Product,Algorithm)?", sub, N("Product", Reverse(Vals(sub)), NoP))
              [] cls = "BlockDiag" -> Compose("inv(BlockDiag,Algorithm)", sub, N("BlockDiag", Vals(sub), [mult |-> u.p.mult]))
              [] cls = "Kronecker" -> Compose("inv(Kronecker,Algorithm)", sub, N("Kronecker", Vals(sub), NoP))
              [] OTHER -> InvBaseA(t, a)

Sfx2(hasalg) == IF hasalg THEN ",Number,Algorithm)" ELSE ",Number)"
RECURSIVE PowRule(_, _, _, _)
PowRule(t, al, hasalg, alg) ==
    LET u == Strip(t)
        cls == ClassOf(t)
    IN IF cls = "Kronecker" /\ (AllSquare(u) \/ Mutant = "PowKronNoSquareGuard")
       \* @dispatch(cond=all factors square)  pow(A: Kronecker, alpha, alg) = Kronecker(*[pow(a, alpha, alg) for a in A.Ms])
       \* (no guard on alpha)
       THEN LET sub == [i \in 1..Len(u.a) |-> PowRule(u.a[i], al, TRUE, alg)] IN
            Compose("pow(Kronecker" \o Sfx2(hasalg) \o "?", sub,
                    N(IF Mutant = "PowKronAsKronSum" THEN "KronSum" ELSE "Kronecker", Vals(sub), NoP))
       ELSE LET nm == "pow(LinearOperator" \o Sfx2(hasalg)
                k == RoundQ(al)
                generic == Prepend(nm, AURule(F_PowQ(al), t, alg))
            IN IF ~IntLike(al) THEN generic
               \* k == 0: I_like(A)        (non-square A: not modelled)
               ELSE IF k = 0
               THEN IF IsSq(t) THEN Res(<<nm>>, "none", N("ILike", <<>>, [n |-> ShapeOf(t)[1]]))
                    ELSE Res(<<nm>>, "Unmodelled", NoVal)
               \* 0 < k < 10: product([A] * k) = A @ A @ ... (__matmul__ asserts the inner dimensions)
               ELSE IF k > 0 /\ k < 10
               THEN IF k >= 2 /\ ~IsSq(t) THEN Res(<<nm>>, "AssertionError", NoVal)
                    ELSE Res(<<nm>>, "none", N("PowProd", <<>>, [t |-> t, k |-> IF Mutant = "PowIntOffByOne" THEN k + 1 ELSE k]))
               \* k == -1: inv(A, new_alg)
               \* (DOMAIN RESTRICTION: the exact inverse of LinalgRules needs at most 6 rows and entries within 24)
               ELSE IF k = -1 /\ ~(ShapeOf(t)[1] <= 6 /\ ShapeOf(t)[2] <= 6 /\ EntriesWithin(Denote(t), 24))
               THEN Res(<<nm>>, "Unmodelled", NoVal)
               ELSE IF k = -1
               THEN LET r == IF Mutant = "PowNegOneNoInv" THEN Res(<<>>, "none", N("PowProd", <<>>, [t |-> t, k |-> 1]))
                             ELSE InvRuleA(t, PowInvAlg(alg))
                    IN Res(<<nm>> \o r.calls, r.exc,
                           IF ~OK(r) THEN NoVal ELSE IF r.val.k = "PowProd" THEN r.val ELSE N("Inv", <<>>, [r |-> r.val]))
               ELSE generic
QHalf == [n |-> 1, d |-> 2]
QMHalf == [n |-> -1, d |-> 2]
\* sqrt(A, alg) = pow(A, 0.5, alg);  isqrt(A, alg) = pow(A, -0.5, alg)
SqrtRule(t, hasalg, alg) == Prepend("sqrt(LinearOperator" \o Sfx1(hasalg), PowRule(t, QHalf, TRUE, alg))
ISqrtRule(t, hasalg, alg) == Prepend("isqrt(LinearOperator" \o Sfx1(hasalg), PowRule(t, QMHalf, TRUE, alg))

---------------------------------------------------------------------------
(* 4.  Class skeletons and values of the unary rules                       *)
SLk(k, a) == [k |-> k, a |-> a]
\* skeleton of an operand as the real object prints (declarations keep the class, no_dispatch gives a bare LinearOperator)
RECURSIVE SkelT(_)
SkelT(t) ==
    LET u == Strip(t) IN
    IF u.k = "NoDispatch" THEN SL("LinearOperator") ELSE SLk(u.k, [i \in 1..Len(u.a) |-> SkelT(u.a[i])])
\* product([A] * k): cola.fns.dot drops Identity factors (dot(Identity, Identity) = B) and flattens Products
PowSkel(t, k) ==
    LET s == SkelT(t) IN
    IF k = 1 \/ s.k = "Identity" THEN s
    ELSE IF s.k = "Product" THEN SLk("Product", Flatten([i \in 1..k |-> s.a]))
    ELSE SLk("Product", [i \in 1..k |-> s])
RECURSIVE SkelU(_)
SkelU(v) ==
    CASE v.k = "FDiagonal" -> SL("Diagonal")
      [] v.k \in {"FIdentity", "FScalarMul"} -> SLk("Product", <<SL("ScalarMul"), SL("Identity")>>)
      [] v.k = "FEig" -> SLk("Product", <<SL("Dense"), SL("Diagonal"), SL("TriangularInv"), SL("TriangularInv"), SL("Permutation")>>)
      [] v.k = "FEigh" -> SLk("Product", <<SL("Dense"), SL("Diagonal"), SL("Dense")>>)
      [] v.k = "FLanczos" -> SL("LanczosUnary")
      [] v.k = "FArnoldi" -> SL("ArnoldiUnary")
      [] v.k = "ILike" -> SL("Identity")
      [] v.k = "PowProd" -> PowSkel(v.p.t, v.p.k)
      [] v.k = "Inv" -> Skel(v.p.r)
      [] OTHER -> SLk(v.k, [i \in 1..Len(v.a) |-> SkelU(v.a[i])])

\* every application of f inside the value is defined (and every inverse exists, is tame and is not a lazy
\* iterative solve)
RECURSIVE NoIter(_)
NoIter(r) == r.k # "IterInv" /\ \A i \in 1..Len(r.a): NoIter(r.a[i])
\* (top, s): the operand of the whole call and its decomposition SpecG(top), so that a leaf application on the whole
\* operand (generic base case of a composite) does not recompute it
SpecGC(x, top, s) == IF x = top THEN s ELSE SpecG(x)
RECURSIVE ValDefS(_, _, _)
ValDefS(v, top, s) ==
    CASE v.k = "FDiagonal" -> \A i \in 1..Len(v.p.t.p.v): FDef(v.p.f, QFromC(v.p.t.p.v[i]))
      [] v.k = "FIdentity" -> FDef(v.p.f, QInt(1))
      [] v.k = "FScalarMul" -> FDef(v.p.f, v.p.t.p.c)
      [] v.k \in {"FEig", "FEigh"} -> HasSpecG(v.p.t) /\ SpecDefAll(v.p.f, SpecGC(v.p.t, top, s))
      [] v.k \in {"FLanczos", "FArnoldi"} -> FALSE                  \* Krylov approximations: not modelled
      [] v.k = "Inv" -> AllDef(v.p.r) /\ AllTame(v.p.r) /\ NoIter(v.p.r)
      [] v.k \in {"ILike", "PowProd"} -> TRUE
      [] OTHER -> \A i \in 1..Len(v.a): ValDefS(v.a[i], top, s)

\* spectral decomposition of a value, computed from the leaves' rule bodies by the structural constructors
RECURSIVE SpecVS(_, _, _)
SpecVS(v, top, s) ==
    LET ch == [i \in 1..Len(v.a) |-> SpecVS(v.a[i], top, s)]
        f == v.p.f
    IN CASE
         \* Diagonal(f(A.diag)): f entry by entry
            v.k = "FDiagonal" ->
               LET d == v.p.t.p.v IN Merge([i \in 1..Len(d) |-> SP(FApp(f, QFromC(d[i])), Sel(Len(d), i))])
         \* f(1) * A
         [] v.k = "FIdentity" ->
               <<SP(IF Mutant = "UnaryIdentityNoF" THEN QInt(1) ELSE FApp(f, QInt(1)), Eye(v.p.t.p.n))>>
         \* f(A.c) * I_like(A)
         [] v.k = "FScalarMul" -> <<SP(FApp(f, v.p.t.p.c), Eye(v.p.t.p.n))>>
         \* V @ Diagonal(f(eigs)) @ inv(V)  /  V @ Diagonal(f(eigs)) @ V.H  of the dense matrix: on a catalogued leaf the
         \* eigendecomposition is the payload's; a composite operand is densified (definition of f on its spectrum)
         [] v.k \in {"FEig", "FEigh"} ->
               LET w == StripAll(v.p.t) IN
               IF "sp" \in DOMAIN w.p
               THEN LET V == w.p.sp.V
                        Vi == MInverse(V)
                    IN Merge([i \in 1..Len(w.p.sp.lam) |->
                                 SP(FApp(f, w.p.sp.lam[i]), MNormalize(MMul(MMul(V, Sel(V.r, i)), Vi)))])
               ELSE FSpecM(f, SpecGC(v.p.t, top, s))
         [] v.k = "BlockDiag" ->
               BlockSpec(Repeat(ch, v.p.mult), Repeat([i \in 1..Len(ch) |-> ch[i][1].P.r], v.p.mult))
         [] v.k = "Kronecker" -> KronSpecN(ch)
         [] v.k = "KronSum" -> KronSumSpecN(ch)
         [] v.k = "Transpose" -> TrSpec(ch[1])
         [] v.k = "Adjoint" -> AdjSpec(ch[1])
         [] v.k = "ILike" -> <<SP(QInt(1), Eye(v.p.n))>>

NoTop == [k |-> "none", a |-> <<>>, p |-> NoP]
ValDef(v) == ValDefS(v, NoTop, <<>>)
SpecV(v) == SpecVS(v, NoTop, <<>>)

\* exact matrix of a value (integer powers and inverses are matrices, not spectral data)
RECURSIVE MPowN(_, _)
MPowN(M, k) == IF k = 1 THEN M ELSE MNormalize(MMul(M, MPowN(M, k - 1)))
RECURSIVE MKronSumN(_)
MKronSumN(s) == IF Len(s) = 1 THEN s[1] ELSE MNormalize(MKronSum(s[1], MKronSumN(Tail(s))))
RECURSIVE MatVS(_, _, _)
MatVS(v, top, s) ==
    LET ch == [i \in 1..Len(v.a) |-> MatVS(v.a[i], top, s)] IN
    CASE v.k = "PowProd" -> MPowN(Denote(v.p.t), v.p.k)
      [] v.k = "Inv" -> DenoteR(v.p.r)
      [] v.k = "ILike" -> Eye(v.p.n)
      [] v.k = "Kronecker" -> MKronN(ch)
      [] v.k = "KronSum" -> MKronSumN(ch)
      [] v.k = "BlockDiag" -> MBlockN(Repeat(ch, v.p.mult))
      [] v.k = "Transpose" -> MTr(ch[1])
      [] v.k = "Adjoint" -> MAdj(ch[1])
      [] OTHER -> MNormalize(SumLamP(SpecVS(v, top, s)))
MatV(v) == MatVS(v, NoTop, <<>>)

\* exponent spectrum of a value built from exp-leaves: exp(A) is represented by the decomposition of A;
\* exp(a) (x) exp(b) = exp(a (+) b) because e^x e^y = e^(x + y)   (no branch: holds for every spectrum);
\* a Kronecker SUM of exponentials is not an exponential of the structure (mutant): represented by the products
RECURSIVE LogSpecV(_)
LogSpecV(v) ==
    LET ch == [i \in 1..Len(v.a) |-> LogSpecV(v.a[i])] IN
    CASE v.k \in {"FDiagonal", "FIdentity", "FScalarMul", "FEig", "FEigh"} -> SpecG(v.p.t)
      [] v.k = "Kronecker" -> KronSumSpecN(ch)
      [] v.k = "KronSum" -> KronSpecN(ch)
      [] v.k = "BlockDiag" -> BlockSpec(Repeat(ch, v.p.mult), Repeat([i \in 1..Len(ch) |-> ch[i][1].P.r], v.p.mult))
      [] v.k = "Transpose" -> TrSpec(ch[1])
      [] v.k = "Adjoint" -> AdjSpec(ch[1])
RECURSIVE ExpLeavesOnly(_)
ExpLeavesOnly(v) ==
    IF Len(v.a) = 0 THEN v.k \in {"FDiagonal", "FIdentity", "FScalarMul", "FEig", "FEigh"}
    ELSE \A i \in 1..Len(v.a): ExpLeavesOnly(v.a[i])

---------------------------------------------------------------------------
(* 5.  Domains on which the structural unary rules are identities          *)
ConjSym(f, s) ==
    \A i \in 1..Len(s): /\ FDef(f, QConj(s[i].lam))
                        /\ QEq(FApp(f, QConj(s[i].lam)), QConj(FApp(f, s[i].lam)))
RECURSIVE AUDomain(_, _)
AUDomain(f, t) ==
    LET u == Strip(t)
        cls == ClassOf(t)
    IN CASE cls = "BlockDiag" -> \A i \in 1..Len(u.a): AUDomain(f, u.a[i])
         [] cls = "Transpose" -> AUDomain(f, u.a[1])
         [] cls = "Adjoint" -> AUDomain(f, u.a[1])          \* (before fix 415da5a: /\ ConjSym(f, SpecG(u.a[1])))
         [] OTHER -> TRUE

\* principal argument classes of a non-zero Gaussian rational: (0, pi] "up", (-pi, 0) "low", 0 "pos"
ArgClass(x) == IF x.n[2] > 0 \/ (x.n[2] = 0 /\ x.n[1] < 0) THEN "up" ELSE IF x.n[2] < 0 THEN "low" ELSE "pos"
\* Arg(z) + Arg(w) = Arg(z w) + 2 pi carry
WindCarry(z, w) ==
    LET zw == QNorm(QMul(z, w)) IN
    IF ArgClass(z) = "up" /\ ArgClass(w) = "up" /\ ArgClass(zw) # "up" THEN 1
    ELSE IF ArgClass(z) = "low" /\ ArgClass(w) = "low" /\ ArgClass(zw) # "low" THEN -1
    ELSE 0
\* for every tuple (one eigenvalue per factor): sum of arguments = Arg(product) + 2 pi k with q | k
\* (prod lam_i^(p/q) = (prod lam_i)^(p/q) exp(2 pi i k p / q));  a zero eigenvalue makes both sides 0
RECURSIVE WindAll(_, _, _, _)
WindAll(ss, z, k, q) ==
    IF ss = <<>> THEN k % q = 0
    ELSE \A i \in 1..Len(ss[1]):
            LET w == ss[1][i].lam IN
            IF QIsZero(w) THEN TRUE
            ELSE WindAll(Tail(ss), QNorm(QMul(z, w)), k + (IF Mutant = "WindNoCarry" THEN 0 ELSE WindCarry(z, w)), q)
WindOK(q, ss) == WindAll(ss, QInt(1), 0, q)
RECURSIVE PowDomain(_, _, _)
PowDomain(f, q, t) ==
    LET u == Strip(t) IN
    IF ClassOf(t) = "Kronecker"
    THEN (\A i \in 1..Len(u.a): PowDomain(f, q, u.a[i])) /\ WindOK(q, [i \in 1..Len(u.a) |-> SpecG(u.a[i])])
    ELSE AUDomain(f, t)
\* every Kronecker node that pow recurses into has square factors
RECURSIVE PowSquareDomain(_)
PowSquareDomain(t) ==
    LET u == Strip(t) IN
    ClassOf(t) = "Kronecker" => \A i \in 1..Len(u.a): (IsSq(u.a[i]) /\ PowSquareDomain(u.a[i]))

---------------------------------------------------------------------------
(* 6.  Correctness statements of the unary rules                           *)
\* 32-bit safety of the comparisons: the values f(lam_i) have small numerators and a small common denominator
RECURSIVE DenProd(_, _, _)
DenProd(f, s, i) ==
    IF i = 0 THEN 1
    ELSE LET q == DenProd(f, s, i - 1) IN IF q > 4000 THEN q ELSE q * QNorm(FApp(f, s[i].lam)).d
ValsTame(f, s) ==
    /\ DenProd(f, s, Len(s)) <= 4000
    /\ \A i \in 1..Len(s): LET x == FApp(f, s[i].lam) IN Abs(x.n[1]) <= 100000 /\ Abs(x.n[2]) <= 100000
\* (s is SpecG(t), passed in so that it is computed once per statement)
UPremS(t, s, f, r) ==
    HasSpecG(t) /\ IsSq(t) /\ FExact(f) /\ OK(r) /\ SpecDefAll(f, s) /\ ValsTame(f, s) /\ ValDefS(r.val, t, s)
UPrem(t, f, r) == UPremS(t, SpecG(t), f, r)
UnarySoundAtS(t, s, f, alg) ==
    LET r == AURule(f, t, alg) IN
    (UPremS(t, s, f, r) /\ AUDomain(f, t)) => SpecEq(SpecVS(r.val, t, s), FSpecM(f, s))
UnarySoundAt(t, f, alg) == UnarySoundAtS(t, SpecG(t), f, alg)

\* pow with the exact non-integer exponents +-1/2 (sqrt, isqrt)
PowFracSoundAtS(t, s, al, alg) ==
    LET f == F_PowQ(al)
        r == PowRule(t, al, TRUE, alg)
    IN (UPremS(t, s, f, r) /\ PowDomain(f, al.d, t)) => SpecEq(SpecVS(r.val, t, s), FSpecM(f, s))
PowFracSoundAt(t, al, alg) == PowFracSoundAtS(t, SpecG(t), al, alg)
PowFracSoundEverywhereAt(t, al, alg) ==
    LET f == F_PowQ(al)
        r == PowRule(t, al, TRUE, alg)
        s == SpecG(t)
    IN UPremS(t, s, f, r) => SpecEq(SpecVS(r.val, t, s), FSpecM(f, s))
\* at a Kronecker root whose factors are handled soundly: the rule is an identity IFF the winding condition holds
PowKronDomainAt(t, al, alg) ==
    LET f == F_PowQ(al)
        r == PowRule(t, al, TRUE, alg)
        u == Strip(t)
        s == SpecG(t)
    IN (ClassOf(t) = "Kronecker" /\ UPremS(t, s, f, r) /\ \A i \in 1..Len(u.a): PowDomain(f, al.d, u.a[i]))
          => (SpecEq(SpecVS(r.val, t, s), FSpecM(f, s)) <=> WindOK(al.d, [i \in 1..Len(u.a) |-> SpecG(u.a[i])]))

\* integer exponents: 0 -> I, 1..9 -> repeated products, -1 -> inverse, as exact matrices = sum lam^k P
LamWithin(s, b) == \A i \in 1..Len(s): LET x == QNorm(s[i].lam) IN x.d <= 4 /\ Abs(x.n[1]) <= b * x.d /\ Abs(x.n[2]) <= b * x.d
PowTameS(t, s, k) ==
    LET D == Denote(t)
        a == Abs(k)
    IN CASE a <= 3 -> EntriesWithin(D, 60) /\ LamWithin(s, 40)
         [] a <= 5 -> EntriesWithin(D, 12) /\ LamWithin(s, 12)
         [] OTHER -> D.r <= 3 /\ EntriesWithin(D, 3) /\ LamWithin(s, 5)
PowTame(t, k) == PowTameS(t, SpecG(t), k)
PowIntSoundAtS(t, s, k, alg) ==
    LET f == F_IPow(k)
        r == PowRule(t, [n |-> k, d |-> 1], TRUE, alg)
    IN (HasSpecG(t) /\ IsSq(t) /\ PowTameS(t, s, k) /\ UPremS(t, s, f, r)) => MEq(MatVS(r.val, t, s), SumLamP(FSpecM(f, s)))
PowIntSoundAt(t, k, alg) == PowIntSoundAtS(t, SpecG(t), k, alg)
\* integer powers of a square operand are never refused (before fix 32ca66c only on PowSquareDomain)
PowIntCompleteAt(t, k, alg) ==
    (IsSq(t) /\ k >= 0 /\ k <= 9) => PowRule(t, [n |-> k, d |-> 1], TRUE, alg).exc \in {"none", "Unmodelled"}

\* exp(A (+) B) = exp(A) (x) exp(B):
\*  (a) on spectral data: the exponent spectrum assembled by the rule, {lam_i + mu_j, P_i (x) Q_j}, IS the spectral
\*      decomposition of the Kronecker sum (which is verified against the dense matrix);
\*  (b) for the exact exponential 2^x on integer spectra: equal spectral decompositions of the values
IntSpectrum(s) == \A i \in 1..Len(s): FDef(F_Exp2, s[i].lam)
ExpKronSumSoundAt(t, alg) ==
    LET r == ExpRuleF(F_Exp2, t, TRUE, alg) IN
    (ClassOf(t) = "KronSum" /\ HasSpecG(t) /\ OK(r) /\ ExpLeavesOnly(r.val)) =>
        /\ SpecValidOf(SpecG(t), Denote(t))
        /\ SpecEq(LogSpecV(r.val), SpecG(t))
        /\ (IntSpectrum(SpecG(t)) /\ ValDef(r.val)) => SpecEq(SpecV(r.val), FSpecM(F_Exp2, SpecG(t)))

---------------------------------------------------------------------------
(* 7.  cola.linalg.eig(A, k, which, alg)   (eigmax / eigmin: k = 1, 'LM' / 'SM')                    *)
(*                                                                         *)
(* The value is [vals |-> the selected eigenvalues in the order the code   *)
(* returns them (increasing magnitude), amb |-> the selection is not       *)
(* determined (a tie in magnitude between different eigenvalues straddles  *)
(* the cut, or power iteration has no unique dominant eigenvalue),         *)
(* approx |-> iterative estimate].  Eigenvectors are not modelled.         *)
Abs2LT(x, y) == CAbs2(x.n) * y.d * y.d < CAbs2(y.n) * x.d * x.d          \* |x| < |y|
Abs2EQ(x, y) == CAbs2(x.n) * y.d * y.d = CAbs2(y.n) * x.d * x.d
ReLT(x, y) == x.n[1] * y.d < y.n[1] * x.d
\* xnp.argsort(xnp.abs(eig_vals)): positions by increasing magnitude (insertion sort; ties keep their order - what
\* NumPy does with equal keys is not specified, hence `amb`)
KeyLT(x, y) == IF Mutant = "EigSortAlgebraic" THEN ReLT(x, y) ELSE Abs2LT(x, y)
RECURSIVE InsertIdx(_, _, _)
InsertIdx(order, j, vals) ==
    IF order = <<>> THEN <<j>>
    ELSE IF KeyLT(vals[j], vals[Head(order)]) THEN <<j>> \o order
    ELSE <<Head(order)>> \o InsertIdx(Tail(order), j, vals)
RECURSIVE SortIdx(_, _)
SortIdx(vals, j) == IF j = 0 THEN <<>> ELSE InsertIdx(SortIdx(vals, j - 1), j, vals)
IMin(a, b) == IF a < b THEN a ELSE b
IMax(a, b) == IF a > b THEN a ELSE b
\* get_slice(num, which): num == -1 raises; 'SM': slice(0, num); 'LM': slice(-num, None) (num = 0: the whole array)
SelectEigs(vals, k, wh) ==
    LET n == Len(vals)
        order == SortIdx(vals, n)
        pick(lo, hi) == [i \in 1..(hi - lo + 1) |-> vals[order[lo + i - 1]]]
        \* number of entries below the cut (0 or n: no cut)
        cut == IF wh = "SM" THEN IMin(k, n) ELSE IF k = 0 THEN 0 ELSE n - IMin(k, n)
        tieGroup == {i \in 1..n: Abs2EQ(vals[i], vals[order[cut]])}
        amb == /\ cut >= 1 /\ cut < n
               /\ Abs2EQ(vals[order[cut]], vals[order[cut + 1]])
               /\ \E i \in tieGroup: \E j \in tieGroup: ~QEq(vals[i], vals[j])
    IN IF k = -1 THEN [exc |-> "ValueError", vals |-> <<>>, amb |-> FALSE]
       ELSE IF wh \notin {"SM", "LM"} THEN [exc |-> "NotImplementedError", vals |-> <<>>, amb |-> FALSE]
       ELSE IF wh = "SM" \/ Mutant = "EigLMHead"
       THEN [exc |-> "none", vals |-> pick(1, IMin(k, n)), amb |-> amb]
       ELSE [exc |-> "none", vals |-> IF k = 0 THEN pick(1, n) ELSE pick(n - IMin(k, n) + 1, n), amb |-> amb]

EVal(vals, amb, approx) == [vals |-> vals, amb |-> amb, approx |-> approx]
EigFromSource(calls, src, k, wh) ==
    LET s == SelectEigs(src, k, wh) IN Res(calls, s.exc, IF s.exc = "none" THEN EVal(s.vals, s.amb, FALSE) ELSE NoVal)

EigBase(t, bag, k, wh, alg) ==          \* bag: the exact spectrum with multiplicities, SpecBag(SpecG(t))
    LET base(a) == "eig(LinearOperator,int,str," \o a \o ")"
        herm == IsHermitian(Denote(t))
        direct(a) ==
            CASE a = "Eig" -> EigFromSource(<<base("Eig")>>, bag, k, wh)
              \* eigh reads one triangle: modelled on Hermitian matrices only
              [] a = "Eigh" -> IF herm THEN EigFromSource(<<base("Eigh")>>, bag, k, wh) ELSE Res(<<base("Eigh")>>, "Unmodelled", NoVal)
              \* assert k == 1 and which == 'LM';  v, emax, _ = alg(A): converges to the eigenvalue of largest magnitude
              [] a = "PowerIteration" ->
                    IF ~(k = 1 /\ wh = "LM") THEN Res(<<base(a)>>, "AssertionError", NoVal)
                    ELSE LET s == SelectEigs(bag, 1, "LM")
                             top == {i \in 1..Len(bag): Abs2EQ(bag[i], s.vals[1])}
                         IN Res(<<base(a)>>, "none",
                                EVal(s.vals, \E i \in top: \E j \in top: ~QEq(bag[i], bag[j]), TRUE))
              [] OTHER -> Res(<<base(a)>>, "Unmodelled", NoVal)          \* Lanczos / Arnoldi / LOBPCG: C14, C15
    IN IF alg = "Auto"
       THEN LET r == direct(AutoChoice("eig", FactsOf(t, k, wh))) IN Res(<<base("Auto")>> \o r.calls, r.exc, r.val)
       ELSE direct(alg)

EigRuleB(t, bag, k, wh, alg) ==
    LET u == Strip(t)
        cls == ClassOf(t)
    IN CASE
         \* eig(A: Identity): eig_vals = ones(n)
            cls = "Identity" ->
               EigFromSource(<<"eig(Identity,int,str,Algorithm)">>, [i \in 1..u.p.n |-> QInt(1)], k, wh)
         \* eig(A: Triangular): eig_vals = diag(A)          (diag(A: Dense, k, alg) = xnp.diag(A.A))
         [] cls = "Triangular" ->
               LET d == IF Mutant = "EigTriFirstRow" THEN u.p.m.e[1] ELSE DiagK(u.p.m, 0) IN
               EigFromSource(<<"eig(Triangular,int,str,Algorithm)", "diag(Dense,int,Algorithm)">>,
                             [i \in 1..Len(d) |-> QNorm([n |-> d[i], d |-> u.p.m.d])], k, wh)
         \* eig(A: Diagonal): select among A.diag
         [] cls = "Diagonal" ->
               EigFromSource(<<"eig(Diagonal,int,str,Algorithm)">>, [i \in 1..Len(u.p.v) |-> QFromC(u.p.v[i])], k, wh)
         [] OTHER -> EigBase(t, bag, k, wh, alg)
EigRule(t, k, wh, alg) == EigRuleB(t, SpecBag(SpecG(t)), k, wh, alg)

\* specification of the selection: a sub-multiset of the spectrum of size min(k, n) such that no eigenvalue left
\* out is larger ('LM') / smaller ('SM') in magnitude than one that is taken
CountIn(x, s) == Cardinality({i \in 1..Len(s): QEq(s[i], x)})
IsTopK(sel, bag, k, wh) ==
    /\ Len(sel) = IMin(k, Len(bag))
    /\ \A i \in 1..Len(sel): CountIn(sel[i], sel) <= CountIn(sel[i], bag)
    /\ \A i \in 1..Len(sel): \A j \in 1..Len(bag):
          CountIn(bag[j], sel) < CountIn(bag[j], bag) =>
              (IF wh = "LM" THEN ~Abs2LT(sel[i], bag[j]) ELSE ~Abs2LT(bag[j], sel[i]))
\* returned in increasing magnitude
Ascending(sel) == \A i \in 1..(Len(sel) - 1): ~Abs2LT(sel[i + 1], sel[i])
EigSoundAtB(t, bag, k, wh, alg) ==
    LET r == EigRuleB(t, bag, k, wh, alg) IN
    (HasSpecG(t) /\ IsSq(t) /\ OK(r) /\ k >= 1 /\ k <= ShapeOf(t)[1] /\ wh \in {"LM", "SM"}) =>
        /\ IsTopK(r.val.vals, bag, k, wh)
        /\ Ascending(r.val.vals)
EigSoundAt(t, k, wh, alg) == EigSoundAtB(t, SpecBag(SpecG(t)), k, wh, alg)
\* FAILS: k = 0 with 'LM' returns the whole spectrum (slice(-0, None)), k = 0 with 'SM' returns nothing
EigSoundEverywhereAt(t, k, wh, alg) ==
    LET bag == SpecBag(SpecG(t))
        r == EigRuleB(t, bag, k, wh, alg)
    IN (HasSpecG(t) /\ IsSq(t) /\ OK(r) /\ k >= 0 /\ wh \in {"LM", "SM"}) => IsTopK(r.val.vals, bag, k, wh)
=============================================================================
