----------------------------- MODULE MC_Prober -----------------------------
(***************************************************************************)
(* All (size n, block size bs, offset k) instances of the exact diagonal   *)
(* prober within the configured sets.  The code fixes bs = min(100, n);    *)
(* the arithmetic is the same for every bs, so small (n, bs) are explored  *)
(* exhaustively (every alignment of n against the block) and the real      *)
(* block size 100 is instantiated for the sizes the conformance step runs. *)
(* Each state prints its verdict; ProberOK is the property as an invariant.*)
(***************************************************************************)
EXTENDS Prober, ProberCases, Json, TLC
\* generated module ProberCases defines
\*   SmallN, SmallBs : sizes / block sizes explored exhaustively with every offset k
\*   BigCases        : set of <<n, k>> instantiated with the real block size bs = min(100, n)
CONSTANTS DoEmit

VARIABLES n, bs, k
vars == <<n, bs, k>>

Init == \/ /\ n \in SmallN /\ bs \in SmallBs /\ bs <= n
           /\ k \in (1 - n)..(n - 1)
        \/ \E c \in BigCases: n = c[1] /\ k = c[2] /\ bs = Min2(100, c[1])
Next == UNCHANGED vars
Spec == Init /\ [][Next]_vars

Verdict == IF ShapeError(n, bs, k) THEN "shape_error"
           ELSE IF ProberCorrect(n, bs, k) THEN "ok" ELSE "wrong_entries"
Emit == IF DoEmit THEN PrintT(ToJson([n |-> n, bs |-> bs, k |-> k, verdict |-> Verdict])) ELSE TRUE
ProberOK == ProberCorrect(n, bs, k)
=============================================================================
