---------------------------- MODULE MC_Dispatch ----------------------------
(***************************************************************************)
(* Model checking of rule selection over the complete lattice of           *)
(* admissible calls (generated module RuleTable, extracted from the live   *)
(* process).  One state per call; blocks of calls are chained so that TLC  *)
(* workers share the lattice.  For each call the invariant Emit prints the *)
(* model's resolution (tag, selected rule, surviving candidates) which the *)
(* harness (a) compares with the real resolver run on real argument        *)
(* objects and (b) requires to be "ok" (property C04) modulo the committed *)
(* known findings.  AllOk is the same requirement as a TLC invariant for   *)
(* configurations without known findings.                                  *)
(***************************************************************************)
EXTENDS RuleTable, Json, TLC

CONSTANTS Block, DoEmit

D == INSTANCE Dispatch WITH Sigs <- RT_Sigs, LEPairs <- RT_LEPairs, Samples <- RT_Samples

VARIABLE ci
vars == <<ci>>

NCalls == Len(RT_Calls)
Init == ci \in {k \in 1..NCalls: (k - 1) % Block = 0}
Next == /\ ci < NCalls /\ ci % Block # 0
        /\ ci' = ci + 1
Spec == Init /\ [][Next]_vars

ArgsOf(c) == [k \in 1..Len(c.args) |-> RT_Samples[c.args[k]]]
Res == D!Resolve(RT_Calls[ci].f, ArgsOf(RT_Calls[ci]))

Emit == IF DoEmit
        THEN LET r == Res IN
             PrintT(ToJson([ci |-> ci, tag |-> r.tag, rule |-> r.rule, cands |-> r.cands,
                            structural |-> (r.rule \in RT_Structural),
                            minimal |-> D!Sorted(D!Minimal(RT_Calls[ci].f, ArgsOf(RT_Calls[ci])))]))
        ELSE TRUE
AllOk == Res.tag = "ok"
=============================================================================
