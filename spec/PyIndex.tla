------------------------------ MODULE PyIndex ------------------------------
(***************************************************************************)
(* Python / NumPy indexing semantics, transcribed from the language        *)
(* reference (slice.indices, negative wrap of integer indices).  All       *)
(* results are sequences of 1-based positions.                             *)
(*                                                                         *)
(* An optional integer is [some |-> BOOLEAN, v |-> Int].                   *)
(* An index form is one of                                                 *)
(*   [t |-> "slice", s |-> <<opt, opt, opt>>]                              *)
(*   [t |-> "array", v |-> <<ints>>]   (integer ndarray)                   *)
(*   [t |-> "list",  v |-> <<ints>>]   (Python list)                       *)
(*   [t |-> "int",   v |-> Int]                                            *)
(***************************************************************************)
EXTENDS Integers, Sequences

None == [some |-> FALSE, v |-> 0]
Some(x) == [some |-> TRUE, v |-> x]
Max2(a, b) == IF a > b THEN a ELSE b
Min2(a, b) == IF a < b THEN a ELSE b

\* slice(start, stop, step).indices(n)  ->  <<start, stop, step>>
SliceIndices(s, n) ==
    LET step == IF s[3].some THEN s[3].v ELSE 1
        lower == IF step < 0 THEN -1 ELSE 0
        upper == IF step < 0 THEN n - 1 ELSE n
        start == IF ~s[1].some THEN (IF step < 0 THEN upper ELSE lower)
                 ELSE IF s[1].v < 0 THEN Max2(s[1].v + n, lower) ELSE Min2(s[1].v, upper)
        stop  == IF ~s[2].some THEN (IF step < 0 THEN lower ELSE upper)
                 ELSE IF s[2].v < 0 THEN Max2(s[2].v + n, lower) ELSE Min2(s[2].v, upper)
    IN <<start, stop, step>>

\* list(range(start, stop, step)) as 1-based positions
RECURSIVE RangeSeq(_, _, _)
RangeSeq(a, b, st) ==
    IF (st > 0 /\ a >= b) \/ (st < 0 /\ a <= b) THEN <<>>
    ELSE <<a + 1>> \o RangeSeq(a + st, b, st)

InRange(i, n) == -n <= i /\ i < n
Wrap(i, n) == (IF i < 0 THEN i + n ELSE i) + 1

\* positions selected by an index form on an axis of length n
FormOK(f, n) ==
    CASE f.t = "slice" -> (~f.s[3].some) \/ f.s[3].v # 0
      [] f.t = "int" -> InRange(f.v, n)
      [] OTHER -> \A k \in 1..Len(f.v): InRange(f.v[k], n)
Resolve(f, n) ==
    CASE f.t = "slice" -> LET r == SliceIndices(f.s, n) IN RangeSeq(r[1], r[2], r[3])
      [] f.t = "int" -> <<Wrap(f.v, n)>>
      [] OTHER -> [k \in 1..Len(f.v) |-> Wrap(f.v[k], n)]
=============================================================================
