------------------------------- MODULE Annot -------------------------------
(***************************************************************************)
(* Structural annotations: their truth on an exact matrix, and (below)     *)
(* the model of cola's inference rules (cola/annotations.py).              *)
(***************************************************************************)
EXTENDS Expr, FiniteSets

AnnNames == {"SelfAdjoint", "PSD", "Stiefel", "Unitary"}
\* PSD <= SelfAdjoint, Unitary <= Stiefel  (class hierarchy of cola.annotations)
Implies(a, b) == a = b \/ (a = "PSD" /\ b = "SelfAdjoint") \/ (a = "Unitary" /\ b = "Stiefel")
Isa(anns, b) == \E a \in anns: Implies(a, b)

Holds(a, M) ==
    CASE a = "SelfAdjoint" -> IsHermitian(M)
      [] a = "PSD" -> IsSquare(M) /\ IsPSD(M)
      [] a = "Stiefel" -> IsStiefel(M)
      [] a = "Unitary" -> IsUnitary(M)
---------------------------------------------------------------------------
(* Model of cola's inference (cola/annotations.py get_annotations rules, merged with explicit       *)
(* annotations in LinearOperator.__init__, and the declaration wrapper WrapMeta.__call__).           *)
(* Annotation sets are literal sets of names, exactly as in the code: {PSD} & {SelfAdjoint} = {}.    *)
(* "Gram" nodes stand for Product(Transpose(x), x) / Product(Adjoint(x), x) / Product(x, Adjoint(x)) *)
(* built from ONE object x (the code's A^T A pattern tests object identity, which a tree of values   *)
(* cannot express otherwise).                                                                        *)
CtorKinds == {"Dense", "Triangular", "Sparse", "Jacobian", "Hessian", "Diagonal", "Tridiagonal", "Identity",
              "ScalarMul", "Permutation", "Householder", "Kernel", "FFT", "Product", "Sum", "Kronecker", "KronSum",
              "BlockDiag", "Transpose", "Adjoint", "Sliced", "Concatenated", "NoDispatch", "Annot",
              "GramT", "GramH", "GramHr", "SelfProd", "GramWinH", "GramWinT"}
RECURSIVE CtorOnly(_)
CtorOnly(t) == t.k \in CtorKinds /\ \A i \in 1..Len(t.a): CtorOnly(t.a[i])

RECURSIVE Infer(_)
Infer(t) ==
    LET Ch(i) == Infer(t.a[i])
        RECURSIVE Meet(_)
        Meet(i) == IF i = 1 THEN Ch(1) ELSE Ch(i) \cap Meet(i - 1)
        NonScalar == {i \in 1..Len(t.a): t.a[i].k # "ScalarMul"}
    IN
    CASE t.k \in {"Kronecker", "BlockDiag"} -> Meet(Len(t.a))
      [] t.k = "Sum" -> Meet(Len(t.a)) \ {"Unitary", "Stiefel"}
      [] t.k = "Product" ->
            IF Cardinality(NonScalar) = 1 THEN Ch(CHOOSE i \in NonScalar: TRUE)
            ELSE Meet(Len(t.a)) \cap {"Unitary", "Stiefel"}
      \* the transposed factor carries x's annotations minus Stiefel; the A^T A pattern is recognised only
      \* for real x, a complex x falls through to the generic two-factor rule
      \* (are_the_same tests the *second* factor for Adjoint/Transpose first, so x (.)^T-wrapped itself hides
      \* the pattern when it stands on the right)
      \* Product(x, x): the generic rule for a number of non-scalar factors other than one
      [] t.k = "SelfProd" -> Ch(1) \cap {"Unitary", "Stiefel"}
      \* two different windows of one object: two Sliced factors with unequal selectors carry no annotation
      [] t.k \in {"GramWinH", "GramWinT"} -> {}
      [] t.k = "GramHr" -> (Ch(1) \cap {"Unitary"}) \cup {"PSD"}
      [] t.k = "GramH" ->
            IF t.a[1].k \in {"Adjoint", "Transpose"} THEN Ch(1) \cap {"Unitary"}
            ELSE (Ch(1) \cap {"Unitary"}) \cup {"PSD"}
      [] t.k = "GramT" ->
            IF IsComplexDT(DTypeOf(t.a[1])) \/ t.a[1].k \in {"Adjoint", "Transpose"} THEN Ch(1) \cap {"Unitary"}
            ELSE (Ch(1) \cap {"Unitary"}) \cup {"PSD"}
      [] t.k = "Hessian" -> {"SelfAdjoint"}
      [] t.k = "Identity" -> {"Unitary", "PSD"}
      [] t.k \in {"Permutation", "FFT"} -> {"Unitary"}
      [] t.k = "Sliced" ->
            IF t.p.rf = t.p.cf THEN Ch(1) \ {"Unitary", "Stiefel"} ELSE {}
      [] t.k \in {"Transpose", "Adjoint"} -> Ch(1) \ {"Stiefel"}
      [] t.k = "Annot" -> Ch(1) \cup {t.p.ann}
      [] OTHER -> {}

TrueAnns(M) == {a \in AnnNames: Holds(a, M)}
\* annotations the model infers that are false of the exact matrix
Unsound(t) == {a \in Infer(t): ~Holds(a, Denote(t))}
=============================================================================
