------------------------------- MODULE Annot -------------------------------
(***************************************************************************)
(* Structural annotations: their truth on an exact matrix, and (below)     *)
(* the model of cola's inference rules (cola/annotations.py).              *)
(***************************************************************************)
EXTENDS Expr

AnnNames == {"SelfAdjoint", "PSD", "Stiefel", "Unitary"}
\* PSD <= SelfAdjoint, Unitary <= Stiefel  (class hierarchy of cola.annotations)
Implies(a, b) == a = b \/ (a = "PSD" /\ b = "SelfAdjoint") \/ (a = "Unitary" /\ b = "Stiefel")
Isa(anns, b) == \E a \in anns: Implies(a, b)

Holds(a, M) ==
    CASE a = "SelfAdjoint" -> IsHermitian(M)
      [] a = "PSD" -> IsSquare(M) /\ IsPSD(M)
      [] a = "Stiefel" -> IsStiefel(M)
      [] a = "Unitary" -> IsUnitary(M)
=============================================================================
