------------------------------ MODULE MC_Gmres ------------------------------
(***************************************************************************)
(* C13.  The exact GMRES oracle on a catalog of small systems.             *)
(*                                                                         *)
(* State: one catalog case c = (A, b, x0), an iteration budget m, the      *)
(* exact optimum o = GmresOpt(A,b,x0,m) and the previous rho2 (prev).      *)
(* m runs from 0 (the initial guess) to n + 2 (beyond the dimension).      *)
(* In every state TLC checks, on the exact minimiser GmresOpt(A,b,x0,m):   *)
(*   - the catalog is admissible (A square, invertible, integer),          *)
(*   - rho2_m <= rho2_0, rho2_m <= rho2_(m-1),                             *)
(*   - rho2_m = 0  <=>  m >= KDim (degree of the minimal polynomial of A   *)
(*     w.r.t. r0),                                                         *)
(*   - the optimality certificate (A K)^H (b - A x_m) = 0 and the          *)
(*     Galerkin certificate K^H (b - A xg_m) = 0,                          *)
(*   - the minor-based rank test agrees with det(K^H K) # 0 where the Gram *)
(*     determinant fits,                                                   *)
(* and prints one JSON line {id, m, x, rho2, rho2_0, kdim, galerkin} that  *)
(* the conformance harness replays through the real gmres.                 *)
(*                                                                         *)
(* Catalog cases with wide = TRUE are badly scaled real systems (entries   *)
(* up to 10^7, condition numbers 10^2 .. 10^7): their exact optima do not  *)
(* fit 32-bit integers and are evaluated with the wide integers of         *)
(* LeastSquares.tla (WGmresOpt: Gram-determinant ratio for rho2_m, Cramer  *)
(* for x_m).  The same facts are checked on them (W* invariants): rho2_m   *)
(* <= rho2_0, monotone, rho2_m = 0 <=> m >= KDim, the first-order          *)
(* optimality certificate, and - independently of the determinant ratio -  *)
(* ||b - A x_m||^2 = rho2_m evaluated on the exported iterate.             *)
(*                                                                         *)
(* Cases with hom = TRUE are replayed with scaled right-hand sides and     *)
(* tiny initial residuals; ScaleShift checks on them that the optimum is   *)
(* homogeneous in the initial residual and invariant under the shift x0.   *)
(***************************************************************************)
EXTENDS LeastSquares, GmresCatalog, Json, TLC

\* o = GmresOpt(.., m), the exact optimum of the current state; prev = rho2 of the preceding budget
\* (the oracle is evaluated once per state, in the action, i.e. on TLC's worker threads)
VARIABLES c, m, o, prev
vars == <<c, m, o, prev>>

Case == GCases[c]
N == Case.A.r
Wide == Case.wide

R0 == MSub(Case.b, MMul(Case.A, Case.x0))
OptOf(cc, mm) == GmresOpt(GCases[cc].A, GCases[cc].b, GCases[cc].x0, mm)
Gal(mm) == GalerkinOpt(Case.A, Case.b, Case.x0, mm)
KD == KDim(Case.A, R0)

\* wide cases start one step earlier (m = -1, nothing evaluated yet): TLC evaluates the invariants of initial states
\* on a single thread, the wide arithmetic belongs to the actions (worker threads)
Init == /\ c \in 1..Len(GCases) /\ m = (IF GCases[c].wide THEN -1 ELSE 0)
        /\ o = [x |-> GCases[c].x0, rho2 |-> QInt(0), j |-> 0]      \* placeholder: m = 0 is evaluated by Opt(0)
        /\ prev = QInt(0)
Next == /\ m < N + 2 /\ m' = m + 1 /\ c' = c
        /\ o' = IF GCases[c].wide
                THEN IF m >= 0 /\ Min2(m + 1, o.kd) = o.j
                     THEN o        \* the optimum depends on m through j = min(m, KDim) only (m beyond KDim)
                     ELSE WGmresOptKd(GCases[c].A, GCases[c].b, GCases[c].x0, m + 1, IF m = -1 THEN -1 ELSE o.kd)
                ELSE OptOf(c, m + 1)
        /\ prev' = IF GCases[c].wide THEN o
                   ELSE IF m = 0 THEN Norm2(R0) ELSE o.rho2
Spec == Init /\ [][Next]_vars
Opt(mm) == IF mm = 0 THEN GmresOpt(Case.A, Case.b, Case.x0, 0) ELSE o

---------------------------------------------------------------------------
(* wide (badly scaled) cases *)
WA == WOfMat(Case.A)
Wb == WVecOfMat(Case.b)
Wx0 == WVecOfMat(Case.x0)
WR0 == WVecSub(Wb, WMatVec(WA, Wx0))
\* the dimension of the full Krylov space: evaluated in the first step (m = 0) and carried along; a wrong value
\* cannot survive (too small: rho2 # 0 at m = kd; too large: det Gram(A K_j) = 0, i.e. d2 = 0)
WKD == o.kd
WRho0 == WDot(WR0, WR0)

WCatalogOK ==
    /\ Case.A.r = Case.A.c /\ Case.A.d = 1 /\ Case.b.d = 1 /\ Case.x0.d = 1
    /\ Case.b.r = N /\ Case.b.c = 1 /\ Case.x0.r = N /\ Case.x0.c = 1
    /\ MIsReal(Case.A) /\ MIsReal(Case.b) /\ MIsReal(Case.x0)
    /\ ~WIsZero(WDet(WA))
    /\ Case.kdim = WKD
\* n2_m / d2_m <= ||r0||^2 with d2_m > 0
WResidualBound == LET w == o IN w.d2.s = 1 /\ w.n2.s >= 0 /\ WLeq(w.n2, WMul(WRho0, w.d2))
\* n2_m / d2_m <= n2_(m-1) / d2_(m-1)
WMonotone == m >= 1 => WLeq(WMul(o.n2, prev.d2), WMul(prev.n2, o.d2))
WZeroIffExhausted == WIsZero(o.n2) <=> (m >= WKD)
WPrefixIsKrylovDim == o.j = Min2(m, WKD)
\* on the exported iterate x_m = xn / xd: the residual rn / xd is orthogonal to A K_j (first-order optimality,
\* independent of Cramer's rule) and its squared norm is the determinant ratio: |rn|^2 * d2 = n2 * xd^2
WCertificates ==
    LET w == o
        rn == WVecSub(WVecScale(w.xd, Wb), WMatVec(WA, w.xn))
    IN /\ w.xd.s = 1
       /\ WMul(WDot(rn, rn), w.d2) = WMul(w.n2, WMul(w.xd, w.xd))
       /\ (w.j >= 1 => WVecIsZero(WMatVec(WTr(WMatMul(WA, WKrylov(WA, WR0, w.j))), rn)))
WWellFormed ==
    LET w == o IN WOk(w.n2) /\ WOk(w.d2) /\ WOk(w.xd) /\ \A i \in 1..N: WOk(w.xn[i])
WOut ==
    LET w == o
    IN [id |-> Case.id, m |-> m, n |-> N, wide |-> TRUE, kdim |-> WKD, j |-> w.j,
        n2 |-> WFlat(w.n2), d2 |-> WFlat(w.d2), r0 |-> WFlat(WRho0),
        xn |-> [i \in 1..N |-> WFlat(w.xn[i])], xd |-> WFlat(w.xd)]

---------------------------------------------------------------------------
CatalogOK ==
    IF Wide THEN (m >= 0 => WCatalogOK) ELSE
    /\ Case.A.r = Case.A.c /\ Case.A.d = 1 /\ Case.b.d = 1 /\ Case.x0.d = 1
    /\ Case.b.r = N /\ Case.b.c = 1 /\ Case.x0.r = N /\ Case.x0.c = 1
    /\ ~MIsSingular(Case.A)
    /\ Case.kdim = KD                      \* the harness's own exact pre-computation agrees

ResidualBound == IF Wide THEN (m >= 0 => WResidualBound) ELSE QLeqNN(Opt(m).rho2, Norm2(R0))
Monotone == IF Wide THEN WMonotone ELSE (m >= 1 => QLeqNN(o.rho2, prev))
ZeroIffExhausted == IF Wide THEN (m >= 0 => WZeroIffExhausted) ELSE (QIsZero(Opt(m).rho2) <=> (m >= KD))
PrefixIsKrylovDim == IF Wide THEN (m >= 0 => WPrefixIsKrylovDim) ELSE Opt(m).j = Min2(m, KD)

\* first-order optimality of the exported iterates (independent of the way they were computed)
Certificates ==
    IF Wide THEN (m >= 0 => WCertificates /\ WWellFormed) ELSE
    LET j == Min2(m, KD) IN
    j >= 1 =>
      LET K == Krylov(Case.A, R0, j)
          oo == Opt(m)
          g == Gal(m)
      IN /\ MIsZero(MMul(MAdj(MMul(Case.A, K)), MSub(Case.b, MMul(Case.A, oo.x))))
         /\ (g.def => MIsZero(MMul(MAdj(K), MSub(Case.b, MMul(Case.A, g.x)))))
         /\ (g.def => QLeqNN(oo.rho2, g.rho2))

\* det(K^H K) # 0  <=>  some maximal minor # 0, evaluated where the Gram determinant fits in 32 bits
RankTestsAgree ==
    Wide \/
    \A j \in 1..Min2(N, 3):
       LET K == Krylov(Case.A, R0, j) IN
       (~MIsZero(R0) /\ EntriesWithin(K, IF j <= 2 THEN 30 ELSE 6))
          => (FullColRank(K) <=> (GramDet(K) # CZ))

\* Homogeneity and shift invariance (cases flagged hom; the harness replays them with right-hand sides scaled down to
\* 1e-30 and with tiny initial residuals b - A x0): the optimum of (A, HC * r0, x0 = 0) is HC * (x_m - x0) with
\* rho2 multiplied by HC^2, on the same Krylov prefix.  Hence for every scalar c: x_m(A, A x0 + c r0, x0) = x0 +
\* c (x_m - x0) and rho_m / ||r0|| does not depend on c.
HC == -3
ScaleShift ==
    (~Wide /\ Case.hom) =>
      LET oo == Opt(m)
          z == GmresOpt(Case.A, MScale(QInt(HC), R0), Zero(N, 1), m)
      IN /\ MEq(z.x, MScale(QInt(HC), MSub(oo.x, Case.x0)))
         /\ z.rho2 = QNorm([n |-> <<HC * HC * oo.rho2.n[1], 0>>, d |-> oo.rho2.d])
         /\ z.j = oo.j

Out ==
    LET oo == Opt(m)
        g == Gal(m)
    IN [id |-> Case.id, m |-> m, n |-> N, x |-> oo.x, rho2 |-> oo.rho2, rho2_0 |-> Norm2(R0), kdim |-> KD,
        j |-> oo.j, gdef |-> g.def, gx |-> g.x, grho2 |-> g.rho2]
Emit == (Wide /\ m < 0) \/ PrintT(ToJson(IF Wide THEN WOut ELSE Out))
=============================================================================
