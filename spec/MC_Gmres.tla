------------------------------ MODULE MC_Gmres ------------------------------
(***************************************************************************)
(* C13.  The exact GMRES oracle on a catalog of small systems.             *)
(*                                                                         *)
(* State: one catalog case c = (A, b, x0), an iteration budget m, the      *)
(* exact optimum o = GmresOpt(A,b,x0,m) and the previous rho2 (prev).      *)
(* m runs from 0 (the initial guess) to n + 2 (beyond the dimension).      *)
(* In every state TLC checks, on the exact minimiser GmresOpt(A,b,x0,m):   *)
(*   - the catalog is admissible (A square, invertible, integer),          *)
(*   - rho2_m <= rho2_0, rho2_m <= rho2_(m-1),                             *)
(*   - rho2_m = 0  <=>  m >= KDim (degree of the minimal polynomial of A   *)
(*     w.r.t. r0),                                                         *)
(*   - the optimality certificate (A K)^H (b - A x_m) = 0 and the          *)
(*     Galerkin certificate K^H (b - A xg_m) = 0,                          *)
(*   - the minor-based rank test agrees with det(K^H K) # 0 where the Gram *)
(*     determinant fits,                                                   *)
(* and prints one JSON line {id, m, x, rho2, rho2_0, kdim, galerkin} that  *)
(* the conformance harness replays through the real gmres.                 *)
(***************************************************************************)
EXTENDS LeastSquares, GmresCatalog, Json, TLC

\* o = GmresOpt(.., m), the exact optimum of the current state; prev = rho2 of the preceding budget
\* (the oracle is evaluated once per state, in the action, i.e. on TLC's worker threads)
VARIABLES c, m, o, prev
vars == <<c, m, o, prev>>

Case == GCases[c]
N == Case.A.r

R0 == MSub(Case.b, MMul(Case.A, Case.x0))
OptOf(cc, mm) == GmresOpt(GCases[cc].A, GCases[cc].b, GCases[cc].x0, mm)
Gal(mm) == GalerkinOpt(Case.A, Case.b, Case.x0, mm)
KD == KDim(Case.A, R0)

Init == /\ c \in 1..Len(GCases) /\ m = 0
        /\ o = [x |-> GCases[c].x0, rho2 |-> QInt(0), j |-> 0]      \* placeholder: m = 0 is evaluated by Opt(0)
        /\ prev = QInt(0)
Next == /\ m < N + 2 /\ m' = m + 1 /\ c' = c
        /\ o' = OptOf(c, m + 1)
        /\ prev' = IF m = 0 THEN Norm2(R0) ELSE o.rho2
Spec == Init /\ [][Next]_vars
Opt(mm) == IF mm = 0 THEN GmresOpt(Case.A, Case.b, Case.x0, 0) ELSE o

CatalogOK ==
    /\ Case.A.r = Case.A.c /\ Case.A.d = 1 /\ Case.b.d = 1 /\ Case.x0.d = 1
    /\ Case.b.r = N /\ Case.b.c = 1 /\ Case.x0.r = N /\ Case.x0.c = 1
    /\ ~MIsSingular(Case.A)
    /\ Case.kdim = KD                      \* the harness's own exact pre-computation agrees

ResidualBound == QLeqNN(Opt(m).rho2, Norm2(R0))
Monotone == m >= 1 => QLeqNN(o.rho2, prev)
ZeroIffExhausted == QIsZero(Opt(m).rho2) <=> (m >= KD)
PrefixIsKrylovDim == Opt(m).j = Min2(m, KD)

\* first-order optimality of the exported iterates (independent of the way they were computed)
Certificates ==
    LET j == Min2(m, KD) IN
    j >= 1 =>
      LET K == Krylov(Case.A, R0, j)
          oo == Opt(m)
          g == Gal(m)
      IN /\ MIsZero(MMul(MAdj(MMul(Case.A, K)), MSub(Case.b, MMul(Case.A, oo.x))))
         /\ (g.def => MIsZero(MMul(MAdj(K), MSub(Case.b, MMul(Case.A, g.x)))))
         /\ (g.def => QLeqNN(oo.rho2, g.rho2))

\* det(K^H K) # 0  <=>  some maximal minor # 0, evaluated where the Gram determinant fits in 32 bits
RankTestsAgree ==
    \A j \in 1..Min2(N, 3):
       LET K == Krylov(Case.A, R0, j) IN
       (~MIsZero(R0) /\ EntriesWithin(K, IF j <= 2 THEN 30 ELSE 6))
          => (FullColRank(K) <=> (GramDet(K) # CZ))

Out ==
    LET oo == Opt(m)
        g == Gal(m)
    IN [id |-> Case.id, m |-> m, n |-> N, x |-> oo.x, rho2 |-> oo.rho2, rho2_0 |-> Norm2(R0), kdim |-> KD,
        j |-> oo.j, gdef |-> g.def, gx |-> g.x, grho2 |-> g.rho2]
Emit == PrintT(ToJson(Out))
=============================================================================
