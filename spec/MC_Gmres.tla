------------------------------ MODULE MC_Gmres ------------------------------
(***************************************************************************)
(* C13.  The exact GMRES oracle on a catalog of small systems.             *)
(*                                                                         *)
(* State: one catalog case c = (A, b, x0) and an iteration budget m.       *)
(* m runs from 0 (the initial guess) to n + 2 (beyond the dimension).      *)
(* In every state TLC checks, on the exact minimiser GmresOpt(A,b,x0,m):   *)
(*   - the catalog is admissible (A square, invertible, integer),          *)
(*   - rho2_m <= rho2_0, rho2_m <= rho2_(m-1),                             *)
(*   - rho2_m = 0  <=>  m >= KDim (degree of the minimal polynomial of A   *)
(*     w.r.t. r0),                                                         *)
(*   - the optimality certificate (A K)^H (b - A x_m) = 0 and the          *)
(*     Galerkin certificate K^H (b - A xg_m) = 0,                          *)
(*   - the minor-based rank test agrees with det(K^H K) # 0 where the Gram *)
(*     determinant fits,                                                   *)
(* and prints one JSON line {id, m, x, rho2, rho2_0, kdim, galerkin} that  *)
(* the conformance harness replays through the real gmres.                 *)
(***************************************************************************)
EXTENDS LeastSquares, GmresCatalog, Json, TLC

VARIABLES c, m
vars == <<c, m>>

Case == GCases[c]
N == Case.A.r

Init == c \in 1..Len(GCases) /\ m = 0
Next == m < N + 2 /\ m' = m + 1 /\ c' = c
Spec == Init /\ [][Next]_vars

R0 == MSub(Case.b, MMul(Case.A, Case.x0))
Opt(mm) == GmresOpt(Case.A, Case.b, Case.x0, mm)
Gal(mm) == GalerkinOpt(Case.A, Case.b, Case.x0, mm)
KD == KDim(Case.A, R0)

CatalogOK ==
    /\ Case.A.r = Case.A.c /\ Case.A.d = 1 /\ Case.b.d = 1 /\ Case.x0.d = 1
    /\ Case.b.r = N /\ Case.b.c = 1 /\ Case.x0.r = N /\ Case.x0.c = 1
    /\ ~MIsSingular(Case.A)
    /\ Case.kdim = KD                      \* the harness's own exact pre-computation agrees

ResidualBound == QLeqNN(Opt(m).rho2, Norm2(R0))
Monotone == m >= 1 => QLeqNN(Opt(m).rho2, Opt(m - 1).rho2)
ZeroIffExhausted == QIsZero(Opt(m).rho2) <=> (m >= KD)
PrefixIsKrylovDim == Opt(m).j = Min2(m, KD)

\* first-order optimality of the exported iterates (independent of the way they were computed)
Certificates ==
    LET j == Min2(m, KD) IN
    j >= 1 =>
      LET K == Krylov(Case.A, R0, j)
          o == Opt(m)
          g == Gal(m)
      IN /\ MIsZero(MMul(MAdj(MMul(Case.A, K)), MSub(Case.b, MMul(Case.A, o.x))))
         /\ (g.def => MIsZero(MMul(MAdj(K), MSub(Case.b, MMul(Case.A, g.x)))))
         /\ (g.def => QLeqNN(o.rho2, g.rho2))

\* det(K^H K) # 0  <=>  some maximal minor # 0, evaluated where the Gram determinant fits in 32 bits
RankTestsAgree ==
    \A j \in 1..Min2(N, 3):
       LET K == Krylov(Case.A, R0, j) IN
       (~MIsZero(R0) /\ EntriesWithin(K, IF j <= 2 THEN 30 ELSE 6))
          => (FullColRank(K) <=> (GramDet(K) # CZ))

Out ==
    LET o == Opt(m)
        g == Gal(m)
    IN [id |-> Case.id, m |-> m, n |-> N, x |-> o.x, rho2 |-> o.rho2, rho2_0 |-> Norm2(R0), kdim |-> KD,
        j |-> o.j, gdef |-> g.def, gx |-> g.x, grho2 |-> g.rho2]
Emit == PrintT(ToJson(Out))
=============================================================================
