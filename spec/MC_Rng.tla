------------------------------ MODULE MC_Rng ------------------------------
(***************************************************************************)
(* Model checking of C17 over ALL interleavings of user actions on the     *)
(* global NumPy generator with calls of the randomised routines.           *)
(*                                                                         *)
(* The generated module RngModel carries, for the CURRENT tree, the        *)
(* discipline with which each routine obtains its random numbers,          *)
(* extracted from the source (harness/props/c17.py, extract_model):        *)
(*   "keyed"   every draw goes through xnp.randn(..., key=<caller key>)    *)
(*   "fixed"   xnp.randn is called without a key (falls back to a fixed    *)
(*             built-in key): deterministic, but the key is not honoured   *)
(*   "global"  numbers are taken directly from numpy's global generator    *)
(* and whether np_fns.randn saves and restores the global state.           *)
(*                                                                         *)
(* Every behaviour of length <= RM_MaxLen is explored; each step of a call *)
(* is judged against the specification of module Rng (g unchanged, output  *)
(* equal to the first one observed for the same routine and key).  The     *)
(* judged behaviours are printed for replay against the real library.      *)
(* DisciplineSound is the design-level theorem: the keyed / fixed          *)
(* save-and-restore disciplines implement the specification in every       *)
(* interleaving.  Routines of discipline "global" are the model's          *)
(* predicted violations (reported by the harness once confirmed on code).  *)
(***************************************************************************)
EXTENDS Integers, Sequences, FiniteSets, Json, TLC, RngModel

VARIABLES g, out, hist, verd

SeqToSet(s) == {s[i]: i \in DOMAIN s}
RoutineSet == SeqToSet(RM_Routines)
KeySet == SeqToSet(RM_Keys)
SeedSet == SeqToSet(RM_Seeds)
AllDigests == {"unused"}

R == INSTANCE Rng WITH Routines <- RoutineSet, Keys <- KeySet, Seeds <- SeedSet, Digests <- AllDigests

NActs == Len(RM_Acts)

(* modelled mechanism of one call: <<new global state, output value>> *)
Advance(x) == <<x[1], x[2] + 1>>
Mech(r, k) ==
    LET d == RM_Disc[r] IN
    CASE d = "keyed"  -> <<IF RM_RandnRestores THEN g ELSE <<"reseeded-by-key", k>>, ToString(<<r, "key", k>>)>>
      [] d = "fixed"  -> <<IF RM_RandnRestores THEN g ELSE <<"reseeded-by-key", 0>>, ToString(<<r, "fixed">>)>>
      [] d = "global" -> <<Advance(g), ToString(<<r, "global", g>>)>>

Init == /\ R!Init
        /\ hist = <<>>
        /\ verd = <<>>

(* All behaviours are explored; of the longest ones every RM_SampleMod-th is printed for replay (1 = all).  The *)
(* selection depends on the last action through 13 * i, so for RM_SampleMod coprime to 13 every behaviour of   *)
(* length RM_MaxLen - 1 keeps at least NActs \div RM_SampleMod printed extensions.                              *)
RECURSIVE WSum(_, _)
WSum(h, j) == IF j >= Len(h) THEN 0 ELSE (h[j] * (7 * j + 3)) + WSum(h, j + 1)
SelectedLeaf ==
    \/ RM_SampleMod = 1
    \/ (WSum(hist, 1) + 13 * hist[Len(hist)] + RM_SampleRes) % RM_SampleMod = 0

Step(i) ==
    LET a == RM_Acts[i] IN
    /\ Len(hist) < RM_MaxLen
    /\ hist' = Append(hist, i)
    /\ CASE a.t = "draw" -> R!UserDraw /\ verd' = Append(verd, <<TRUE, TRUE>>)
         [] a.t = "seed" -> R!UserSeed(a.s) /\ verd' = Append(verd, <<TRUE, TRUE>>)
         [] a.t = "call" ->
              LET m == Mech(a.r, a.k) IN
              /\ g' = m[1]
              /\ out' = R!Remember(out, a.r, a.k, m[2])
              /\ verd' = Append(verd, <<R!CallOkGlobal(g, m[1]), R!CallOkDeterministic(out, a.r, a.k, m[2])>>)

Next == \E i \in 1..NActs: Step(i)
vars == <<g, out, hist, verd>>
Spec == Init /\ [][Next]_vars

(* design-level result *)
DisciplineSound ==
    \A j \in 1..Len(hist):
        LET a == RM_Acts[hist[j]] IN
        (a.t = "call" /\ RM_RandnRestores /\ RM_Disc[a.r] \in {"keyed", "fixed"}) => verd[j] = <<TRUE, TRUE>>

(* user actions are the only ones allowed to move g: every other move is flagged *)
FlagsComplete ==
    \A j \in 1..Len(hist):
        LET a == RM_Acts[hist[j]] IN
        (a.t = "call" /\ RM_Disc[a.r] = "global") => verd[j][1] = FALSE

Bit(b) == IF b THEN 1 ELSE 0
Emit == (Len(hist) = RM_MaxLen /\ SelectedLeaf) =>
            PrintT(ToJson([h |-> hist,
                           vg |-> [j \in 1..Len(verd) |-> Bit(verd[j][1])],
                           vd |-> [j \in 1..Len(verd) |-> Bit(verd[j][2])]]))
=============================================================================
