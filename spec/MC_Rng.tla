------------------------------ MODULE MC_Rng ------------------------------
(***************************************************************************)
(* Model checking of C17 over ALL interleavings of user actions on the     *)
(* global NumPy generator with calls of the randomised routines.           *)
(*                                                                         *)
(* The generated module RngModel carries, for the CURRENT tree, the        *)
(* discipline with which each routine obtains its random numbers,          *)
(* extracted from the source (harness/props/c17.py, extract_model):        *)
(*   "keyed"   every draw goes through xnp.randn(..., key=<caller key>)    *)
(*   "fixed"   xnp.randn is called without a key (falls back to a fixed    *)
(*             built-in key): deterministic, but the key is not honoured   *)
(*   "global"  numbers are taken directly from numpy's global generator    *)
(* whether np_fns.randn saves and restores the global state                *)
(* (RM_RandnRestores) and whether it is free of module-level mutable state *)
(* (RM_RandnStateless; a memo / cache / counter that survives the call).   *)
(*                                                                         *)
(* Actions (RM_Acts): [t |-> "draw"], [t |-> "seed", s], and               *)
(*   [t |-> "call", r, op, k]   routine r on operator op with key k.       *)
(* The alphabet is split into MODES (RM_Modes), each a set of actions with *)
(* its own length bound, because the full product is too large:            *)
(*   base       every routine x every key on ONE operator ("base"; the     *)
(*              harness replays it on several), with user draws / seeds;   *)
(*   variant:r  ONE routine on the operator variants float32 / float64 /   *)
(*              complex64 / complex128 of one matrix (equal shapes, so     *)
(*              that only the dtype tells their draws apart) x every key,  *)
(*              interleaved with UNRELATED keyed draws (routine            *)
(*              "raw_randn": same key with another shape and dtype, other  *)
(*              key with the same shape) and user draws.                   *)
(* Every behaviour of a mode of length <= its bound is explored; each step *)
(* of a call is judged against the specification of module Rng (g          *)
(* unchanged, output equal to the first one observed for the same routine, *)
(* operator and key).  The judged behaviours are printed for replay        *)
(* against the real library.                                               *)
(*                                                                         *)
(* KeyedOutputsAreAFunction is the property as an ACTION property over the *)
(* explicit history Events(hist, outs) (Rng!ExtendsFunction): the output   *)
(* of the call just made equals that of every earlier call of the same     *)
(* (routine,                                                               *)
(* operator, key), whatever calls of other dtypes / shapes / keys came in  *)
(* between.  It is the design-level theorem for the disciplined routines:  *)
(* keyed / fixed draws through a randn that restores the global state and  *)
(* keeps no state of its own implement the specification in every          *)
(* interleaving.  Routines of discipline "global", and every routine if    *)
(* randn keeps state (the model then lets a draw depend, in the worst      *)
(* case, on the keyed draw made before it: variable memo), are the model's *)
(* predicted violations (reported by the harness once confirmed on code).  *)
(***************************************************************************)
EXTENDS Integers, Sequences, FiniteSets, Json, TLC, RngModel

VARIABLES g, out, hist, verd, mode, memo, outs

SeqToSet(s) == {s[i]: i \in DOMAIN s}
RoutineSet == SeqToSet(RM_Routines)
OperatorSet == SeqToSet(RM_Ops)
KeySet == SeqToSet(RM_Keys)
SeedSet == SeqToSet(RM_Seeds)
AllDigests == {"unused"}

R == INSTANCE Rng WITH Routines <- RoutineSet, Operators <- OperatorSet, Keys <- KeySet, Seeds <- SeedSet,
                       Digests <- AllDigests

NActs == Len(RM_Acts)
NModes == Len(RM_Modes)
ModeActs(m) == SeqToSet(RM_Modes[m].acts)
(* the slots a mode can touch: `out` is the restriction of Rng!out to them (all others stay "none") *)
ModeSlots(m) == {<<RM_Acts[i].r, RM_Acts[i].op, RM_Acts[i].k>>: i \in {j \in ModeActs(m): RM_Acts[j].t = "call"}}

(* modelled mechanism of one call: <<new global state, output value>> *)
Advance(x) == <<x[1], x[2] + 1>>
Leftover == IF RM_RandnStateless THEN "" ELSE ToString(memo)
Mech(r, op, k) ==
    LET d == RM_Disc[r] IN
    CASE d = "keyed"  -> <<IF RM_RandnRestores THEN g ELSE <<"reseeded-by-key", k>>, ToString(<<r, op, "key", k, Leftover>>)>>
      [] d = "fixed"  -> <<IF RM_RandnRestores THEN g ELSE <<"reseeded-by-key", 0>>, ToString(<<r, op, "fixed", Leftover>>)>>
      [] d = "global" -> <<Advance(g), ToString(<<r, op, "global", g>>)>>

Init == /\ mode \in 1..NModes
        /\ g = R!GBoot
        /\ out = [s \in ModeSlots(mode) |-> "none"]
        /\ hist = <<>>
        /\ verd = <<>>
        /\ memo = "none"
        /\ outs = <<>>

(* All behaviours are explored; of the longest ones every mod-th is printed for replay (1 = all).  The          *)
(* selection depends on the last action through 13 * i, so for mod coprime to 13 every behaviour one shorter    *)
(* than the bound keeps a printed extension whenever the mode owns mod consecutive action indices.              *)
RECURSIVE WSum(_, _)
WSum(h, j) == IF j >= Len(h) THEN 0 ELSE (h[j] * (7 * j + 3)) + WSum(h, j + 1)
SelectedLeaf ==
    LET md == RM_Modes[mode] IN
    \/ md.mod = 1
    \/ (WSum(hist, 1) + 13 * hist[Len(hist)] + md.res) % md.mod = 0

(* the explicit history: event j = action hist[j] with the value outs[j] it returned ("" for user actions) *)
NoEvent == [call |-> FALSE, r |-> "", op |-> "", k |-> 0, o |-> ""]
EventAt(h, os, j) ==
    LET a == RM_Acts[h[j]] IN
    IF a.t = "call" THEN [call |-> TRUE, r |-> a.r, op |-> a.op, k |-> a.k, o |-> os[j]] ELSE NoEvent
Events(h, os) == [j \in 1..Len(h) |-> EventAt(h, os, j)]

Step(i) ==
    LET a == RM_Acts[i] IN
    /\ Len(hist) < RM_Modes[mode].maxlen
    /\ hist' = Append(hist, i)
    /\ UNCHANGED mode
    /\ CASE a.t = "draw" -> /\ R!UserDraw /\ verd' = Append(verd, <<TRUE, TRUE>>)
                            /\ UNCHANGED memo /\ outs' = Append(outs, "")
         [] a.t = "seed" -> /\ R!UserSeed(a.s) /\ verd' = Append(verd, <<TRUE, TRUE>>)
                            /\ UNCHANGED memo /\ outs' = Append(outs, "")
         [] a.t = "call" ->
              LET m == Mech(a.r, a.op, a.k) IN
              /\ g' = m[1]
              /\ out' = R!Remember(out, a.r, a.op, a.k, m[2])
              /\ verd' = Append(verd, <<R!CallOkGlobal(g, m[1]), R!CallOkDeterministic(out, a.r, a.op, a.k, m[2])>>)
              /\ memo' = IF RM_RandnStateless \/ RM_Disc[a.r] = "global" THEN memo ELSE <<a.op, a.k>>
              /\ outs' = Append(outs, m[2])

Next == \E j \in 1..Len(RM_Modes[mode].acts): Step(RM_Modes[mode].acts[j])
vars == <<g, out, hist, verd, mode, memo, outs>>
Spec == Init /\ [][Next]_vars

Disciplined(r) == RM_RandnRestores /\ RM_RandnStateless /\ RM_Disc[r] \in {"keyed", "fixed"}

(* THE PROPERTY as an action property over histories that interleave calls on different operators (dtypes),    *)
(* probe shapes and keys: the call just appended returns what every earlier call of the same (routine,         *)
(* operator, key) returned, and leaves g alone - for every disciplined routine (design-level theorem).         *)
KeyedOutputsAreAFunction ==
    [][LET e == EventAt(hist', outs', Len(hist')) IN
       (e.call /\ Disciplined(e.r)) => (R!ExtendsFunction(Events(hist, outs), e) /\ g' = g)]_vars

(* ... and as a state predicate over the whole history, when every routine that was called is disciplined *)
HistoryIsAFunction ==
    LET evs == Events(hist, outs) IN
    (\A j \in 1..Len(evs): evs[j].call => Disciplined(evs[j].r)) => R!FunctionOfRoutineOperatorKey(evs)

(* distinct keys / operators are NOT forced equal: the mechanism model keeps them apart (sensitivity of the     *)
(* model: the call just made differs from every earlier call of the same keyed routine in another slot)        *)
ModelSeparatesSlots ==
    [][LET e == EventAt(hist', outs', Len(hist'))
           evs == Events(hist, outs) IN
       (e.call /\ RM_Disc[e.r] = "keyed") =>
            \A j \in 1..Len(evs): (evs[j].call /\ evs[j].r = e.r /\ ~R!SameSlot(evs[j], e)) => evs[j].o # e.o]_vars

(* design-level result, verdict form (the verdicts are what the harness compares with the code) *)
DisciplineSound ==
    \A j \in 1..Len(hist):
        LET a == RM_Acts[hist[j]] IN
        (a.t = "call" /\ Disciplined(a.r)) => verd[j] = <<TRUE, TRUE>>

(* user actions are the only ones allowed to move g: every other move is flagged *)
FlagsComplete ==
    \A j \in 1..Len(hist):
        LET a == RM_Acts[hist[j]] IN
        (a.t = "call" /\ RM_Disc[a.r] = "global") => verd[j][1] = FALSE

Bit(b) == IF b THEN 1 ELSE 0
Emit == (Len(hist) = RM_Modes[mode].maxlen /\ SelectedLeaf) =>
            PrintT(ToJson([m |-> mode, h |-> hist,
                           vg |-> [j \in 1..Len(verd) |-> Bit(verd[j][1])],
                           vd |-> [j \in 1..Len(verd) |-> Bit(verd[j][2])]]))
=============================================================================
