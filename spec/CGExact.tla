------------------------------ MODULE CGExact ------------------------------
(***************************************************************************)
(* Conjugate gradients exactly as coded in cola/linalg/inverse/cg.py, over  *)
(* exact Gaussian rationals (Mat.tla), plus the property oracle: the exact  *)
(* A-norm minimiser over x0 + K_k(MA, M r0) obtained from the normal        *)
(* equations on the exact Krylov basis.                                     *)
(*                                                                         *)
(* Transcribed functions (names as in cg.py):                               *)
(*   run_batched_cg : mult = ||b|| per column, b_norm = do_safe_div(b,mult),*)
(*                    x0 = x0 / where(mult == 0, 1, mult),                  *)
(*                    initialize(A, b_norm, P, x0), ...,                    *)
(*                    returned solution = state.x * mult                    *)
(*   initialize, take_cg_step, update_alpha, update_gamma_beta, do_safe_div *)
(* Abstractions (stated in the evidence):                                   *)
(*   - "|d| < 1e-40" of do_safe_div and "||r|| < 1e-40" of the converged    *)
(*     mask are the exact tests d = 0 / r = 0 (no non-zero quantity of the  *)
(*     catalog is that small).  do_safe_div returns 0 for a zero            *)
(*     denominator whatever the numerator; the model records whether a     *)
(*     NON-zero numerator was ever discarded that way (SafeDivOK) and an    *)
(*     invariant of MC_CG says it never is for definite A and M.            *)
(*   - every right-hand-side column is one record (x, r, p, gamma, alpha,   *)
(*     beta): the code's reductions are all over axis -2 with keepdims, so  *)
(*     columns never mix; that the real code agrees column by column is     *)
(*     established by the conformance replay.                               *)
(*   - ||b|| must be rational to run the normalised recurrence literally.   *)
(*     Columns with an irrational norm are run un-normalised (mult := 1),   *)
(*     which is the same output by scale-equivariance of the recurrence;    *)
(*     this is only sound for x0 = 0 (enforced by SystemOK) and is itself   *)
(*     model-checked on every rational-norm column (MC_CG!Equivariance).    *)
(* Vectors are n x 1 matrices of Mat.tla; scalars are Mat's Q records kept  *)
(* in lowest terms (32-bit integers in TLC: everything is reduced early).   *)
(***************************************************************************)
EXTENDS Mat

---------------------------------------------------------------------------
(* rational scalars in lowest terms *)
QZ == QInt(0)
Content(z) == Gcd(z[1], z[2])
CDivI(z, g) == <<z[1] \div g, z[2] \div g>>
QNorm(x) ==
    LET g == Gcd(Content(x.n), x.d) IN
    IF g <= 1 THEN x ELSE [n |-> CDivI(x.n, g), d |-> x.d \div g]
\* product with cross reduction before multiplying
QMulR(x, y) ==
    LET g1 == Gcd(Content(x.n), y.d)
        g2 == Gcd(Content(y.n), x.d)
    IN QNorm([n |-> CMul(CDivI(x.n, g1), CDivI(y.n, g2)), d |-> (x.d \div g2) * (y.d \div g1)])
Lcm(a, b) == (a \div Gcd(a, b)) * b
QAddR(x, y) ==
    LET l == Lcm(x.d, y.d) IN
    QNorm([n |-> CAdd(CScaleI(l \div x.d, x.n), CScaleI(l \div y.d, y.n)), d |-> l])
\* 1/x for x # 0, lowest terms:  conj(n) * d / |n|^2
QInvR(x) ==
    LET g == Content(x.n)
        m == CDivI(x.n, g)                       \* x = g * m / d
    IN QNorm([n |-> CScaleI(x.d, CConj(m)), d |-> g * CAbs2(m)])
QDivR(x, y) == QMulR(x, QInvR(y))
QSame(x, y) == QNorm(x) = QNorm(y)
QIsNonNegReal(x) == x.n[2] = 0 /\ x.n[1] >= 0

---------------------------------------------------------------------------
(* vectors: v = VCoef(v) * VPrim(v), VPrim a primitive Gaussian-integer vector *)
VZero(n) == Zero(n, 1)
VContent(v) == GcdRows(v.e, 0)
VPrim(v) ==
    LET g == VContent(v) IN
    IF g = 0 THEN MkMat(v.r, 1, LAMBDA i, j: CZ)
    ELSE MkMat(v.r, 1, LAMBDA i, j: CDivI(v.e[i][j], g))
VCoef(v) == QNorm([n |-> <<VContent(v), 0>>, d |-> v.d])
\* lowest common denominator addition
VAdd(u, v) ==
    LET l == Lcm(u.d, v.d) IN
    MNormalize(MkMatD(u.r, 1, l, LAMBDA i, j: CAdd(CScaleI(l \div u.d, u.e[i][j]), CScaleI(l \div v.d, v.e[i][j]))))
VSub(u, v) == VAdd(u, MNeg(v))
\* s * v for a rational scalar s
VScale(s, v) ==
    LET c == QMulR(s, VCoef(v))
        w == VPrim(v)
    IN MNormalize(MkMatD(v.r, 1, c.d, LAMBDA i, j: CMul(c.n, w.e[i][j])))
VAxpy(x, a, p) == VAdd(x, VScale(a, p))
\* A v  (A a matrix with its own denominator)
MV(A, v) ==
    LET c == VCoef(v)
        w == VPrim(v)
        g == Gcd(c.n[1], A.d)
        y == MkMat(A.r, 1, LAMBDA i, j: CSumSeq([k \in 1..A.c |-> CMul(A.e[i][k], w.e[k][1])]))
    IN MNormalize(MkMatD(A.r, 1, (A.d \div g) * c.d, LAMBDA i, j: CScaleI(c.n[1] \div g, y.e[i][j])))
\* u^H v   ( = sum(conj(u) * v, axis=-2) )
Dot(u, v) ==
    LET pu == VPrim(u)
        pv == VPrim(v)
        s == CSumSeq([i \in 1..u.r |-> CMul(CConj(pu.e[i][1]), pv.e[i][1])])
    IN QMulR(QMulR(VCoef(u), VCoef(v)), QNorm([n |-> s, d |-> 1]))
VIsZero(v) == MIsZero(v)
VEq(u, v) == MNormalize(u) = MNormalize(v)

---------------------------------------------------------------------------
(* cg.py, function by function *)

\* do_safe_div(num, denom) = where(|denom| < 1e-40, 0, num / denom)
SafeDivOK(num, den) == ~QIsZero(den) \/ QIsZero(num)
SafeDiv(num, den) == IF QIsZero(den) THEN QZ ELSE QDivR(num, den)
\* b_norm = do_safe_div(b, mult)
NormaliseRhs(b, mult) == IF QIsZero(mult) THEN VZero(b.r) ELSE VScale(QInvR(mult), b)
NormaliseOK(b, mult) == ~QIsZero(mult) \/ VIsZero(b)
\* x0 = x0 / where(mult == 0, 1, mult)
NormaliseX0(x0, mult) == IF QIsZero(mult) THEN x0 ELSE VScale(QInvR(mult), x0)

\* initialize(A, b, preconditioner, x0)
Initialize(A, M, bn, x0) ==
    LET r0 == VSub(bn, MV(A, x0))
        z0 == MV(M, r0)
    IN [x |-> x0, r |-> r0, p |-> z0, gamma |-> Dot(r0, z0), alpha |-> QZ, beta |-> QZ, sd |-> TRUE]

\* has_converged = norm(r0) < eps
HasConverged(c) == VIsZero(c.r)

\* update_alpha(gamma, p, Ap, has_converged)
UpdateAlpha(gamma, p, Ap, conv) ==
    LET denom == Dot(p, Ap)
        alpha == SafeDiv(gamma, denom)
    IN IF conv THEN QZ ELSE alpha

\* update_gamma_beta(r, z, gamma0, has_converged)  ->  <<gamma1, beta>>
UpdateGammaBeta(r, z, gamma0, conv) ==
    LET gamma1 == Dot(r, z)
        beta == SafeDiv(gamma1, gamma0)
    IN <<gamma1, IF conv THEN QZ ELSE beta>>

\* take_cg_step(state, A, preconditioner)   (one column)
TakeStep(A, M, c) ==
    LET conv == HasConverged(c)
        Ap0 == MV(A, c.p)
        alpha == UpdateAlpha(c.gamma, c.p, Ap0, conv)
        x1 == VAxpy(c.x, alpha, c.p)
        r1 == VAxpy(c.r, QNeg(alpha), Ap0)
        z1 == MV(M, r1)
        gb == UpdateGammaBeta(r1, z1, c.gamma, conv)
        p1 == VAxpy(z1, gb[2], c.p)
    IN [x |-> x1, r |-> r1, p |-> p1, gamma |-> gb[1], alpha |-> alpha, beta |-> gb[2],
        sd |-> c.sd /\ SafeDivOK(c.gamma, Dot(c.p, Ap0)) /\ SafeDivOK(gb[1], c.gamma)]

\* the state after k steps, as a function of k (used to compare two runs inside one invariant)
RECURSIVE RecK(_, _, _, _, _)
RecK(A, M, bn, x0, k) == IF k = 0 THEN Initialize(A, M, bn, x0) ELSE TakeStep(A, M, RecK(A, M, bn, x0, k - 1))

\* what run_batched_cg returns for one column: state[0] * mult
Returned(c, mult) == VScale(mult, c.x)

---------------------------------------------------------------------------
(* Property oracle: argmin ||x* - x||_A over x0 + K_k(MA, M r0)            *)
(* Krylov vectors are kept primitive (only their span matters).             *)
KVec(A, M, r0, j) ==
    LET RECURSIVE F(_)
        F(i) == IF i = 0 THEN VPrim(MV(M, r0)) ELSE VPrim(MV(M, MV(A, F(i - 1))))
    IN F(j)
\* n x j matrix of the first j Krylov vectors
KMat(A, M, r0, j) ==
    LET cols == [i \in 1..j |-> KVec(A, M, r0, i - 1)] IN
    MkMat(A.r, j, LAMBDA a, b: cols[b].e[a][1])
\* K_j^H A K_j  (Hermitian positive definite iff the j vectors are independent, A being definite)
Gram(A, K) == MNormalize(MMul(MAdj(K), MMul(A, K)))
Independent(A, M, r0, j) ==
    IF j = 0 THEN TRUE
    ELSE IF j = A.r THEN DetN(KMat(A, M, r0, j)) # CZ
    ELSE DetN(Gram(A, KMat(A, M, r0, j))) # CZ
\* dimension of K_k: largest j <= min(k, n) with independent vectors (Krylov spaces are nested and stationary)
KDimUpTo(A, M, r0, k) ==
    LET m == IF k < A.r THEN k ELSE A.r
        RECURSIVE F(_)
        F(j) == IF j = 0 THEN 0 ELSE IF Independent(A, M, r0, j) THEN j ELSE F(j - 1)
    IN F(m)
CGOpt(A, M, b, x0, k) ==
    LET r0 == VSub(b, MV(A, x0))
        j == KDimUpTo(A, M, r0, k)
    IN IF j = 0 THEN MNormalize(x0)
       ELSE IF j = A.r
       \* K spans everything: K^H A (x - x*) = 0 with K invertible is A x = b
       THEN MNormalize(MMul(MInverse(A), MNormalize(b)))
       ELSE LET K == KMat(A, M, r0, j)
                G == Gram(A, K)
                c == MNormalize(MMul(MAdj(K), MNormalize(r0)))
                y == MNormalize(MMul(MInverse(G), c))         \* normal equations  G y = K^H r0
            IN VAdd(MNormalize(x0), MNormalize(MMul(K, y)))
\* Galerkin characterisation (used as a cross-check of CGOpt itself): residual orthogonal to K_k
Galerkin(A, M, b, x0, k, x) ==
    LET r0 == VSub(b, MV(A, x0))
        j == KDimUpTo(A, M, r0, k)
        r == VSub(b, MV(A, x))
    IN \A i \in 1..j: QIsZero(Dot(KVec(A, M, r0, i - 1), r))
=============================================================================
