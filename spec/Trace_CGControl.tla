-------------------------- MODULE Trace_CGControl --------------------------
(***************************************************************************)
(* Trace specification of the control contract of cola's conjugate         *)
(* gradients (cg.py: cond_fun / run_batched_cg; torch_tqdm.py:             *)
(* while_loop_winfo).  Events are recorded from real executions by a       *)
(* wrapper of np_fns.while_loop_winfo that still calls the original and    *)
(* wraps the cond_fun / body_fun handed to it; one ndjson line per event:  *)
(*                                                                         *)
(*  ev = "cond" : one evaluation of the loop condition                     *)
(*      k        iteration counter stored in the loop state                *)
(*      steps    body evaluations so far (counted by the recorder)         *)
(*      above    per column "T" / "F" / "E": is ||r|| > tol*(1+||r_init||)  *)
(*               (recomputed by the harness from the loop state; "E" =     *)
(*               within 1e-12 relative of the threshold: either answer)    *)
(*      cont     what the real condition returned                          *)
(*      nprod    products with A so far (counting operator)                *)
(*      maxit    the max_iters given to cg                                 *)
(*  ev = "end"  : after the loop returned                                  *)
(*      k, steps, nprod, maxit as above (final state), iterations =        *)
(*      info["iterations"], nerr = len(info["errors"]), errs_ok = the      *)
(*      reported residual history equals the tracked residuals (harness    *)
(*      predicate), shape_ok = solution has the shape of the rhs           *)
(*  first = TRUE on the first event of an execution, tid = execution id.   *)
(*                                                                         *)
(* Control model (CGControl instantiating the while_loop_winfo bookkeeping): *)
(*   ctl = [sk: steps taken, evals: condition evaluations, phase]           *)
(*   Cond:  phase = "run", logged k = steps = sk, k <= maxit,               *)
(*          nprod = k + 1 (initial residual + one per step),               *)
(*          cont <=> (some column above) /\ k < maxit   ("E" allows both)  *)
(*          cont => sk' = sk + 1 ; ~cont => phase' = "stopped"             *)
(*   End:   phase = "stopped", k = steps = sk <= maxit, nprod = k + 1,      *)
(*          iterations = evals (one increment per evaluation) and          *)
(*          iterations - k \in {0, 1}; errors has one entry per evaluation  *)
(*          plus the final one minus the two dropped: max(evals - 1, 0);    *)
(*          errs_ok; shape_ok                                              *)
(* One TLC state per event; executions are independent chains explored in  *)
(* parallel.  Every state prints its verdict with the failing clauses, so  *)
(* the harness names event and clause; after a rejected event the model    *)
(* re-synchronises on the logged counters so later events still get a      *)
(* meaningful verdict.                                                     *)
(***************************************************************************)
EXTENDS Integers, Sequences, FiniteSets, Json, TLC, IOUtils

Events == ndJsonDeserialize(IOEnv.TRACE_FILE)
NEvents == Len(Events)

VARIABLES l, ctl, bad
vars == <<l, ctl, bad>>

SetOf(s) == {s[i]: i \in DOMAIN s}

InitCtl == [sk |-> 0, evals |-> 0, phase |-> "run"]

\* cond_fun contract:  flag = any(rs > tol) & (k < max_iters)
ContOK(e) ==
    LET ab == SetOf(e.above)
        must == "T" \in ab                    \* some column is definitely above its threshold
        may == ab \cap {"T", "E"} # {}        \* some column is possibly above
    IN IF e.k >= e.maxit THEN ~e.cont
       ELSE (must => e.cont) /\ (e.cont => may)

CondClauses(c, e) ==
    (IF c.phase = "run" THEN {} ELSE {"phase"})
    \cup (IF e.k = c.sk /\ e.steps = c.sk THEN {} ELSE {"counter"})
    \cup (IF e.k <= e.maxit /\ e.steps <= e.maxit THEN {} ELSE {"cap"})
    \cup (IF e.nprod = e.steps + 1 THEN {} ELSE {"products"})
    \cup (IF ContOK(e) THEN {} ELSE {"continue"})

EndClauses(c, e) ==
    (IF c.phase = "stopped" THEN {} ELSE {"phase"})
    \cup (IF e.k = c.sk /\ e.steps = c.sk THEN {} ELSE {"counter"})
    \cup (IF e.k <= e.maxit /\ e.steps <= e.maxit THEN {} ELSE {"cap"})
    \cup (IF e.nprod = e.steps + 1 THEN {} ELSE {"products"})
    \cup (IF e.iterations = c.evals /\ e.iterations - e.steps \in {0, 1} THEN {} ELSE {"iterations"})
    \cup (IF e.nerr = (IF c.evals >= 1 THEN c.evals - 1 ELSE 0) /\ e.errs_ok THEN {} ELSE {"errors"})
    \cup (IF e.shape_ok THEN {} ELSE {"shape"})

Clauses(c, e) == IF e.ev = "cond" THEN CondClauses(c, e) ELSE EndClauses(c, e)

\* control state after the event (re-synchronised on the logged counters)
After(c, e) ==
    IF e.ev = "cond"
    THEN [sk |-> IF e.cont THEN e.steps + 1 ELSE e.steps, evals |-> c.evals + 1,
          phase |-> IF e.cont THEN "run" ELSE "stopped"]
    ELSE [sk |-> e.steps, evals |-> c.evals, phase |-> "done"]

Starts == {i \in 1..NEvents: Events[i].first}

Init == /\ l \in Starts
        /\ bad = Clauses(InitCtl, Events[l])
        /\ ctl = After(InitCtl, Events[l])

Next == /\ l < NEvents
        /\ ~Events[l + 1].first
        /\ Events[l + 1].tid = Events[l].tid
        /\ l' = l + 1
        /\ bad' = Clauses(ctl, Events[l + 1])
        /\ ctl' = After(ctl, Events[l + 1])

Spec == Init /\ [][Next]_vars

\* an execution must end with its "end" event (no truncated loops)
Complete == (l = NEvents \/ Events[l + 1].first) => Events[l].ev = "end"

Verdict == PrintT(ToJson([l |-> l, ok |-> (bad = {} /\ Complete),
                          bad |-> bad \cup (IF Complete THEN {} ELSE {"truncated"})]))
=============================================================================
