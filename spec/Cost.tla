-------------------------------- MODULE Cost --------------------------------
(***************************************************************************)
(* A cost semantics for matrix-free products of structured operators.      *)
(*                                                                         *)
(* Trees are abstract: leaves carry only a kind and a shape                *)
(*   [k |-> "Dense", r |-> rows, c |-> cols], "Diagonal"/"Identity"/       *)
(*   "ScalarMul" with r = c = n                                            *)
(* and composites carry children `a` (BlockDiag also multiplicities `m`).  *)
(*                                                                         *)
(* Work(t, k) is the number of array elements that the documented          *)
(* matrix-free algorithm of each kind keeps alive, beyond the operand,     *)
(* while computing t @ X for an operand X with k columns (reshape /        *)
(* moveaxis contraction for Kronecker and KronSum, block slicing for       *)
(* BlockDiag, one pass per factor for Product, accumulation for Sum).      *)
(* Bound(t, k) is the budget the property grants: a fixed multiple of the  *)
(* operand size plus the dense sizes of the individual factors.            *)
(* The invariants (checked by TLC on the cost catalog):                    *)
(*   WorkWithinBound   the matrix-free algorithms stay within the budget;  *)
(*   BoundSeparates    the budget is far below the dense size n^2, so a    *)
(*                     measurement under the budget rules out              *)
(*                     densification;                                      *)
(*   Catalog          the catalog really is in the property's regime       *)
(*                    (n^2 >= 1000 x factor storage).                      *)
(* Element counts are expressed in units of 1024 elements ("Ki") where     *)
(* they could exceed 32 bits.                                              *)
(***************************************************************************)
EXTENDS Integers, Sequences

Max2c(a, b) == IF a > b THEN a ELSE b

RECURSIVE Rows(_), Cols(_), Storage(_)
RECURSIVE ProdRows(_, _), ProdCols(_, _)
ProdRows(s, i) == IF i = 0 THEN 1 ELSE Rows(s[i]) * ProdRows(s, i - 1)
ProdCols(s, i) == IF i = 0 THEN 1 ELSE Cols(s[i]) * ProdCols(s, i - 1)
RECURSIVE SumRowsM(_, _, _), SumColsM(_, _, _), SumStorage(_, _)
SumRowsM(s, m, i) == IF i = 0 THEN 0 ELSE Rows(s[i]) * m[i] + SumRowsM(s, m, i - 1)
SumColsM(s, m, i) == IF i = 0 THEN 0 ELSE Cols(s[i]) * m[i] + SumColsM(s, m, i - 1)
SumStorage(s, i) == IF i = 0 THEN 0 ELSE Storage(s[i]) + SumStorage(s, i - 1)

Rows(t) == CASE t.k \in {"Dense", "Diagonal", "Identity", "ScalarMul"} -> t.r
             [] t.k \in {"Kronecker", "KronSum"} -> ProdRows(t.a, Len(t.a))
             [] t.k = "BlockDiag" -> SumRowsM(t.a, t.m, Len(t.a))
             [] t.k = "Product" -> Rows(t.a[1])
             [] t.k = "Sum" -> Rows(t.a[1])
Cols(t) == CASE t.k \in {"Dense", "Diagonal", "Identity", "ScalarMul"} -> t.c
             [] t.k \in {"Kronecker", "KronSum"} -> ProdCols(t.a, Len(t.a))
             [] t.k = "BlockDiag" -> SumColsM(t.a, t.m, Len(t.a))
             [] t.k = "Product" -> Cols(t.a[Len(t.a)])
             [] t.k = "Sum" -> Cols(t.a[1])
\* elements held by the operator itself (the "dense sizes of the individual factors")
Storage(t) == CASE t.k = "Dense" -> t.r * t.c
                [] t.k = "Diagonal" -> t.r
                [] t.k = "ScalarMul" -> 1
                [] t.k = "Identity" -> 0
                [] OTHER -> SumStorage(t.a, Len(t.a))

\* largest intermediate of the Kronecker contraction: after contracting the first i factors the tensor has
\* rows(M_1..M_i) x cols(M_i+1..M_m) entries per operand column
RECURSIVE TailCols(_, _)
TailCols(s, i) == IF i > Len(s) THEN 1 ELSE Cols(s[i]) * TailCols(s, i + 1)
Stage(s, i) == ProdRows(s, i) * TailCols(s, i + 1)
RECURSIVE MaxStage(_, _)
MaxStage(s, i) == IF i = 0 THEN Stage(s, 0) ELSE Max2c(Stage(s, i), MaxStage(s, i - 1))

RECURSIVE Work(_, _)
RECURSIVE MaxWork(_, _, _), SumWorkBlocks(_, _, _, _)
MaxWork(s, k, i) == IF i = 0 THEN 0 ELSE Max2c(Work(s[i], k), MaxWork(s, k, i - 1))
SumWorkBlocks(s, m, k, i) == IF i = 0 THEN 0 ELSE Work(s[i], k * m[i]) + SumWorkBlocks(s, m, k, i - 1)
RECURSIVE MaxInter(_, _, _)
MaxInter(s, k, i) == IF i = 0 THEN 0 ELSE Max2c(Rows(s[i]) * k, MaxInter(s, k, i - 1))
RECURSIVE MaxFactorWork(_, _, _)
\* factor i of a Kronecker product is applied to (stage / cols_i) columns at once
MaxFactorWork(s, k, i) ==
    IF i = 0 THEN 0
    ELSE Max2c(Work(s[i], (Stage(s, i - 1) \div Cols(s[i])) * k), MaxFactorWork(s, k, i - 1))

Work(t, k) ==
    CASE t.k = "Dense" -> t.r * k                                   \* the result
      [] t.k \in {"Diagonal", "ScalarMul"} -> t.r * k
      [] t.k = "Identity" -> 0                                      \* returns the operand
      [] t.k = "Product" -> MaxWork(t.a, k, Len(t.a)) + 2 * MaxInter(t.a, k, Len(t.a))
      [] t.k = "Sum" -> MaxWork(t.a, k, Len(t.a)) + 2 * Rows(t) * k
      \* per factor: moved-axis copy, factor product, moved back
      [] t.k = "Kronecker" -> 3 * MaxStage(t.a, Len(t.a)) * k + MaxFactorWork(t.a, k, Len(t.a))
      [] t.k = "KronSum" -> 4 * MaxStage(t.a, Len(t.a)) * k + MaxFactorWork(t.a, k, Len(t.a))
      [] t.k = "BlockDiag" -> SumWorkBlocks(t.a, t.m, k, Len(t.a)) + 2 * Rows(t) * k

RECURSIVE Span(_)
\* largest side of any intermediate tensor, per operand column
Span(t) == CASE t.k \in {"Kronecker", "KronSum"} -> MaxStage(t.a, Len(t.a))
             [] t.k \in {"Product", "Sum", "BlockDiag"} ->
                   LET RECURSIVE F(_)
                       F(i) == IF i = 0 THEN Max2c(Rows(t), Cols(t)) ELSE Max2c(Span(t.a[i]), F(i - 1))
                   IN F(Len(t.a))
             [] OTHER -> Max2c(t.r, t.c)

\* the budget of the property: "a fixed multiple of the operand size plus the dense sizes of the factors"
BoundMultiple == 8
Bound(t, k) == BoundMultiple * Span(t) * k + Storage(t)

WorkWithinBound(t, k) == Work(t, k) <= Bound(t, k)
\* dense size in Ki elements (rows * cols can exceed 32 bits)
DenseKi(t) == (Rows(t) \div 32) * (Cols(t) \div 32)
BoundKi(t, k) == (Bound(t, k) \div 1024) + 1
BoundSeparates(t, k) == 16 * BoundKi(t, k) <= DenseKi(t)
InRegime(t) == DenseKi(t) >= Storage(t)          \* n^2 / 1024 >= storage  <=>  n^2 >= 1024 x factor storage
=============================================================================
