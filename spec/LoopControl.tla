---------------------------- MODULE LoopControl ----------------------------
(***************************************************************************)
(* Control skeletons (M-ctl) of cola's Lanczos and Arnoldi loops as state  *)
(* machines in functional form: a control state                            *)
(*      [ctr, done, evals, bodies]                                         *)
(* and a step function CtlStep that consumes the boolean outcome of the    *)
(* numeric test.  The same definitions drive                               *)
(*   - MC_LoopControl: every sequence of test outcomes for small (n, m);   *)
(*   - MC_Krylov: the exact test (residual # 0) derived from the Krylov    *)
(*     ranks, tying the skeleton to the property's column counts;          *)
(*   - Trace_LoopControl: recorded executions of the real loops.           *)
(*                                                                         *)
(* lanczos  (cola/linalg/decompositions/lanczos.py)                        *)
(*   cap = min(max_iters, n); counter i starts at 1; buffers V: n x (cap+2)*)
(*   diag: cap, subdiag: cap+1; continue iff                               *)
(*        i <= cap  /\  (subdiag[i-1] > tol * subdiag[1]  \/  i <= 1);     *)
(*   on non-tracing backends the result is trimmed to iters = i-1 columns: *)
(*   Q = V[:, 1:-1][:, :iters], diag[:iters], subdiag[1:-1][:iters-1].     *)
(* arnoldi  (cola/linalg/decompositions/arnoldi.py)                        *)
(*   counter idx starts at 0; buffers sized by the REQUESTED max_iters m:  *)
(*   Q: n x (m+1), H: (m+1) x m; loop capped by cap = min(m, n);           *)
(*   (ArnoldiBufCaps: a tree that clamps the request to n before sizing    *)
(*   the buffers is admitted as the second layout, mb = min(m, n))         *)
(*   continue iff idx < cap /\ (norm > tol * H[1,0] \/ idx <= 0);          *)
(*   nothing is trimmed.                                                   *)
(* tol = 0 ("never stop early on round-off") is an ordinary tolerance: the *)
(*   numeric test degenerates to "residual > 0", which is MC_Krylov's      *)
(*   exact test whenever the residuals are exact floating-point numbers    *)
(*   (exact-breakdown family, Krylov!FPExact); Trace_LoopControl then      *)
(*   demands exactly that outcome of every recorded evaluation (field kd). *)
(* The `@type` comments are for Apalache (spec/Ind_LoopControl.tla proves   *)
(* CtlInv inductively for all n, m); TLC ignores them.                     *)
(* while_loop_winfo (cola/utils/torch_tqdm.py)                             *)
(*   info.iterations = number of condition evaluations; one error value is *)
(*   appended per evaluation and one after the loop, the first two dropped.*)
(***************************************************************************)
EXTENDS Integers, Sequences

LMin2(a, b) == IF a < b THEN a ELSE b
LMax2(a, b) == IF a > b THEN a ELSE b

Algs == {"lanczos", "arnoldi"}
Cap(m, n) == LMin2(m, n)
\* admissible buffer caps of arnoldi for a requested max_iters m: the request itself (pinned snapshot) or the
\* request clamped to n; the loop cap min(m, n) is the same for both
ArnoldiBufCaps(m, n) == {m, Cap(m, n)}
CtrInit(alg) == IF alg = "lanczos" THEN 1 ELSE 0
\* @type: Str => { ctr: Int, done: Bool, evals: Int, bodies: Int };
CtlInit(alg) == [ctr |-> CtrInit(alg), done |-> FALSE, evals |-> 0, bodies |-> 0]

\* the loop condition; `large` is the outcome of the numeric test (any over the batch)
Cont(alg, ctr, cap, large) ==
    IF alg = "lanczos" THEN ctr <= cap /\ (large \/ ctr <= 1)
    ELSE ctr < cap /\ (large \/ ctr <= 0)

\* one condition evaluation, followed by the body iff it returned TRUE
\* @type: ({ ctr: Int, done: Bool, evals: Int, bodies: Int }, Bool) => { ctr: Int, done: Bool, evals: Int, bodies: Int };
CtlAdvance(st, cont) ==
    IF cont THEN [st EXCEPT !.ctr = @ + 1, !.evals = @ + 1, !.bodies = @ + 1]
    ELSE [st EXCEPT !.done = TRUE, !.evals = @ + 1]
\* @type: (Str, { ctr: Int, done: Bool, evals: Int, bodies: Int }, Int, Bool) => { ctr: Int, done: Bool, evals: Int, bodies: Int };
CtlStep(alg, st, cap, large) == CtlAdvance(st, Cont(alg, st.ctr, cap, large))

\* observable outputs after the loop has stopped with control state st
\* @type: (Str, Int, Int, { ctr: Int, done: Bool, evals: Int, bodies: Int }) => { q: <<Int, Int>>, t: <<Int, Int>>, offd: Int, steps: Int, iterations: Int, nerr: Int };
Out(alg, n, m, st) ==
    LET cap == Cap(m, n) IN
    IF alg = "lanczos"
    THEN LET iters == st.ctr - 1
             cols == LMin2(iters, cap)                             \* V[1:-1] has cap columns
             offd == LMin2(LMax2(iters - 1, 0), LMax2(cap - 1, 0)) \* subdiag[1:-1] has cap-1 entries
         IN [q |-> <<n, cols>>, t |-> <<cols, cols>>, offd |-> offd, steps |-> st.bodies,
             iterations |-> st.evals, nerr |-> LMax2(st.evals - 1, 0)]
    ELSE [q |-> <<n, m + 1>>, t |-> <<m + 1, m>>, offd |-> 0, steps |-> st.ctr,
          iterations |-> st.evals, nerr |-> LMax2(st.evals - 1, 0)]

(* contract of the skeleton, for every reachable control state *)
\* @type: (Str, Int, Int, { ctr: Int, done: Bool, evals: Int, bodies: Int }) => Bool;
CtlInv(alg, n, m, st) ==
    LET cap == Cap(m, n) IN
    /\ st.bodies <= cap                                   \* never more steps than the cap
    /\ st.ctr = CtrInit(alg) + st.bodies                  \* reported counter consistent with steps taken
    /\ st.evals = st.bodies + (IF st.done THEN 1 ELSE 0)
    /\ st.done => st.bodies >= 1                          \* the first test is always passed (i <= 1 / idx <= 0)
    /\ st.done =>
          LET o == Out(alg, n, m, st) IN
          /\ o.steps = st.bodies
          /\ alg = "lanczos" => /\ o.q[2] = st.bodies /\ o.q[2] <= cap /\ o.q[2] >= 1
                                /\ o.t = <<o.q[2], o.q[2]>> /\ o.offd = o.q[2] - 1
          /\ alg = "arnoldi" => /\ o.q = <<n, m + 1>> /\ o.t = <<m + 1, m>> /\ o.steps <= cap
          /\ o.iterations = st.bodies + 1 /\ o.nerr = st.bodies
=============================================================================
