---------------------------- MODULE LinalgRules ----------------------------
(***************************************************************************)
(* Mechanism model of cola's structural linear-algebra rules.              *)
(*                                                                         *)
(* One operator per dispatch rule of                                       *)
(*   cola/linalg/inverse/inv.py        (Inv..,  entry point InvRule)       *)
(*   cola/linalg/logdet/logdet.py      (Det..,  entry point DetRule)       *)
(*   cola/linalg/trace/diag_trace.py   (DiagRule, TraceRule)               *)
(*   cola/linalg/decompositions/decompositions.py  (PluRule, CholRule)     *)
(* transcribed from the code at HEAD for the default algorithm Auto().     *)
(* Every rule returns a record                                             *)
(*    [calls |-> <<names of the plum signatures resolved, in call order>>, *)
(*     exc   |-> "none" or the class name of the exception that escapes,   *)
(*     val   |-> the value returned (result tree / rational / column)]     *)
(* so the *selection* among rules, the *order* of the recursive calls and  *)
(* the *refusals* (assertions, crashes) are part of the model, not only    *)
(* the algebraic identity.  Rule names are literally the strings the       *)
(* conformance harness derives from the signature that plum resolves:      *)
(*    f(Type1,Type2,...)   followed by "?" if the signature is conditional *)
(*                                                                         *)
(* Selection (plum fork, Dispatch.tla): a rule typed on a proper operator  *)
(* class and the base case (LinearOperator, Auto) are incomparable, so the *)
(* precedence decides: 0 beats the base cases' -1.  A conditional rule     *)
(* only matches when its condition holds.  The conditional inv rule        *)
(*    (LinearOperator, Algorithm) if A.isa(Unitary): Unitary(A.H)          *)
(* is *less specific* than (LinearOperator, Auto|LU|Cholesky|CG|GMRES) and *)
(* is dropped by the resolver's candidate loop: it cannot fire for any     *)
(* documented algorithm (InvUnitaryRule below is therefore never selected  *)
(* by InvRule; conformance confirms it on Unitary-declared operands).      *)
(*                                                                         *)
(* Explicit domain restrictions (exc = "Unmodelled", skipped by the        *)
(* conformance harness, vacuous in the statements):                        *)
(*  - the generic diagonal prober (Exact) on a NON-SQUARE operand;         *)
(*  - dense Cholesky on the positive SEMI-definite singular boundary       *)
(*    (rounding decides between LinAlgError and a 1e-8 pivot);             *)
(*  - operators with more than 1e6 entries (CG / GMRES / Lanczos / Arnoldi *)
(*    branches of Auto are transcribed for inv, never reached by TLC).     *)
(* Not modelled: dtypes of the results, annotations of the results, the    *)
(* `@` simplifications (cola.fns.dot) beyond the class skeletons observed. *)
(***************************************************************************)
EXTENDS Annot

CONSTANT Mutant     \* "none", or the name of a deliberately wrong rule variant (negative controls)

---------------------------------------------------------------------------
(* dispatch class: declarations (cola.PSD(x), ...) return an object of the same class;            *)
(* cola.fns.no_dispatch returns a bare LinearOperator                                             *)
RECURSIVE Strip(_)
Strip(t) == IF t.k = "Annot" THEN Strip(t.a[1]) ELSE t
ClassOf(t) == LET u == Strip(t) IN IF u.k = "NoDispatch" THEN "LinearOperator" ELSE u.k

IsSq(t) == ShapeOf(t)[1] = ShapeOf(t)[2]
\* all([M.shape[-2] == M.shape[-1] for M in A.Ms])   -- the condition of the Product rules of inv and slogdet
AllSquare(u) == \A i \in 1..Len(u.a): IsSq(u.a[i])
IsaPSD(t) == Isa(Infer(t), "PSD")             \* A.isa(PSD)
IsaUnitary(t) == Isa(Infer(t), "Unitary")
Small(t) == ShapeOf(t)[1] * ShapeOf(t)[2] <= 1000000      \* np.prod(A.shape) <= 1e6

Res(calls, exc, val) == [calls |-> calls, exc |-> exc, val |-> val]
NoVal == [none |-> TRUE]
OK(r) == r.exc = "none"
AllOK(rs) == \A i \in 1..Len(rs): OK(rs[i])
\* a comprehension / generator over the factors evaluates left to right and stops at the first exception
ChainCalls(rs) ==
    LET RECURSIVE F(_)
        F(i) == IF i > Len(rs) THEN <<>>
                ELSE IF OK(rs[i]) THEN rs[i].calls \o F(i + 1) ELSE rs[i].calls
    IN F(1)
FirstExc(rs) ==
    IF AllOK(rs) THEN "none"
    ELSE rs[CHOOSE i \in 1..Len(rs): ~OK(rs[i]) /\ \A j \in 1..(i - 1): OK(rs[j])].exc
Vals(rs) == [i \in 1..Len(rs) |-> rs[i].val]
\* rule `name` calls itself on every factor in order, then builds v
Compose(name, rs, v) == Res(<<name>> \o ChainCalls(rs), FirstExc(rs), IF AllOK(rs) THEN v ELSE NoVal)
Reverse(s) == [i \in 1..Len(s) |-> s[Len(s) + 1 - i]]

RECURSIVE QProdSeq(_)
QProdSeq(s) == IF s = <<>> THEN QInt(1) ELSE QMul(Head(s), QProdSeq(Tail(s)))
RECURSIVE QSumSeq(_)
QSumSeq(s) == IF s = <<>> THEN QInt(0) ELSE QAdd(Head(s), QSumSeq(Tail(s)))
RECURSIVE IProdSeq(_)
IProdSeq(s) == IF s = <<>> THEN 1 ELSE Head(s) * IProdSeq(Tail(s))
\* folds that cancel common factors after every step (32-bit integers)
RECURSIVE MProdN(_)
MProdN(s) == IF Len(s) = 1 THEN s[1] ELSE MNormalize(MMul(s[1], MProdN(Tail(s))))
RECURSIVE MKronN(_)
MKronN(s) == IF Len(s) = 1 THEN s[1] ELSE MNormalize(MKron(s[1], MKronN(Tail(s))))
RECURSIVE MBlockN(_)
MBlockN(s) == IF Len(s) = 1 THEN s[1] ELSE MNormalize(MBlock2(s[1], MBlockN(Tail(s))))
RECURSIVE MVStackN(_)
MVStackN(s) == IF Len(s) = 1 THEN s[1] ELSE MNormalize(MVStack(s[1], MVStackN(Tail(s))))

---------------------------------------------------------------------------
(* 1.  cola.linalg.inv(A, Auto())                                          *)
(*                                                                         *)
(* Result trees use the ordinary kinds (Identity, Permutation, Product,    *)
(* Kronecker, BlockDiag) plus leaves with an exact payload                 *)
(*   p = [def  |-> the inverse the code asks for exists,                   *)
(*        tame |-> def and the payload fits 32-bit arithmetic,             *)
(*        m    |-> the exact inverse (when tame)]                          *)
(* of kind "ScalarMul", "Diagonal", "TriangularInv" (class TriangularInv), *)
(* "LUInv"   = inv(U) @ inv(L) @ inv(P)  with P, L, U = plu(A) (dense),    *)
(* "CholInv" = inv(L.H) @ inv(L)         with L = cholesky(A)   (dense),   *)
(* "IterInv" = IterativeOperatorWInfo(A, CG | GMRES)  (large operators).   *)
\* 32-bit safety: MInverse multiplies the adjugate by the denominator and (complex case) by conj(det); the
\* soundness statements multiply inverses with each other and cross-multiply denominators
TameM(M) ==
    LET dn == DetN(M) IN
    /\ M.d <= 8
    /\ (M.r <= 4 \/ (MIsReal(M) /\ EntriesWithin(M, 8)))
    /\ IF dn[2] = 0 THEN Abs(dn[1]) <= 2000 ELSE (Abs(dn[1]) <= 63 /\ Abs(dn[2]) <= 63)
InvLeaf(kind, M) ==
    LET def == IsSquare(M) /\ ~MIsSingular(M)
        can == def /\ TameM(M)
        mi == IF can THEN MInverse(M) ELSE Zero(1, 1)
    IN N(kind, <<>>, [def |-> def, tame |-> can /\ EntriesWithin(mi, 300), m |-> mi])

\* @dispatch inv(A: Identity, alg: Algorithm):  return A
InvIdentity(u) == Res(<<"inv(Identity,Algorithm)">>, "none", u)
\* @dispatch inv(A: ScalarMul, alg):  ScalarMul(1 / A.c, shape=A.shape, dtype=A.dtype, device=A.device)
InvScalarMul(u) ==
    LET nz == ~QIsZero(u.p.c) IN
    Res(<<"inv(ScalarMul,Algorithm)">>, "none",
        N("ScalarMul", <<>>, [def |-> nz, tame |-> nz,
                              m |-> IF nz THEN MScale(QInv(u.p.c), Eye(u.p.n)) ELSE Zero(1, 1)]))
\* @dispatch inv(A: Permutation, alg):  Permutation(argsort(A.perm), A.dtype)
ArgSort(p) == [j \in 1..Len(p) |-> CHOOSE i \in 1..Len(p): p[i] = j]
InvPermutation(u) ==
    Res(<<"inv(Permutation,Algorithm)">>, "none", N("Permutation", <<>>, [perm |-> ArgSort(u.p.perm), dt |-> u.p.dt]))
\* @dispatch inv(A: Diagonal, alg):  Diagonal(1. / A.diag)        (no exception for a zero entry: inf)
RecipDiag(v) ==
    LET n == Len(v)
        D == IProdSeq([i \in 1..n |-> CAbs2(v[i])])
    IN MNormalize(MkMatD(n, n, D, LAMBDA i, j: IF i = j THEN CScaleI(D \div CAbs2(v[i]), CConj(v[i])) ELSE CZ))
InvDiagonal(u) ==
    LET nz == \A i \in 1..Len(u.p.v): u.p.v[i] # CZ IN
    Res(<<"inv(Diagonal,Algorithm)">>, "none",
        N("Diagonal", <<>>, [def |-> nz, tame |-> nz, m |-> IF nz THEN RecipDiag(u.p.v) ELSE Zero(1, 1)]))
\* @dispatch inv(A: Triangular, alg):  TriangularInv(A)            (lazy: triangular solves)
InvTriangular(u) == Res(<<"inv(Triangular,Algorithm)">>, "none", InvLeaf("TriangularInv", u.p.m))
\* @dispatch(cond = A.isa(Unitary)) inv(A: LinearOperator, alg: Algorithm):  Unitary(A.H)   -- shadowed, see header
InvUnitaryRule(t) == Res(<<"inv(LinearOperator,Algorithm)?">>, "none", N("Adjoint", <<t>>, NoP))

\* base cases (precedence -1):  inv(A, Auto) -> Cholesky | CG | LU | GMRES
\*   Cholesky: assert A.isa(PSD); L = cholesky(A); inv(L.H) @ inv(L)       (cholesky(LinearOperator): dense, raises
\*             LinAlgError unless positive definite)
\*   LU:       P, L, U = plu(A); inv(U) @ inv(L) @ inv(P)                   (plu(LinearOperator): dense scipy lu;
\*             for a non-square A the factors do not chain: inv(U) @ inv(L) raises before inv(P) is called)
\* dense Cholesky of a matrix that is not positive definite: LinAlgError -- except on the boundary (positive
\* semi-definite and singular), where rounding decides whether the last pivot is 0 or 1e-16 (DOMAIN RESTRICTION)
CholFailure(D) == IF IsSquare(D) /\ IsPSD(D) THEN "Unmodelled" ELSE "LinAlgError"
InvFallback(t) ==
    LET D == Denote(t)
        auto == "inv(LinearOperator,Auto)"
        tri == "inv(Triangular,Algorithm)"
    IN IF ~Small(t)
       THEN IF IsaPSD(t) THEN Res(<<auto, "inv(LinearOperator,CG)">>, "none", N("IterInv", <<>>, [alg |-> "CG"]))
            ELSE Res(<<auto, "inv(LinearOperator,GMRES)">>, "none", N("IterInv", <<>>, [alg |-> "GMRES"]))
       ELSE IF IsaPSD(t)
       THEN IF IsSquare(D) /\ IsPD(D)
            THEN Res(<<auto, "inv(LinearOperator,Cholesky)", "cholesky(LinearOperator)", tri, tri>>, "none",
                     InvLeaf("CholInv", D))
            ELSE Res(<<auto, "inv(LinearOperator,Cholesky)", "cholesky(LinearOperator)">>, CholFailure(D), NoVal)
       ELSE IF ~IsSquare(D)
            THEN Res(<<auto, "inv(LinearOperator,LU)", "plu(LinearOperator)", tri, tri>>, "AssertionError", NoVal)
            ELSE Res(<<auto, "inv(LinearOperator,LU)", "plu(LinearOperator)", tri, tri, "inv(Permutation,Algorithm)">>,
                     "none", InvLeaf("LUInv", D))

RECURSIVE InvRule(_)
InvRule(t) ==
    LET u == Strip(t)
        cls == ClassOf(t)
        sub == [i \in 1..Len(u.a) |-> InvRule(u.a[i])]
    IN CASE cls = "Identity" -> InvIdentity(u)
         [] cls = "ScalarMul" -> InvScalarMul(u)
         [] cls = "Permutation" -> InvPermutation(u)
         [] cls = "Diagonal" -> InvDiagonal(u)
         [] cls = "Triangular" -> InvTriangular(u)
         \* @dispatch(cond=all square factors) inv(A: Product, alg):  Product(*reversed([inv(M, alg) for M in A.Ms]))
         [] cls = "Product" /\ (AllSquare(u) \/ Mutant = "ProductNoGuard") ->
               Compose("inv(Product,Algorithm)?", sub,
                       N("Product", IF Mutant = "ProductNotReversed" THEN Vals(sub) ELSE Reverse(Vals(sub)), NoP))
         \* @dispatch inv(A: BlockDiag, alg):  BlockDiag(*[inv(M, alg) for M in A.Ms], multiplicities=A.multiplicities)
         [] cls = "BlockDiag" ->
               Compose("inv(BlockDiag,Algorithm)", sub,
                       N("BlockDiag", Vals(sub),
                         [mult |-> IF Mutant = "BlockInvNoMult" THEN [i \in 1..Len(u.a) |-> 1] ELSE u.p.mult]))
         \* @dispatch inv(A: Kronecker, alg):  Kronecker(*[inv(M, alg) for M in A.Ms])
         [] cls = "Kronecker" ->
               Compose("inv(Kronecker,Algorithm)", sub,
                       N("Kronecker", IF Mutant = "KronInvReversed" THEN Reverse(Vals(sub)) ELSE Vals(sub), NoP))
         [] OTHER -> InvFallback(t)

\* denotation of result trees
RECURSIVE DenoteR(_)
DenoteR(r) ==
    IF Len(r.a) = 0 THEN (IF "m" \in DOMAIN r.p THEN r.p.m ELSE Denote(r))
    ELSE LET ds == [i \in 1..Len(r.a) |-> DenoteR(r.a[i])] IN
         CASE r.k = "Product" -> MProdN(ds)
           [] r.k = "Kronecker" -> MKronN(ds)
           [] r.k = "BlockDiag" -> MBlockN(Repeat(ds, r.p.mult))
RECURSIVE AllDef(_)
AllDef(r) == IF Len(r.a) = 0 THEN ("def" \in DOMAIN r.p => r.p.def) ELSE \A i \in 1..Len(r.a): AllDef(r.a[i])
RECURSIVE AllTame(_)
AllTame(r) == IF Len(r.a) = 0 THEN ("tame" \in DOMAIN r.p => r.p.tame) ELSE \A i \in 1..Len(r.a): AllTame(r.a[i])

\* class skeleton of the object the real code returns
SL(k) == [k |-> k, a |-> <<>>]
RECURSIVE Skel(_)
Skel(r) ==
    CASE r.k = "LUInv" -> [k |-> "Product", a |-> <<SL("TriangularInv"), SL("TriangularInv"), SL("Permutation")>>]
      [] r.k = "CholInv" -> [k |-> "Product", a |-> <<SL("TriangularInv"), SL("TriangularInv")>>]
      [] r.k = "IterInv" -> SL("IterativeOperatorWInfo")
      [] OTHER -> [k |-> r.k, a |-> [i \in 1..Len(r.a) |-> Skel(r.a[i])]]

---------------------------------------------------------------------------
(* 2.  cola.linalg.slogdet(A, Auto(), Auto())  as the exact determinant sign * exp(logdet)        *)
\* parity as the code computes it: (-1)^(n - number of cycles)
Orbit(p, i) ==
    LET RECURSIVE F(_, _)
        F(j, acc) == IF j \in acc THEN acc ELSE F(p[j], acc \cup {j})
    IN F(i, {})
NumCycles(p) == Cardinality({Orbit(p, i): i \in 1..Len(p)})
PermParity(p) == IF (Len(p) - NumCycles(p)) % 2 = 0 THEN 1 ELSE -1

\* base cases: Auto -> Cholesky (PSD) | LU; Lanczos | Arnoldi when large (stochastic / Krylov: not modelled)
\*   Cholesky: L = cholesky(A); s, ld = slogdet(L); return s * conj(s), 2 * ld
\*   LU:       P, L, U = plu(A); slogdet(P @ L @ U)   -- a Product of three square factors -> Product rule;
\*             non-square A: P @ L @ U is a Product with a non-square factor, the Product rule's condition fails,
\*             the LU base case is selected again: unbounded recursion (RecursionError)
DetFallback(t) ==
    LET D == Denote(t)
        auto == "slogdet(LinearOperator,Auto,Algorithm)"
        tri == "slogdet(Triangular,Algorithm,Algorithm)"
    IN IF ~Small(t) THEN Res(<<auto>>, "Unmodelled", NoVal)
       ELSE IF IsaPSD(t)
       THEN IF IsSquare(D) /\ IsPD(D)
            THEN Res(<<auto, "slogdet(LinearOperator,Cholesky,Algorithm)", "cholesky(LinearOperator)", tri>>, "none", Det(D))
            ELSE Res(<<auto, "slogdet(LinearOperator,Cholesky,Algorithm)", "cholesky(LinearOperator)">>, CholFailure(D), NoVal)
       ELSE IF ~IsSquare(D)
            THEN Res(<<auto, "slogdet(LinearOperator,LU,Algorithm)", "plu(LinearOperator)">>, "RecursionError", NoVal)
            ELSE Res(<<auto, "slogdet(LinearOperator,LU,Algorithm)", "plu(LinearOperator)",
                       "slogdet(Product,Algorithm,Algorithm)?", "slogdet(Permutation,Algorithm,Algorithm)", tri, tri>>,
                     "none", Det(D))

RECURSIVE DetRule(_)
DetRule(t) ==
    LET u == Strip(t)
        cls == ClassOf(t)
        sub == [i \in 1..Len(u.a) |-> DetRule(u.a[i])]
        n == Len(u.a)
    IN CASE
         \* @dispatch(cond=all square) slogdet(A: Product): product(signs), sum(logdets)
            cls = "Product" /\ AllSquare(u) ->
               Compose("slogdet(Product,Algorithm,Algorithm)?", sub, QProdSeq(Vals(sub)))
         \* Identity: 1, 0
         [] cls = "Identity" -> Res(<<"slogdet(Identity,Algorithm,Algorithm)">>, "none", QInt(1))
         \* ScalarMul: phase = c / |c|;  phase ** n,  n * log |c|        (det(c I_n) = c^n)
         [] cls = "ScalarMul" -> Res(<<"slogdet(ScalarMul,Algorithm,Algorithm)">>, "none", QPow(u.p.c, u.p.n))
         \* Diagonal: prod(diag / |diag|), sum(log |diag|)
         [] cls = "Diagonal" -> Res(<<"slogdet(Diagonal,Algorithm,Algorithm)">>, "none", [n |-> CProdSeq(u.p.v), d |-> 1])
         \* Kronecker: sizes = [Ai.shape[-1]]; prod = product(sizes); logdets[i] * prod / sizes[i]; signs[i] ** (prod / sizes[i])
         [] cls = "Kronecker" ->
               LET sizes == [i \in 1..n |-> ShapeOf(u.a[i])[2]]
                   prod == IProdSeq(sizes)
                   ex(i) == IF Mutant = "KronDetExp" THEN sizes[i] ELSE prod \div sizes[i]
               IN Compose("slogdet(Kronecker,Algorithm,Algorithm)", sub, QProdSeq([i \in 1..n |-> QPow(sub[i].val, ex(i))]))
         \* BlockDiag: sum(ld * n for ld, n in zip(logdets, multiplicities)); product(s ** n ...)
         [] cls = "BlockDiag" ->
               Compose("slogdet(BlockDiag,Algorithm,Algorithm)", sub,
                       QProdSeq([i \in 1..n |-> QPow(sub[i].val, IF Mutant = "BlockDetNoMult" THEN 1 ELSE u.p.mult[i])]))
         \* Triangular: diag = xnp.diag(A.A); prod(diag / |diag|), sum(log |diag|)
         [] cls = "Triangular" ->
               Res(<<"slogdet(Triangular,Algorithm,Algorithm)">>, "none",
                   [n |-> CProdSeq(DiagK(u.p.m, 0)), d |-> IPow(u.p.m.d, u.p.m.r)])
         \* Permutation: parity by cycle count
         [] cls = "Permutation" ->
               Res(<<"slogdet(Permutation,Algorithm,Algorithm)">>, "none",
                   QInt(IF Mutant = "PermDetNoSign" THEN 1 ELSE PermParity(u.p.perm)))
         [] OTHER -> DetFallback(t)

---------------------------------------------------------------------------
(* 3.  cola.linalg.diag(A, k, Auto())      values are column matrices (possibly with 0 rows)       *)
Ones(n) == MkMat(n, 1, LAMBDA i, j: C1)
ZerosV(n) == MkMat(n, 1, LAMBDA i, j: CZ)
DiagVec(M, k) == LET s == DiagK(M, k) IN MkMatD(Len(s), 1, M.d, LAMBDA i, j: s[i])
VecSum(v) == [n |-> CSumSeq([i \in 1..v.r |-> v.e[i][1]]), d |-> v.d]
\* broadcast sum of two vectors, flattened in C order:  (a[:, None] + b[None, :]).reshape(-1)
OuterSum(a, b) == MAdd(MKron(a, Ones(b.r)), MKron(Ones(a.r), b))
RECURSIVE OuterSumSeq(_)
OuterSumSeq(s) == IF Len(s) = 1 THEN s[1] ELSE OuterSum(s[1], OuterSumSeq(Tail(s)))

\* Sum: sum(diag(M, k, alg) for M in A.Ms) -- a lazy generator folded from the left: the addition after each call
\* uses NumPy broadcasting (equal lengths, or one operand of length 1; otherwise ValueError before the next call).
\* Lengths can only differ when a factor's rule returned a wrong-length diagonal (non-square blocks, see DiagDomain).
BCompat(a, b) == a.r = b.r \/ a.r = 1 \/ b.r = 1
BAdd(a, b) == IF a.r = b.r THEN MAdd(a, b)
              ELSE IF a.r = 1 THEN MAdd(MKron(Ones(b.r), a), b) ELSE MAdd(a, MKron(Ones(a.r), b))
RECURSIVE SumFold(_, _, _, _, _)
SumFold(rs, i, calls, first, acc) ==
    IF i > Len(rs) THEN Res(calls, "none", acc)
    ELSE LET c == rs[i]
             cs == calls \o c.calls
         IN IF ~OK(c) THEN Res(cs, c.exc, NoVal)
            ELSE IF first THEN SumFold(rs, i + 1, cs, FALSE, c.val)
            ELSE IF ~BCompat(acc, c.val) THEN Res(cs, "ValueError", NoVal)
            ELSE SumFold(rs, i + 1, cs, FALSE, BAdd(acc, c.val))

\* Identity / Diagonal:  k == 0: ones / A.diag;  else zeros((A.shape[0] - abs(k),))   (negative size: ValueError)
DiagIdentityLike(name, n, k, v0) ==
    IF k = 0 THEN Res(<<name>>, "none", v0)
    ELSE IF n - Abs(k) < 0 THEN Res(<<name>>, "ValueError", NoVal)
    ELSE Res(<<name>>, "none", ZerosV(n - Abs(k)))
\* base case: Auto -> exact_faster = tol < 1 / sqrt(10 * prod(shape)) with tol = 1e-6, i.e. prod(shape) < 1e11:
\* always true on the bounded domain -> Exact(): the probing algorithm (Prober.tla / C08: exact on square operators).
\* DOMAIN RESTRICTION: on a non-square operator the prober multiplies by chunks of a non-square "identity"; what it
\* then returns or raises depends on the shape (m x 1 passes, 2 x 3 raises ValueError) and is not modelled.
DiagFallback(t, k) ==
    LET calls == <<"diag(LinearOperator,int,Auto)", "diag(LinearOperator,int,Hutch|HutchPP|Exact)">> IN
    IF IsSq(t) THEN Res(calls, "none", DiagVec(Denote(t), k)) ELSE Res(calls, "Unmodelled", NoVal)

RECURSIVE DiagRule(_, _)
DiagRule(t, k) ==
    LET u == Strip(t)
        cls == ClassOf(t)
        sub == [i \in 1..Len(u.a) |-> DiagRule(u.a[i], k)]
    IN CASE
         \* Dense (Triangular is a subclass): xnp.diag(A.A, diagonal=k)
            cls \in {"Dense", "Triangular"} -> Res(<<"diag(Dense,int,Algorithm)">>, "none", DiagVec(u.p.m, k))
         [] cls = "Identity" -> DiagIdentityLike("diag(Identity,int,Algorithm)", u.p.n, k, Ones(u.p.n))
         [] cls = "Diagonal" -> DiagIdentityLike("diag(Diagonal,int,Algorithm)", Len(u.p.v), k, MCol(u.p.v))
         \* Sum: sum(diag(M, k, alg) for M in A.Ms)
         [] cls = "Sum" -> SumFold(sub, 1, <<"diag(Sum,int,Algorithm)">>, TRUE, NoVal)
         \* BlockDiag: cond = every block square (since fix ccf9fbf); assert k == 0; concat([diag(M)] * m ...)
         [] cls = "BlockDiag" /\ (\A i \in 1..Len(u.a): IsSq(u.a[i])) ->
               IF k # 0 THEN Res(<<"diag(BlockDiag,int,Algorithm)?">>, "AssertionError", NoVal)
               ELSE Compose("diag(BlockDiag,int,Algorithm)?", sub, MVStackN(Repeat(Vals(sub), u.p.mult)))
         \* ScalarMul: A.c * diag(I_like(A), k, alg)
         [] cls = "ScalarMul" ->
               LET i == DiagIdentityLike("diag(Identity,int,Algorithm)", u.p.n, k, Ones(u.p.n)) IN
               Res(<<"diag(ScalarMul,int,Algorithm)">> \o i.calls, i.exc, IF OK(i) THEN MScale(u.p.c, i.val) ELSE NoVal)
         \* Kronecker: cond = every factor square (since fix ccf9fbf); assert k == 0; outer product of the factors'
         \* diagonals, flattened
         [] cls = "Kronecker" /\ (\A i \in 1..Len(u.a): IsSq(u.a[i])) ->
               IF k # 0 THEN Res(<<"diag(Kronecker,int,Algorithm)?">>, "AssertionError", NoVal)
               ELSE Compose("diag(Kronecker,int,Algorithm)?", sub,
                            IF Mutant = "DiagKronSum" THEN OuterSumSeq(Vals(sub)) ELSE MKronN(Vals(sub)))
         \* KronSum: assert k == 0; outer sum of the factors' diagonals, flattened
         [] cls = "KronSum" ->
               IF k # 0 THEN Res(<<"diag(KronSum,int,Algorithm)">>, "AssertionError", NoVal)
               ELSE Compose("diag(KronSum,int,Algorithm)", sub, OuterSumSeq(Vals(sub)))
         [] OTHER -> DiagFallback(t, k)

---------------------------------------------------------------------------
(* 4.  cola.linalg.trace(A, Auto())                                        *)
RECURSIVE TraceRule(_)
TraceRule(t) ==
    LET u == Strip(t)
        cls == ClassOf(t)
        sub == [i \in 1..Len(u.a) |-> TraceRule(u.a[i])]
    IN \* trace(A: Kronecker): product([trace(M, alg) for M in A.Ms])
       IF cls = "Kronecker"
       THEN Compose("trace(Kronecker,Algorithm)", sub,
                    IF Mutant = "TraceKronSum" THEN QSumSeq(Vals(sub)) ELSE QProdSeq(Vals(sub)))
       \* trace(A: LinearOperator): assert square; diag(A, 0, alg).sum()
       ELSE IF ~IsSq(t) THEN Res(<<"trace(LinearOperator,Algorithm)">>, "AssertionError", NoVal)
       ELSE LET d == DiagRule(t, 0) IN
            Res(<<"trace(LinearOperator,Algorithm)">> \o d.calls, d.exc, IF OK(d) THEN VecSum(d.val) ELSE NoVal)

---------------------------------------------------------------------------
(* 4b.  cola.linalg.decompositions: plu(A) and cholesky(A)                 *)
(*                                                                         *)
(* The generic rules factor the dense matrix (scipy lu / numpy cholesky).  *)
(* For the correctness statements the model needs *a* valid exact leaf     *)
(* factorisation: Gaussian elimination with partial pivoting and the       *)
(* Cholesky recursion over reduced Gaussian rationals (square parts of     *)
(* size <= 3 whose Cholesky pivots are perfect squares; other parts are    *)
(* "not tame": skeleton and rules fired are still modelled, the algebraic  *)
(* statement is not evaluated).  The payloads are not compared with the    *)
(* real factors (C11 does that numerically); the statements say: IF the    *)
(* leaf factorisations are factorisations THEN so is the structural one.   *)
QNorm(x) ==
    LET g == Gcd(Gcd(x.n[1], x.n[2]), x.d) IN
    IF g <= 1 THEN x ELSE [n |-> <<x.n[1] \div g, x.n[2] \div g>>, d |-> x.d \div g]
QSubN(x, y) == QNorm(QAdd(x, QNeg(y)))
QMulN(x, y) == QNorm(QMul(x, y))
QDivN(x, y) == QNorm(QDiv(x, y))
\* matrices of reduced rationals <-> common-denominator matrices
ToQM(M) == [i \in 1..M.r |-> [j \in 1..M.c |-> QNorm([n |-> M.e[i][j], d |-> M.d])]]
Lcm(a, b) == (a \div Gcd(a, b)) * b
FromQM(q, r, c) ==
    LET RECURSIVE L(_, _)
        L(i, j) == IF i > r THEN 1 ELSE IF j > c THEN L(i + 1, 1) ELSE Lcm(q[i][j].d, L(i, j + 1))
        D == L(1, 1)
    IN MkMatD(r, c, D, LAMBDA i, j: CScaleI(D \div q[i][j].d, q[i][j].n))

\* LU with partial pivoting (first row of maximal |re| + |im|, as LAPACK), in place: multipliers below the diagonal
RECURSIVE LUStep(_, _, _, _)
LUStep(A, perm, k, n) ==
    IF k > n THEN [A |-> A, perm |-> perm]
    ELSE LET cab(i) == Abs(A[i][k].n[1]) + Abs(A[i][k].n[2])
             better(i, p) == cab(i) * A[p][k].d > cab(p) * A[i][k].d
             piv == CHOOSE p \in k..n: (\A i \in k..n: ~better(i, p)) /\ (\A i \in k..(p - 1): better(p, i))
             sw(i) == IF i = k THEN piv ELSE IF i = piv THEN k ELSE i
             B == [i \in 1..n |-> A[sw(i)]]
             perm2 == [i \in 1..n |-> perm[sw(i)]]
             pz == QIsZero(B[k][k])
             C == [i \in 1..n |->
                     IF i <= k \/ pz THEN B[i]
                     ELSE LET m == QDivN(B[i][k], B[k][k]) IN
                          [j \in 1..n |-> IF j < k THEN B[i][j] ELSE IF j = k THEN m
                                          ELSE QSubN(B[i][j], QMulN(m, B[k][j]))]]
         IN LUStep(C, perm2, k + 1, n)
\* A = P L U with (P v) = v[argsort(perm)]: rows perm[1], perm[2], ... of A are the rows of L U
ExactPLU(M) ==
    LET n == M.r
        f == LUStep(ToQM(M), [i \in 1..n |-> i], 1, n)
        Lq == [i \in 1..n |-> [j \in 1..n |-> IF i > j THEN f.A[i][j] ELSE IF i = j THEN QInt(1) ELSE QInt(0)]]
        Uq == [i \in 1..n |-> [j \in 1..n |-> IF i <= j THEN f.A[i][j] ELSE QInt(0)]]
    IN [p |-> ArgSort(f.perm), L |-> FromQM(Lq, n, n), U |-> FromQM(Uq, n, n)]

\* exact Cholesky factor (lower, positive diagonal) when every pivot is the square of a rational
ISqrtOK(n) == n >= 0 /\ n <= 40000 /\ \E r \in 0..200: r * r = n
ISqrt(n) == CHOOSE r \in 0..200: r * r = n
RECURSIVE CholEntry(_, _, _)
CholEntry(A, i, j) ==        \* [ok, v]: entry (i, j), j <= i, of the factor of the rational matrix A
    LET RECURSIVE Acc(_)
        Acc(k) == IF k = 0 THEN [ok |-> TRUE, v |-> A[i][j]]
                  ELSE LET a == Acc(k - 1)
                           x == CholEntry(A, i, k)
                           y == CholEntry(A, j, k)
                       IN IF ~(a.ok /\ x.ok /\ y.ok) THEN [ok |-> FALSE, v |-> QInt(0)]
                          ELSE [ok |-> TRUE, v |-> QSubN(a.v, QMulN(x.v, QConj(y.v)))]
        s == Acc(j - 1)
    IN IF ~s.ok THEN s
       ELSE IF i = j
       THEN IF s.v.n[2] = 0 /\ s.v.n[1] > 0 /\ ISqrtOK(s.v.n[1]) /\ ISqrtOK(s.v.d)
            THEN [ok |-> TRUE, v |-> [n |-> <<ISqrt(s.v.n[1]), 0>>, d |-> ISqrt(s.v.d)]]
            ELSE [ok |-> FALSE, v |-> QInt(0)]
       ELSE LET dj == CholEntry(A, j, j) IN
            IF dj.ok THEN [ok |-> TRUE, v |-> QDivN(s.v, dj.v)] ELSE dj
ExactChol(M) ==
    LET n == M.r
        A == ToQM(M)
        E == [i \in 1..n |-> [j \in 1..n |-> IF j <= i THEN CholEntry(A, i, j) ELSE [ok |-> TRUE, v |-> QInt(0)]]]
        ok == \A i \in 1..n: \A j \in 1..n: E[i][j].ok
    IN [ok |-> ok, L |-> IF ok THEN FromQM([i \in 1..n |-> [j \in 1..n |-> E[i][j].v]], n, n) ELSE Zero(1, 1)]

ILike(u) == N("Identity", <<>>, [n |-> ShapeOf(u)[1], dt |-> "f64"])       \* I_like(A)  (square parts only)
TLeaf(M, tame) == N("Triangular", <<>>, [m |-> M, tame |-> tame, def |-> TRUE])

\* @dispatch plu(A: LinearOperator): p, L, U = xnp.lu(A.to_dense()); Permutation(p), Triangular(L), Triangular(U)
\*    (also for non-square A: L is m x k, U is k x n)
PluGeneric(t) ==
    LET D == Denote(t)
        \* (32-bit safety of the exact elimination: small real parts, very small complex parts)
        tame == IsSquare(D) /\ D.d <= 2 /\ (IF MIsReal(D) THEN D.r <= 3 /\ EntriesWithin(D, 12)
                                             ELSE (D.r <= 2 /\ EntriesWithin(D, 6)) \/ (D.r = 3 /\ EntriesWithin(D, 3)))
        f == IF tame THEN ExactPLU(D) ELSE [p |-> <<1>>, L |-> Zero(1, 1), U |-> Zero(1, 1)]
    IN Res(<<"plu(LinearOperator)">>, "none",
           <<N("Permutation", <<>>, [perm |-> f.p, dt |-> "f64", tame |-> tame]), TLeaf(f.L, tame), TLeaf(f.U, tame)>>)
RECURSIVE PluRule(_)
PluRule(t) ==
    LET u == Strip(t)
        cls == ClassOf(t)
        sub == [i \in 1..Len(u.a) |-> PluRule(u.a[i])]
        part(j) == [i \in 1..Len(u.a) |-> sub[i].val[j]]
    IN CASE cls = "Identity" -> Res(<<"plu(Identity)">>, "none", <<u, u, u>>)           \* return A, A, A
         \* plu(A: Diagonal | ScalarMul): I_like(A), I_like(A), A
         [] cls \in {"Diagonal", "ScalarMul"} -> Res(<<"plu(Diagonal|ScalarMul)">>, "none", <<ILike(u), ILike(u), u>>)
         \* plu(A: Kronecker): P, L, U = zip(*[plu(Ai) for Ai in A.Ms]); Kronecker(*P), Kronecker(*L), Kronecker(*U)
         [] cls = "Kronecker" ->
               Compose("plu(Kronecker)", sub,
                       IF Mutant = "PluKronSwapLU"
                       THEN <<N("Kronecker", part(1), NoP), N("Kronecker", part(3), NoP), N("Kronecker", part(2), NoP)>>
                       ELSE <<N("Kronecker", part(1), NoP), N("Kronecker", part(2), NoP), N("Kronecker", part(3), NoP)>>)
         \* plu(A: BlockDiag): BlockDiag(*P, multiplicities=...), BlockDiag(*L, ...), BlockDiag(*U, ...)
         [] cls = "BlockDiag" ->
               LET m == [mult |-> IF Mutant = "PluBlockNoMult" THEN [i \in 1..Len(u.a) |-> 1] ELSE u.p.mult] IN
               Compose("plu(BlockDiag)", sub,
                       <<N("BlockDiag", part(1), m), N("BlockDiag", part(2), m), N("BlockDiag", part(3), m)>>)
         [] OTHER -> PluGeneric(t)

\* @dispatch cholesky(A: LinearOperator): Triangular(xnp.cholesky(A.to_dense()), lower=True)
\*    numpy reads the lower triangle (and the real part of the diagonal): it raises LinAlgError iff that Hermitian
\*    completion is not positive definite, or the matrix is not square; on the semi-definite boundary rounding decides
HermLower(M) == MkMatD(M.r, M.c, M.d, LAMBDA i, j: IF i > j THEN M.e[i][j] ELSE IF i = j THEN <<M.e[i][j][1], 0>>
                                                     ELSE CConj(M.e[j][i]))
CholGeneric(t) ==
    LET D == Denote(t)
        H == HermLower(D)
    IN IF ~IsSquare(D) THEN Res(<<"cholesky(LinearOperator)">>, "LinAlgError", NoVal)
       ELSE IF ~IsPD(H) THEN Res(<<"cholesky(LinearOperator)">>, CholFailure(H), NoVal)
       ELSE LET can == D.r <= 3 /\ D.d <= 2 /\ EntriesWithin(D, 24)
                f == IF can THEN ExactChol(H) ELSE [ok |-> FALSE, L |-> Zero(1, 1)]
            IN Res(<<"cholesky(LinearOperator)">>, "none",
                   N("Triangular", <<>>, [m |-> f.L, tame |-> f.ok, def |-> IsHermitian(D)]))
\* cholesky(A: Diagonal | ScalarMul): cola.linalg.sqrt(A, Auto()) = pow(A, 0.5) = apply_unary(x ** 0.5, A):
\*    Diagonal(sqrt(diag))  /  sqrt(c) * I_like(A)  (= Product(ScalarMul, Identity));  a negative entry gives nan
SqrtCalls(cls) == <<"cholesky(Diagonal|ScalarMul)", "sqrt(LinearOperator,Algorithm)", "pow(LinearOperator,Number,Algorithm)",
                    "apply_unary(Callable," \o cls \o ",Algorithm)">>
NonNegReal(x) == x[2] = 0 /\ x[1] >= 0
RECURSIVE CholRule(_)
CholRule(t) ==
    LET u == Strip(t)
        cls == ClassOf(t)
        sub == [i \in 1..Len(u.a) |-> CholRule(u.a[i])]
    IN CASE cls = "Identity" -> Res(<<"cholesky(Identity)">>, "none", u)
         [] cls = "Diagonal" ->
               LET def == \A i \in 1..Len(u.p.v): NonNegReal(u.p.v[i])
                   tame == def /\ \A i \in 1..Len(u.p.v): ISqrtOK(u.p.v[i][1])
               IN Res(SqrtCalls("Diagonal"), "none",
                      N("Diagonal", <<>>, [def |-> def, tame |-> tame,
                                           m |-> IF tame THEN MDiagOf([i \in 1..Len(u.p.v) |-> <<ISqrt(u.p.v[i][1]), 0>>])
                                                 ELSE Zero(1, 1)]))
         [] cls = "ScalarMul" ->
               LET c == QNorm(u.p.c)
                   def == NonNegReal(c.n)
                   tame == def /\ ISqrtOK(c.n[1]) /\ ISqrtOK(c.d)
               IN Res(SqrtCalls("ScalarMul"), "none",
                      N("Product", <<N("ScalarMul", <<>>, [def |-> def, tame |-> tame,
                                       m |-> IF tame THEN MScale([n |-> <<ISqrt(c.n[1]), 0>>, d |-> ISqrt(c.d)], Eye(u.p.n))
                                             ELSE Zero(1, 1)]), ILike(u)>>, NoP))
         \* cholesky(A: Kronecker): Kronecker(*[cholesky(Ai) for Ai in A.Ms])       (no test that the factors are PD)
         [] cls = "Kronecker" ->
               Compose("cholesky(Kronecker)", sub,
                       N("Kronecker", IF Mutant = "CholKronReversed" THEN Reverse(Vals(sub)) ELSE Vals(sub), NoP))
         \* cholesky(A: BlockDiag): BlockDiag(*[cholesky(Ai) for Ai in A.Ms], multiplicities=A.multiplicities)
         [] cls = "BlockDiag" -> Compose("cholesky(BlockDiag)", sub, N("BlockDiag", Vals(sub), [mult |-> u.p.mult]))
         [] OTHER -> CholGeneric(t)

\* skeleton of a (P, L, U) triple
Skel3(v) == <<Skel(v[1]), Skel(v[2]), Skel(v[3])>>

---------------------------------------------------------------------------
(* 5.  Correctness statements (checked as invariants by MC_LinalgRules on the enumerated term space)     *)
\* the annotation inference is sound on every sub-tree (the rules trust A.isa(PSD); unsound inference is the
\* separate known finding KF-C05-scalar-annotations)
RECURSIVE InferSoundAll(_)
InferSoundAll(t) == Unsound(t) = {} /\ \A i \in 1..Len(t.a): InferSoundAll(t.a[i])

NonSingular(t) == IsSq(t) /\ ~MIsSingular(Denote(t))

\* whenever inv returns and every inverse it is made of exists: it denotes the inverse
InvSoundAt(t) ==
    LET r == InvRule(t) IN
    (NonSingular(t) /\ OK(r) /\ AllDef(r.val) /\ AllTame(r.val) /\ TameM(Denote(t)))
        => LET mi == MInverse(Denote(t)) IN EntriesWithin(mi, 3000) => MEq(DenoteR(r.val), mi)
\* an invertible operand is never refused and no rule asks for the inverse of a singular / non-square factor
InvCompleteAt(t) ==
    (NonSingular(t) /\ InferSoundAll(t)) => LET r == InvRule(t) IN OK(r) /\ AllDef(r.val)
DetSoundAt(t) ==
    LET r == DetRule(t) IN (OK(r) /\ InferSoundAll(t)) => QEq(r.val, Det(Denote(t)))
\* a determinant is refused only for non-square operands / factors and for PSD-declared operands that are not PD
DetCompleteAt(t) ==
    (NonSingular(t) /\ InferSoundAll(t)) => OK(DetRule(t))

\* domain on which the structural diag rules are correct: the BlockDiag and Kronecker rules are only reached with
\* square blocks / factors.  The code does NOT test this (DiagSoundEverywhere fails: genuine defect).
RECURSIVE DiagDomain(_)
DiagDomain(t) ==
    LET u == Strip(t)
        cls == ClassOf(t)
    IN CASE cls \in {"BlockDiag", "Kronecker"} -> AllSquare(u) /\ \A i \in 1..Len(u.a): DiagDomain(u.a[i])
         [] cls \in {"Sum", "KronSum"} -> \A i \in 1..Len(u.a): DiagDomain(u.a[i])
         [] OTHER -> TRUE
DiagSoundAt(t, k) ==
    LET r == DiagRule(t, k) IN (OK(r) /\ DiagDomain(t)) => MEq(r.val, DiagVec(Denote(t), k))
DiagSoundEverywhereAt(t, k) ==
    LET r == DiagRule(t, k) IN OK(r) => MEq(r.val, DiagVec(Denote(t), k))
\* the refusals are exactly: k # 0 on BlockDiag / Kronecker / KronSum, the prober on a non-square operand
RECURSIVE TraceDomain(_)
TraceDomain(t) ==
    LET u == Strip(t) IN
    IF ClassOf(t) = "Kronecker" THEN \A i \in 1..Len(u.a): TraceDomain(u.a[i]) ELSE DiagDomain(t)
TraceSoundAt(t) ==
    LET r == TraceRule(t) IN (OK(r) /\ TraceDomain(t)) => QEq(r.val, MTrace(Denote(t)))
TraceSoundEverywhereAt(t) ==
    LET r == TraceRule(t) IN OK(r) => QEq(r.val, MTrace(Denote(t)))

\* plu: total, and P is a permutation matrix, L lower, U upper triangular, P L U = A
PluSoundAt(t) ==
    LET r == PluRule(t) IN
    /\ OK(r)
    /\ (AllTame(r.val[1]) /\ AllTame(r.val[2]) /\ AllTame(r.val[3])) =>
          LET P == DenoteR(r.val[1])
              L == DenoteR(r.val[2])
              U == DenoteR(r.val[3])
          IN IsPermutationMatrix(P) /\ IsLower(L) /\ IsUpper(U) /\ MEq(MProdN(<<P, L, U>>), Denote(t))
\* cholesky: whenever it returns and every part is the Cholesky factor of that part: L lower, L L^H = A
CholSoundAt(t) ==
    LET r == CholRule(t) IN
    (OK(r) /\ AllDef(r.val) /\ AllTame(r.val)) =>
        LET L == DenoteR(r.val) IN IsLower(L) /\ MEq(MNormalize(MMul(L, MAdj(L))), Denote(t))
\* domain on which cholesky is complete: every Kronecker node that is reached has positive definite factors
RECURSIVE CholDomain(_)
CholDomain(t) ==
    LET u == Strip(t)
        cls == ClassOf(t)
    IN CASE cls = "Kronecker" -> \A i \in 1..Len(u.a): (IsSq(u.a[i]) /\ IsPD(Denote(u.a[i])) /\ CholDomain(u.a[i]))
         [] cls = "BlockDiag" -> \A i \in 1..Len(u.a): CholDomain(u.a[i])
         [] OTHER -> TRUE
IsPDTree(t) == IsSq(t) /\ IsPD(Denote(t))
CholCompleteAt(t) == (IsPDTree(t) /\ CholDomain(t)) => LET r == CholRule(t) IN OK(r) /\ AllDef(r.val)
\* FAILS (known finding: a positive definite Kronecker product can have factors that are not, e.g. (-A) (x) (-B))
CholCompleteEverywhereAt(t) == IsPDTree(t) => LET r == CholRule(t) IN OK(r) /\ AllDef(r.val)
=============================================================================
