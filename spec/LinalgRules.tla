---------------------------- MODULE LinalgRules ----------------------------
(***************************************************************************)
(* Mechanism model of cola's structural linear-algebra rules.              *)
(*                                                                         *)
(* One operator per dispatch rule of                                       *)
(*   cola/linalg/inverse/inv.py        (Inv...,   entry point InvRule)     *)
(*   cola/linalg/logdet/logdet.py      (Det...,   entry point DetRule)     *)
(*   cola/linalg/trace/diag_trace.py   (Diag..., Trace...)                 *)
(* transcribed from the code at HEAD for the default algorithm Auto().     *)
(* Every rule returns a record                                             *)
(*    [calls |-> <<names of the plum signatures resolved, in call order>>, *)
(*     exc   |-> "none" or the class name of the exception that escapes,   *)
(*     val   |-> the value returned (a result tree / rational / column)]   *)
(* so that the *selection* among rules, the *order* of the recursive calls *)
(* and the *refusals* (assertions, crashes) are part of the model, not     *)
(* only the algebraic identity.  Rule names are literally the strings the  *)
(* conformance harness derives from the signature plum resolves:           *)
(*    f(Type1,Type2,...) followed by "?" when the signature is conditional *)
(*                                                                         *)
(* Selection (plum fork, see Dispatch.tla): a rule typed on a proper       *)
(* operator class and (LinearOperator, Auto) are incomparable, precedence  *)
(* 0 beats the base cases' -1; a conditional rule only matches when its    *)
(* condition holds.  The conditional inv rule (LinearOperator, Algorithm)  *)
(* "A.isa(Unitary) -> Unitary(A.H)" is *less specific* than                *)
(* (LinearOperator, Auto | LU | Cholesky | CG | GMRES) and is dropped by   *)
(* the resolver's candidate loop: it never fires for a documented          *)
(* algorithm (InvUnitaryShadowed below).                                   *)
(***************************************************************************)
EXTENDS Annot

CONSTANT Mutant     \* "none", or the name of a deliberately wrong rule variant (negative controls)

---------------------------------------------------------------------------
(* dispatch class of a tree: declarations (cola.PSD(x), ...) return an object of the same class, *)
(* no_dispatch returns a bare LinearOperator                                                     *)
RECURSIVE Strip(_)
Strip(t) == IF t.k = "Annot" THEN Strip(t.a[1]) ELSE t
ClassOf(t) == LET u == Strip(t) IN IF u.k = "NoDispatch" THEN "LinearOperator" ELSE u.k

IsSq(t) == ShapeOf(t)[1] = ShapeOf(t)[2]
\* all([M.shape[-2] == M.shape[-1] for M in A.Ms])   (condition of the Product rules of inv and slogdet)
AllSquare(u) == \A i \in 1..Len(u.a): IsSq(u.a[i])
IsaPSD(t) == Isa(Infer(t), "PSD")
IsaUnitary(t) == Isa(Infer(t), "Unitary")
\* np.prod(A.shape) <= 1e6
Small(t) == ShapeOf(t)[1] * ShapeOf(t)[2] <= 1000000

Res(calls, exc, val) == [calls |-> calls, exc |-> exc, val |-> val]
NoVal == [none |-> TRUE]
OK(r) == r.exc = "none"
AllOK(rs) == \A i \in 1..Len(rs): OK(rs[i])
\* a comprehension / generator over the factors evaluates left to right and stops at the first exception
ChainCalls(rs) ==
    LET RECURSIVE F(_)
        F(i) == IF i > Len(rs) THEN <<>>
                ELSE IF OK(rs[i]) THEN rs[i].calls \o F(i + 1) ELSE rs[i].calls
    IN F(1)
FirstExc(rs) == IF AllOK(rs) THEN "none" ELSE rs[CHOOSE i \in 1..Len(rs): ~OK(rs[i]) /\ \A j \in 1..(i - 1): OK(rs[j])].exc
Vals(rs) == [i \in 1..Len(rs) |-> rs[i].val]
\* rule `name` calls itself on the factors, then builds `v`
Compose(name, rs, v) == Res(<<name>> \o ChainCalls(rs), FirstExc(rs), IF AllOK(rs) THEN v ELSE NoVal)
Reverse(s) == [i \in 1..Len(s) |-> s[Len(s) + 1 - i]]

RECURSIVE QProdSeq(_)
QProdSeq(s) == IF s = <<>> THEN QInt(1) ELSE QMul(Head(s), QProdSeq(Tail(s)))
RECURSIVE IProdSeq(_)
IProdSeq(s) == IF s = <<>> THEN 1 ELSE Head(s) * IProdSeq(Tail(s))

===========================================================================
