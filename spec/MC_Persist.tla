----------------------------- MODULE MC_Persist -----------------------------
(***************************************************************************)
(* Enumeration of ALL well-typed sequences of public operations of length  *)
(* <= PM_MaxLen over a pool of operators (module Persist is the            *)
(* specification of every step).  An operator is abstracted to what        *)
(* decides applicability: [n |-> dimension, spd |-> symmetric positive     *)
(* definite].  Operations (alphabet PM_Acts, generated from the harness    *)
(* table so that model and replay cannot disagree on names):               *)
(*   observers  matmul, rmatmul, to_dense, diag_trace, solve_cg (spd),     *)
(*              solve_gmres, lanczos (spd), arnoldi                        *)
(*   producers  T, H, smul, annotate (spd), flatten_unflatten, to, getitem *)
(*              with caller index arrays (n >= 3 -> n = 2), inv_cg (spd),  *)
(*              inv_gmres, exp, exp_lanczos (spd), add / dot with the pool *)
(*              operator of equal dimension, kron with pool operator 2     *)
(*              (n * 3 <= 12)                                              *)
(* Abstract digests: the result of a call is its signature (operations are *)
(* functions), a created operator is identified by the call creating it.   *)
(* The sequences are printed for replay (every PM_SampleMod-th of the      *)
(* longest ones; all shorter ones are their prefixes).                     *)
(*                                                                         *)
(* LAYOUT SWEEP (mode "sweep").  Second family of behaviours: a case is    *)
(*   [p, s, c]  path p (PM_Paths: a product, a solve / inverse through     *)
(*              Triangular, Cholesky, LU, CG, GMRES or a structured rule,  *)
(*              a matrix function, a decomposition, a constructor; its     *)
(*              role says which argument is swept: right / left operand,   *)
(*              start vector, initial guess, index array, constructor      *)
(*              array), side s (right product "R", left product "L", plain *)
(*              argument "A"), value class c (1-D, column / row, matrix,   *)
(*              float32 versions, ...).                                    *)
(* owned holds the SAME value of class c once per memory layout            *)
(* PM_Classes[c] (contiguous, strided slice, negative strides, Fortran     *)
(* order, transposed view, read-only, ...).  A step calls the path with    *)
(* one of these arrays as the argument: CallOnArgument with the layout-    *)
(* free signature <<"sweep", p, s, c>> - every layout must leave owned     *)
(* unchanged and return the remembered result.  All sequences of           *)
(* PM_SweepLen layouts (repetitions included: the repeated call) are       *)
(* explored for every case; the printed ones (all if PM_SweepAll, else one *)
(* extension of every sequence one shorter: each layout of the class is    *)
(* then first exactly once per case) are replayed against the library.     *)
(***************************************************************************)
EXTENDS Persist, Json, PersistModel

VARIABLES live, hist, mode, sw

NA == Len(PM_Acts)

BaseOfDim(n) == IF \E i \in 1..Len(PM_Pool): PM_Pool[i].n = n
                THEN CHOOSE i \in 1..Len(PM_Pool): PM_Pool[i].n = n /\ \A j \in 1..Len(PM_Pool): PM_Pool[j].n = n => i <= j
                ELSE 0

Enabled(a, x) ==
    LET d == live[x] IN
    CASE a.req = "any" -> TRUE
      [] a.req = "spd" -> d.spd
      [] a.req = "n3" -> d.n >= 3
      [] a.req = "same" -> BaseOfDim(d.n) # 0
      [] a.req = "kron" -> d.n * PM_Pool[2].n <= 12

Result(a, x) ==
    LET d == live[x] IN
    CASE a.out = "none" -> <<>>
      [] a.out = "same" -> <<d>>
      [] a.out = "spd" -> <<[n |-> d.n, spd |-> TRUE]>>
      [] a.out = "sub" -> <<[n |-> 2, spd |-> d.spd]>>
      [] a.out = "and" -> <<[n |-> d.n, spd |-> d.spd /\ PM_Pool[BaseOfDim(d.n)].spd]>>
      [] a.out = "gen" -> <<[n |-> d.n, spd |-> FALSE]>>
      [] a.out = "kron" -> <<[n |-> d.n * PM_Pool[2].n, spd |-> d.spd /\ PM_Pool[2].spd]>>

SeqInit == /\ mode = "seq"
           /\ sw = <<>>
           /\ owned = ("pool-and-argument-arrays" :> "initial-value")
           /\ ops = [i \in 1..Len(PM_Pool) |-> <<"pool", i>>]
           /\ memo = <<>>
           /\ live = PM_Pool
           /\ hist = <<>>

SeqToSet(q) == {q[i]: i \in DOMAIN q}
SweepCases == {[p |-> p, s |-> s, c |-> c]:
                    p \in 1..Len(PM_Paths), s \in {"R", "L", "A"},
                    c \in DOMAIN PM_Classes} 
ValidCase(k) == /\ k.s \in SeqToSet(PM_Roles[PM_Paths[k.p].role].sides)
                /\ k.c \in SeqToSet(PM_Roles[PM_Paths[k.p].role].classes)
Kinds(c) == PM_Classes[c]

SweepInit == /\ mode = "sweep"
             /\ sw \in {k \in SweepCases: ValidCase(k)}
             /\ owned = [lay \in SeqToSet(Kinds(sw.c)) |-> <<"value-of-class", sw.c, "in-layout", lay>>]
             /\ ops = << <<"path", sw.p>> >>
             /\ memo = <<>>
             /\ live = <<[n |-> 4, spd |-> FALSE]>>
             /\ hist = <<>>

MCInit == SeqInit \/ SweepInit

Step(ai, x) ==
    LET a == PM_Acts[ai]
        sig == <<ai, x>> IN
    /\ mode = "seq" /\ UNCHANGED <<mode, sw>>
    /\ Len(hist) < PM_MaxLen
    /\ Enabled(a, x)
    /\ Call(sig, sig, [k \in 1..Len(Result(a, x)) |-> <<"made-by", Len(hist) + 1>>])
    /\ live' = live \o Result(a, x)
    /\ hist' = Append(hist, sig)

(* one call of the swept path with the argument in layout Kinds(sw.c)[q]; the signature does not mention q *)
SweepStep(q) ==
    LET sig == <<"sweep", sw.p, sw.s, sw.c>> IN
    /\ mode = "sweep" /\ UNCHANGED <<mode, sw, live>>
    /\ Len(hist) < PM_SweepLen
    /\ CallOnArgument(sig, sig, <<>>, Kinds(sw.c)[q])
    /\ hist' = Append(hist, <<0, q>>)

MCNext == \/ \E ai \in 1..NA: \E x \in 1..Len(live): Step(ai, x)
          \/ \E q \in 1..(IF mode = "sweep" THEN Len(Kinds(sw.c)) ELSE 0): SweepStep(q)
MCSpec == MCInit /\ [][MCNext]_<<owned, ops, memo, live, hist, mode, sw>>

Typed == Len(ops) = Len(live)

RECURSIVE WSum(_, _)
WSum(h, j) == IF j > Len(h) THEN 0 ELSE (h[j][1] * (7 * j + 3) + h[j][2] * (5 * j + 1)) + WSum(h, j + 1)
SelectedLeaf == PM_SampleMod = 1 \/ (WSum(hist, 1) + PM_SampleRes) % PM_SampleMod = 0

(* sweep: of the sequences extending one prefix exactly one is printed (the last layout has weight 1 and ranges   *)
(* over Len(Kinds) consecutive integers), unless PM_SweepAll                                                      *)
RECURSIVE QSum(_, _)
QSum(h, j) == IF j >= Len(h) THEN 0 ELSE 3 * h[j][2] + QSum(h, j + 1)
SelectedSweep == PM_SweepAll \/ (QSum(hist, 1) + hist[Len(hist)][2] + PM_SweepRes) % Len(Kinds(sw.c)) = 0

Emit == IF mode = "seq"
        THEN (Len(hist) = PM_MaxLen /\ SelectedLeaf) => PrintT(ToJson([h |-> hist]))
        ELSE (Len(hist) = PM_SweepLen /\ SelectedSweep) =>
                PrintT(ToJson([sw |-> [p |-> PM_Paths[sw.p].name, s |-> sw.s, c |-> sw.c],
                               q |-> [j \in 1..Len(hist) |-> Kinds(sw.c)[hist[j][2]]]]))
=============================================================================
