----------------------------- MODULE MC_Persist -----------------------------
(***************************************************************************)
(* Enumeration of ALL well-typed sequences of public operations of length  *)
(* <= PM_MaxLen over a pool of operators (module Persist is the            *)
(* specification of every step).  An operator is abstracted to what        *)
(* decides applicability: [n |-> dimension, spd |-> symmetric positive     *)
(* definite].  Operations (alphabet PM_Acts, generated from the harness    *)
(* table so that model and replay cannot disagree on names):               *)
(*   observers  matmul, rmatmul, to_dense, diag_trace, solve_cg (spd),     *)
(*              solve_gmres, lanczos (spd), arnoldi                        *)
(*   producers  T, H, smul, annotate (spd), flatten_unflatten, to, getitem *)
(*              with caller index arrays (n >= 3 -> n = 2), inv_cg (spd),  *)
(*              inv_gmres, exp, exp_lanczos (spd), add / dot with the pool *)
(*              operator of equal dimension, kron with pool operator 2     *)
(*              (n * 3 <= 12)                                              *)
(* Abstract digests: the result of a call is its signature (operations are *)
(* functions), a created operator is identified by the call creating it.   *)
(* The sequences are printed for replay (every PM_SampleMod-th of the      *)
(* longest ones; all shorter ones are their prefixes).                     *)
(***************************************************************************)
EXTENDS Persist, Json, PersistModel

VARIABLES live, hist

NA == Len(PM_Acts)

BaseOfDim(n) == IF \E i \in 1..Len(PM_Pool): PM_Pool[i].n = n
                THEN CHOOSE i \in 1..Len(PM_Pool): PM_Pool[i].n = n /\ \A j \in 1..Len(PM_Pool): PM_Pool[j].n = n => i <= j
                ELSE 0

Enabled(a, x) ==
    LET d == live[x] IN
    CASE a.req = "any" -> TRUE
      [] a.req = "spd" -> d.spd
      [] a.req = "n3" -> d.n >= 3
      [] a.req = "same" -> BaseOfDim(d.n) # 0
      [] a.req = "kron" -> d.n * PM_Pool[2].n <= 12

Result(a, x) ==
    LET d == live[x] IN
    CASE a.out = "none" -> <<>>
      [] a.out = "same" -> <<d>>
      [] a.out = "spd" -> <<[n |-> d.n, spd |-> TRUE]>>
      [] a.out = "sub" -> <<[n |-> 2, spd |-> d.spd]>>
      [] a.out = "and" -> <<[n |-> d.n, spd |-> d.spd /\ PM_Pool[BaseOfDim(d.n)].spd]>>
      [] a.out = "gen" -> <<[n |-> d.n, spd |-> FALSE]>>
      [] a.out = "kron" -> <<[n |-> d.n * PM_Pool[2].n, spd |-> d.spd /\ PM_Pool[2].spd]>>

MCInit == /\ owned = "owned-arrays"
          /\ ops = [i \in 1..Len(PM_Pool) |-> <<"pool", i>>]
          /\ memo = <<>>
          /\ live = PM_Pool
          /\ hist = <<>>

Step(ai, x) ==
    LET a == PM_Acts[ai]
        sig == <<ai, x>> IN
    /\ Len(hist) < PM_MaxLen
    /\ Enabled(a, x)
    /\ Call(sig, sig, [k \in 1..Len(Result(a, x)) |-> <<"made-by", Len(hist) + 1>>])
    /\ live' = live \o Result(a, x)
    /\ hist' = Append(hist, sig)

MCNext == \E ai \in 1..NA: \E x \in 1..Len(live): Step(ai, x)
MCSpec == MCInit /\ [][MCNext]_<<owned, ops, memo, live, hist>>

Typed == Len(ops) = Len(live)

RECURSIVE WSum(_, _)
WSum(h, j) == IF j > Len(h) THEN 0 ELSE (h[j][1] * (7 * j + 3) + h[j][2] * (5 * j + 1)) + WSum(h, j + 1)
SelectedLeaf == PM_SampleMod = 1 \/ (WSum(hist, 1) + PM_SampleRes) % PM_SampleMod = 0
Emit == (Len(hist) = PM_MaxLen /\ SelectedLeaf) => PrintT(ToJson([h |-> hist]))
=============================================================================
