----------------------------- MODULE MC_Persist -----------------------------
(***************************************************************************)
(* Enumeration of ALL well-typed sequences of public operations of length  *)
(* <= PM_MaxLen over a pool of operators (module Persist is the            *)
(* specification of every step).  An operator is abstracted to what        *)
(* decides applicability: [n |-> dimension, spd |-> symmetric positive     *)
(* definite].  Operations (alphabet PM_Acts, generated from the harness    *)
(* table so that model and replay cannot disagree on names):               *)
(*   observers  matmul, rmatmul, to_dense, diag_trace, solve_cg (spd),     *)
(*              solve_gmres, lanczos (spd), arnoldi                        *)
(*   producers  T, H, smul, annotate (spd), flatten_unflatten, to, getitem *)
(*              with caller index arrays (n >= 3 -> n = 2), inv_cg (spd),  *)
(*              inv_gmres, exp, exp_lanczos (spd), add / dot with the pool *)
(*              operator of equal dimension, kron with pool operator 2     *)
(*              (n * 3 <= 12)                                              *)
(* Abstract digests: the result of a call is its signature (operations are *)
(* functions), a created operator is identified by the call creating it.   *)
(* The sequences are printed for replay (every PM_SampleMod-th of the      *)
(* longest ones; all shorter ones are their prefixes).                     *)
(*                                                                         *)
(* LAYOUT SWEEP (mode "sweep").  Second family of behaviours: a case is    *)
(*   [p, s, c]  path p (PM_Paths: a product, a solve / inverse through     *)
(*              Triangular, Cholesky, LU, CG, GMRES or a structured rule,  *)
(*              a matrix function, a decomposition, a constructor; its     *)
(*              role says which argument is swept: right / left operand,   *)
(*              start vector, initial guess, index array, constructor      *)
(*              array), side s (right product "R", left product "L", plain *)
(*              argument "A"), value class c (1-D, column / row, matrix,   *)
(*              float32 versions, ...).                                    *)
(* owned holds the SAME value of class c once per memory layout            *)
(* PM_Classes[c] (contiguous, strided slice, negative strides, Fortran     *)
(* order, transposed view, read-only, ...).  A step calls the path with    *)
(* one of these arrays as the argument: CallOnArgument with the layout-    *)
(* free signature <<"sweep", p, s, c>> - every layout must leave owned     *)
(* unchanged and return the remembered result.  All sequences of           *)
(* PM_SweepLen layouts (repetitions included: the repeated call) are       *)
(* explored for every case; the printed ones (all if PM_SweepAll, else one *)
(* extension of every sequence one shorter: each layout of the class is    *)
(* then first exactly once per case) are replayed against the library.     *)
(* Interference: per case one more behaviour  layout q ; the same path on   *)
(* ANOTHER value of the class (an unrelated call on the same operator      *)
(* object) ; layout q again - the repeated call must return the remembered *)
(* result (nothing the unrelated call leaves behind in the operator may    *)
(* reach it).                                                              *)
(*                                                                         *)
(* OPERATOR ALGEBRA (mode "algebra").  Third family: a case is a           *)
(* declaration d (PM_Decls: PSD, SelfAdjoint, Unitary, Stiefel, none); ops *)
(* holds two operands X, Y declared d.  A step applies one operation of    *)
(* PM_Algebra (negation, subtraction, scalar multiplication / division on  *)
(* both sides with positive, negative, integer, complex and zero scalars,  *)
(* sum, products, kron, kronsum, block_diag, .T, .H, slicing, indexing,    *)
(* the declaration wrappers, application to an array) to them:             *)
(* CallOnOperands, which creates nothing in ops (the result is a value)    *)
(* and must leave X and Y - matrix, ANNOTATIONS, leaves, full state -      *)
(* unchanged.  All sequences of PM_AlgLen operations are explored per      *)
(* case; printed: all if PM_AlgAll, else one extension of every sequence   *)
(* one shorter (each operation is then first exactly once per case).       *)
(***************************************************************************)
EXTENDS Persist, Json, PersistModel

VARIABLES live, hist, mode, sw

NA == Len(PM_Acts)

BaseOfDim(n) == IF \E i \in 1..Len(PM_Pool): PM_Pool[i].n = n
                THEN CHOOSE i \in 1..Len(PM_Pool): PM_Pool[i].n = n /\ \A j \in 1..Len(PM_Pool): PM_Pool[j].n = n => i <= j
                ELSE 0

Enabled(a, x) ==
    LET d == live[x] IN
    CASE a.req = "any" -> TRUE
      [] a.req = "spd" -> d.spd
      [] a.req = "n3" -> d.n >= 3
      [] a.req = "same" -> BaseOfDim(d.n) # 0
      [] a.req = "kron" -> d.n * PM_Pool[2].n <= 12

Result(a, x) ==
    LET d == live[x] IN
    CASE a.out = "none" -> <<>>
      [] a.out = "same" -> <<d>>
      [] a.out = "spd" -> <<[n |-> d.n, spd |-> TRUE]>>
      [] a.out = "sub" -> <<[n |-> 2, spd |-> d.spd]>>
      [] a.out = "and" -> <<[n |-> d.n, spd |-> d.spd /\ PM_Pool[BaseOfDim(d.n)].spd]>>
      [] a.out = "gen" -> <<[n |-> d.n, spd |-> FALSE]>>
      [] a.out = "kron" -> <<[n |-> d.n * PM_Pool[2].n, spd |-> d.spd /\ PM_Pool[2].spd]>>

SeqInit == /\ mode = "seq"
           /\ sw = <<>>
           /\ owned = ("pool-and-argument-arrays" :> "initial-value")
           /\ ops = [i \in 1..Len(PM_Pool) |-> <<"pool", i>>]
           /\ memo = <<>>
           /\ live = PM_Pool
           /\ hist = <<>>

SeqToSet(q) == {q[i]: i \in DOMAIN q}
SweepCases == {[p |-> p, s |-> s, c |-> c]:
                    p \in 1..Len(PM_Paths), s \in {"R", "L", "A"},
                    c \in DOMAIN PM_Classes} 
ValidCase(k) == /\ k.s \in SeqToSet(PM_Roles[PM_Paths[k.p].role].sides)
                /\ k.c \in SeqToSet(PM_Roles[PM_Paths[k.p].role].classes)
Kinds(c) == PM_Classes[c]

SweepInit == /\ mode = "sweep"
             /\ sw \in {k \in SweepCases: ValidCase(k)}
             /\ owned = [lay \in SeqToSet(Kinds(sw.c)) \cup {"other-value"} |->
                            IF lay = "other-value" THEN <<"another-value-of-class", sw.c>>
                            ELSE <<"value-of-class", sw.c, "in-layout", lay>>]
             /\ ops = << <<"path", sw.p>> >>
             /\ memo = <<>>
             /\ live = <<[n |-> 4, spd |-> FALSE]>>
             /\ hist = <<>>

AlgInit == /\ mode = "algebra"
           /\ sw \in {[d |-> PM_Decls[i]]: i \in 1..Len(PM_Decls)}
           /\ owned = ("operand-arrays" :> "initial-value")
           /\ ops = [i \in 1..2 |-> <<IF i = 1 THEN "X" ELSE "Y", "declared", sw.d,
                                      "dense", "annotations", "leaves", "state">>]
           /\ memo = <<>>
           /\ live = [i \in 1..2 |-> [n |-> 4, spd |-> sw.d = "PSD"]]
           /\ hist = <<>>

MCInit == SeqInit \/ SweepInit \/ AlgInit

Step(ai, x) ==
    LET a == PM_Acts[ai]
        sig == <<ai, x>> IN
    /\ mode = "seq" /\ UNCHANGED <<mode, sw>>
    /\ Len(hist) < PM_MaxLen
    /\ Enabled(a, x)
    /\ Call(sig, sig, [k \in 1..Len(Result(a, x)) |-> <<"made-by", Len(hist) + 1>>])
    /\ live' = live \o Result(a, x)
    /\ hist' = Append(hist, sig)

(* one call of the swept path with the argument in layout Kinds(sw.c)[q]; the signature does not mention q *)
IsInterference == Len(hist) >= 2 /\ hist[2][2] = 0
SweepSig == <<"sweep", sw.p, sw.s, sw.c>>
SweepStep(q) ==
    /\ mode = "sweep" /\ UNCHANGED <<mode, sw, live>>
    /\ Len(hist) < PM_SweepLen /\ ~IsInterference
    /\ CallOnArgument(SweepSig, SweepSig, <<>>, Kinds(sw.c)[q])
    /\ hist' = Append(hist, <<0, q>>)
(* the unrelated call (same path, same operator object, another value), then the first call again *)
SweepOther ==
    LET sig == <<"sweep-other", sw.p, sw.s, sw.c>> IN
    /\ mode = "sweep" /\ UNCHANGED <<mode, sw, live>>
    /\ Len(hist) = 1
    /\ CallOnArgument(sig, sig, <<>>, "other-value")
    /\ hist' = Append(hist, <<0, 0>>)
SweepRepeat ==
    /\ mode = "sweep" /\ UNCHANGED <<mode, sw, live>>
    /\ Len(hist) = 2 /\ IsInterference
    /\ CallOnArgument(SweepSig, SweepSig, <<>>, Kinds(sw.c)[hist[1][2]])
    /\ hist' = Append(hist, hist[1])

(* one operation of the operator algebra on the declared operands X (ops[1]) and, if binary, Y (ops[2]) *)
AlgStep(o) ==
    LET sig == <<"algebra", sw.d, PM_Algebra[o].name>> IN
    /\ mode = "algebra" /\ UNCHANGED <<mode, sw, live>>
    /\ Len(hist) < PM_AlgLen
    /\ CallOnOperands(sig, sig, <<>>, 1..PM_Algebra[o].arity)
    /\ hist' = Append(hist, <<0, o>>)

MCNext == \/ \E ai \in 1..NA: \E x \in 1..Len(live): Step(ai, x)
          \/ \E q \in 1..(IF mode = "sweep" THEN Len(Kinds(sw.c)) ELSE 0): SweepStep(q)
          \/ SweepOther \/ SweepRepeat
          \/ \E o \in 1..(IF mode = "algebra" THEN Len(PM_Algebra) ELSE 0): AlgStep(o)
MCSpec == MCInit /\ [][MCNext]_<<owned, ops, memo, live, hist, mode, sw>>

Typed == Len(ops) = Len(live)

RECURSIVE WSum(_, _)
WSum(h, j) == IF j > Len(h) THEN 0 ELSE (h[j][1] * (7 * j + 3) + h[j][2] * (5 * j + 1)) + WSum(h, j + 1)
SelectedLeaf == PM_SampleMod = 1 \/ (WSum(hist, 1) + PM_SampleRes) % PM_SampleMod = 0

(* sweep: of the sequences extending one prefix exactly one is printed (the last layout has weight 1 and ranges   *)
(* over Len(Kinds) consecutive integers), unless PM_SweepAll                                                      *)
RECURSIVE QSum(_, _)
QSum(h, j) == IF j >= Len(h) THEN 0 ELSE 3 * h[j][2] + QSum(h, j + 1)
SelectedSweep == PM_SweepAll \/ (QSum(hist, 1) + hist[Len(hist)][2] + PM_SweepRes) % Len(Kinds(sw.c)) = 0

SelectedAlg == PM_AlgAll \/ (QSum(hist, 1) + hist[Len(hist)][2] + PM_AlgRes) % Len(PM_Algebra) = 0

Emit == CASE mode = "seq" -> (Len(hist) = PM_MaxLen /\ SelectedLeaf) => PrintT(ToJson([h |-> hist]))
          [] mode = "sweep" ->
                LET kd(j) == IF hist[j][2] = 0 THEN "other" ELSE Kinds(sw.c)[hist[j][2]]
                    pick == IF IsInterference
                            THEN Len(hist) = 3 /\ (PM_SweepAll \/ hist[1][2] = (PM_SweepRes % Len(Kinds(sw.c))) + 1)
                            ELSE Len(hist) = PM_SweepLen /\ SelectedSweep IN
                pick => PrintT(ToJson([sw |-> [p |-> PM_Paths[sw.p].name, s |-> sw.s, c |-> sw.c],
                                       q |-> [j \in 1..Len(hist) |-> kd(j)]]))
          [] mode = "algebra" ->
                (Len(hist) = PM_AlgLen /\ SelectedAlg) =>
                    PrintT(ToJson([alg |-> sw.d, q |-> [j \in 1..Len(hist) |-> PM_Algebra[hist[j][2]].name]]))
=============================================================================
