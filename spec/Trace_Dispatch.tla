--------------------------- MODULE Trace_Dispatch ---------------------------
(***************************************************************************)
(* Trace validation of the resolver model: every resolution event recorded *)
(* from real executions of public cola calls (nested calls included) must  *)
(* be explained by Dispatch!Resolve on the extracted rule table.  An event *)
(* carries, per argument, the hints the real value is an instance of and   *)
(* the conditional rules whose condition is true, and the real outcome     *)
(* (tag, global position of the selected signature).                       *)
(* Events are independent, so blocks of the trace are validated in         *)
(* parallel; every state prints its verdict (the harness names the failing *)
(* event) and acceptance is "every event explained".                       *)
(***************************************************************************)
EXTENDS RuleTable, Json, TLC, IOUtils

CONSTANTS Block

D == INSTANCE Dispatch WITH Sigs <- RT_Sigs, LEPairs <- RT_LEPairs, Samples <- RT_Samples

Events == ndJsonDeserialize(IOEnv.TRACE_FILE)
NEvents == Len(Events)

VARIABLE l
Init == l \in {k \in 1..NEvents: (k - 1) % Block = 0}
Next == l < NEvents /\ l % Block # 0 /\ l' = l + 1
Spec == Init /\ [][Next]_l

SetOf(s) == {s[k]: k \in DOMAIN s}
ArgRec(a) == [inst |-> SetOf(a.inst), condtrue |-> SetOf(a.condtrue)]
Explained(e) ==
    LET r == D!Resolve(e.f, [k \in 1..Len(e.args) |-> ArgRec(e.args[k])])
    IN r.tag = e.tag /\ r.rule = e.rule
Verdict == PrintT(ToJson([l |-> l, ok |-> Explained(Events[l])]))
=============================================================================
