------------------------------ MODULE MC_Svd ------------------------------
(***************************************************************************)
(* C16 (svd).  Catalog matrices given by exact factors A = U Sigma V^H     *)
(* with rational unitary U (m x m), V (n x n) (signed permutations,        *)
(* (1/3)[[1,2,2],[2,1,-2],[2,-2,1]], (1/2) Hadamard, Gaussian unit phases) *)
(* and distinct positive integer singular values in decreasing order.      *)
(*                                                                         *)
(* State: case c and k in 1..min(m,n).  Invariants (exact):                *)
(*   FactorsOK    U, V unitary; Sigma strictly decreasing and positive;    *)
(*   Reconstructs U Sigma V^H = A  and  BestRank(all) = A;                 *)
(*   BestRankOK   the k leading columns are Stiefel, A - BestRank(k) is    *)
(*                the sum of the remaining triplets (its range is          *)
(*                orthogonal to the leading left and right vectors);       *)
(*   Emit         prints {id, k, A, sig, best} - the exact best rank-k     *)
(*                approximation for every k.                               *)
(***************************************************************************)
EXTENDS LeastSquares, SvdCatalog, Json, TLC

VARIABLES c, k
vars == <<c, k>>

Case == SCases[c]
R == Len(Case.sig)

Init == c \in 1..Len(SCases) /\ k = 1
Next == k < R /\ k' = k + 1 /\ c' = c
Spec == Init /\ [][Next]_vars

FactorsOK ==
    /\ IsUnitary(Case.U) /\ IsUnitary(Case.V)
    /\ R = Min2(Case.U.r, Case.V.r) /\ R >= 1
    /\ StrictlyDecreasingPositive(Case.sig)
Reconstructs ==
    /\ MEq(MMul(MMul(Case.U, SigmaMat(Case.U.r, Case.V.r, Case.sig)), MAdj(Case.V)), Case.A)
    /\ MEq(BestRank(Case.U, Case.sig, Case.V, R), Case.A)
Best == BestRank(Case.U, Case.sig, Case.V, k)
BestRankOK ==
    LET Uk == Cols(Case.U, k)
        Vk == Cols(Case.V, k)
        E == MSub(Case.A, Best)
    IN /\ IsStiefel(Uk) /\ IsStiefel(Vk)
       /\ MIsZero(MMul(MAdj(Uk), E)) /\ MIsZero(MMul(E, Vk))
       /\ MEq(MMul(MMul(MAdj(Uk), Case.A), Vk), SigmaMat(k, k, SubSeq(Case.sig, 1, k)))
Emit == PrintT(ToJson([id |-> Case.id, k |-> k, A |-> Case.A, sig |-> Case.sig, best |-> Best]))
=============================================================================
