------------------------------ MODULE MC_Svd ------------------------------
(***************************************************************************)
(* C16 (svd).  Catalog matrices given by exact factors A = U Sigma V^H     *)
(* with rational unitary U (m x m), V (n x n) (signed permutations,        *)
(* (1/3)[[1,2,2],[2,1,-2],[2,-2,1]], (1/2) Hadamard, Gaussian unit phases) *)
(* and distinct positive integer singular values in decreasing order.      *)
(*                                                                         *)
(* State: case c and k in 1..min(m,n).  Invariants (exact):                *)
(*   FactorsOK    U, V unitary; Sigma strictly decreasing and positive;    *)
(*   Reconstructs U Sigma V^H = A  and  BestRank(all) = A;                 *)
(*   BestRankOK   the k leading columns are Stiefel, A - BestRank(k) is    *)
(*                the sum of the remaining triplets (its range is          *)
(*                orthogonal to the leading left and right vectors);       *)
(*   Emit         prints {id, k, A, sig, best, tail, ...} - the exact best *)
(*                rank-k approximation and the sum of the k SMALLEST       *)
(*                triplets (which = "SM") for every k.                     *)
(*   TailOK       best(R-k) + tail(k) = A.                                 *)
(*                                                                         *)
(* Operators DECLARED SelfAdjoint (catalog field sa = TRUE; optional, old  *)
(* catalogs without the field are read as sa = FALSE): the case carries    *)
(* the real non-zero integer eigenvalues lam listed by decreasing modulus, *)
(* V is the unitary eigenvector matrix.  Invariant:                        *)
(*   SelfAdjointOK  the declaration is true (A Hermitian), A = V diag(lam) *)
(*                V^H, Sigma = |lam|, U = V diag(sign lam); Emit exports   *)
(*                whether the spectrum is indefinite and whether a         *)
(*                negative eigenvalue dominates a positive one in modulus  *)
(*                (then signs cannot be transported between the order by   *)
(*                value and the order by modulus).                         *)
(***************************************************************************)
EXTENDS LeastSquares, SvdCatalog, Json, TLC

VARIABLES c, k
vars == <<c, k>>

Case == SCases[c]
R == Len(Case.sig)

Init == c \in 1..Len(SCases) /\ k = 1
Next == k < R /\ k' = k + 1 /\ c' = c
Spec == Init /\ [][Next]_vars

FactorsOK ==
    /\ IsUnitary(Case.U) /\ IsUnitary(Case.V)
    /\ R = Min2(Case.U.r, Case.V.r) /\ R >= 1
    /\ StrictlyDecreasingPositive(Case.sig)
Reconstructs ==
    /\ MEq(MMul(MMul(Case.U, SigmaMat(Case.U.r, Case.V.r, Case.sig)), MAdj(Case.V)), Case.A)
    /\ MEq(BestRank(Case.U, Case.sig, Case.V, R), Case.A)
Best == BestRank(Case.U, Case.sig, Case.V, k)
BestRankOK ==
    LET Uk == Cols(Case.U, k)
        Vk == Cols(Case.V, k)
        E == MSub(Case.A, Best)
    IN /\ IsStiefel(Uk) /\ IsStiefel(Vk)
       /\ MIsZero(MMul(MAdj(Uk), E)) /\ MIsZero(MMul(E, Vk))
       /\ MEq(MMul(MMul(MAdj(Uk), Case.A), Vk), SigmaMat(k, k, SubSeq(Case.sig, 1, k)))
\* the k smallest triplets
Trail == TripletSum(Case.U, Case.sig, Case.V, R - k + 1, R)
TailOK ==
    /\ MEq(MAdd(Trail, IF k < R THEN BestRank(Case.U, Case.sig, Case.V, R - k) ELSE Zero(Case.U.r, Case.V.r)), Case.A)
    /\ MEq(TripletSum(Case.U, Case.sig, Case.V, 1, k), Best)

\* declared self-adjoint operators
IsSA == "sa" \in DOMAIN Case /\ Case.sa
Lam == IF IsSA THEN Case.lam ELSE <<>>
SelfAdjointOK ==
    IsSA => /\ IsHermitian(Case.A)
            /\ Len(Case.lam) = R /\ \A i \in 1..R: Case.lam[i] # 0
            /\ Case.sig = AbsSeq(Case.lam)
            /\ MEq(Case.U, HermLeft(Case.V, Case.lam))
            /\ MEq(SpectralForm(Case.V, Case.lam), Case.A)
Emit == PrintT(ToJson([id |-> Case.id, k |-> k, A |-> Case.A, sig |-> Case.sig, best |-> Best, tail |-> Trail,
                       sa |-> IsSA, lam |-> Lam, indefinite |-> IsSA /\ IsIndefiniteSpectrum(Lam),
                       negdom |-> IsSA /\ NegativeDominatesPositive(Lam)]))
=============================================================================
