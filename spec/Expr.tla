------------------------------- MODULE Expr -------------------------------
(***************************************************************************)
(* Operator trees of cola and their denotation.                            *)
(*                                                                         *)
(* A tree is a record [k |-> kind, a |-> <<children>>, p |-> payload].     *)
(* Denote(t) is the matrix that the *documentation* of each operator kind  *)
(* says it represents (docstrings of cola/ops/operators.py); it is never   *)
(* derived from the matrix-free product code.  API-level operations        *)
(* (A + B, c * A, A @ B, A.T, A[i, j], cola.kron ...) are tree nodes too   *)
(* (kinds starting with "op_"); for those Denote is the meaning of the     *)
(* mathematical expression.                                                *)
(***************************************************************************)
EXTENDS Mat

N(k, a, p) == [k |-> k, a |-> a, p |-> p]
NoP == [none |-> TRUE]

---------------------------------------------------------------------------
(* dtypes *)
DTypes == {"f32", "f64", "c64", "c128"}
IsComplexDT(d) == d \in {"c64", "c128"}
Promote(x, y) ==
    IF x = y THEN x
    ELSE IF {x, y} = {"f32", "f64"} THEN "f64"
    ELSE IF {x, y} = {"f32", "c64"} THEN "c64"
    ELSE IF {x, y} = {"c64", "c128"} THEN "c128"
    ELSE "c128"      \* f32/c128, f64/c64, f64/c128
Complexify(d) == IF d = "f32" THEN "c64" ELSE IF d = "f64" THEN "c128" ELSE d
RECURSIVE PromoteSeq(_)
PromoteSeq(s) == IF Len(s) = 1 THEN s[1] ELSE Promote(s[1], PromoteSeq(Tail(s)))

---------------------------------------------------------------------------
(* leaf helper matrices *)
\* unitary DFT, n = 1, 2 (needs 1/sqrt 2: not representable), 4: F[j,k] = (-i)^(jk) / 2
DFT(n) ==
    IF n = 1 THEN Eye(1)
    ELSE MkMatD(4, 4, 2, LAMBDA j, k: CPow(<<0, -1>>, ((j - 1) * (k - 1)) % 4))
\* catalog kernel function on scalars (integer points):  f(a, b) = a*b + a + 2b + 1
KernelFn(a, b) == a * b + a + 2 * b + 1

---------------------------------------------------------------------------
RECURSIVE Denote(_)
Denote(t) ==
    CASE t.k \in {"Dense", "Triangular", "Sparse", "Jacobian", "Hessian", "Array"} -> t.p.m
      [] t.k = "Diagonal" -> MDiagOf(t.p.v)
      [] t.k = "Tridiagonal" -> MTriDiag(t.p.al, t.p.be, t.p.ga)
      [] t.k = "Identity" -> Eye(t.p.n)
      [] t.k = "ScalarMul" -> MScale(t.p.c, Eye(t.p.n))
      [] t.k = "Permutation" -> MPerm(t.p.perm)
      [] t.k = "Householder" -> MHouseholder(t.p.v, t.p.beta)
      [] t.k = "Kernel" ->
            MkMat(Len(t.p.x1), Len(t.p.x2), LAMBDA i, j: <<KernelFn(t.p.x1[i], t.p.x2[j]), 0>>)
      [] t.k = "FFT" -> DFT(t.p.n)
      [] t.k \in {"Product", "op_matmul"} -> MProdSeq([i \in 1..Len(t.a) |-> Denote(t.a[i])])
      [] t.k \in {"Sum", "op_add", "op_sum"} -> MSumSeq([i \in 1..Len(t.a) |-> Denote(t.a[i])])
      [] t.k \in {"Kronecker", "op_kron"} -> MKronSeq([i \in 1..Len(t.a) |-> Denote(t.a[i])])
      [] t.k \in {"KronSum", "op_kronsum"} -> MKronSumSeq([i \in 1..Len(t.a) |-> Denote(t.a[i])])
      [] t.k \in {"BlockDiag", "op_block_diag"} ->
            MBlockSeq(Repeat([i \in 1..Len(t.a) |-> Denote(t.a[i])], t.p.mult))
      [] t.k \in {"Transpose", "op_T"} -> MTr(Denote(t.a[1]))
      [] t.k \in {"Adjoint", "op_H"} -> MAdj(Denote(t.a[1]))
      [] t.k \in {"Sliced", "op_getitem"} -> MGather(Denote(t.a[1]), t.p.rows, t.p.cols)
      [] t.k = "Concatenated" ->
            IF t.p.axis = 0 THEN MVStackSeq([i \in 1..Len(t.a) |-> Denote(t.a[i])])
            ELSE MHStackSeq([i \in 1..Len(t.a) |-> Denote(t.a[i])])
      [] t.k \in {"NoDispatch", "Annot", "op_lazify", "op_densify"} -> Denote(t.a[1])
      [] t.k = "GramT" -> MMul(MTr(Denote(t.a[1])), Denote(t.a[1]))     \* Product(Transpose(x), x)
      [] t.k = "GramH" -> MMul(MAdj(Denote(t.a[1])), Denote(t.a[1]))    \* Product(Adjoint(x), x)
      [] t.k = "GramHr" -> MMul(Denote(t.a[1]), MAdj(Denote(t.a[1])))   \* Product(x, Adjoint(x))
      [] t.k = "SelfProd" -> MMul(Denote(t.a[1]), Denote(t.a[1]))       \* Product(x, x): ONE object twice
      \* Product(Adjoint(x[w1, :]), x[w2, :]) / Product(Transpose(x[w1, :]), x[w2, :]): two DIFFERENT row windows
      \* (first and second half) of ONE object x - not a Gram matrix
      [] t.k \in {"GramWinH", "GramWinT"} ->
            LET D == Denote(t.a[1])
                h == D.r \div 2
                allc == [j \in 1..D.c |-> j]
                S1 == MGather(D, [i \in 1..h |-> i], allc)
                S2 == MGather(D, [i \in 1..h |-> h + i], allc)
            IN MMul(IF t.k = "GramWinH" THEN MAdj(S1) ELSE MTr(S1), S2)
      [] t.k = "op_sub" -> MSub(Denote(t.a[1]), Denote(t.a[2]))
      [] t.k = "op_neg" -> MNeg(Denote(t.a[1]))
      [] t.k \in {"op_smul", "op_rsmul"} -> MScale(t.p.c, Denote(t.a[1]))      \* c * A, A * c
      [] t.k = "op_div" -> MScale(QInv(t.p.c), Denote(t.a[1]))                 \* A / c
      [] t.k = "op_rdiv" -> MScale(t.p.c, MInverse(Denote(t.a[1])))            \* c / A  =  c A^-1
      [] t.k = "op_inv" -> MInverse(Denote(t.a[1]))
      [] t.k = "op_pow" -> MPow(Denote(t.a[1]), t.p.k)

\* shape without evaluating entries
RECURSIVE ShapeOf(_)
ShapeOf(t) ==
    LET S(i) == ShapeOf(t.a[i])
        RECURSIVE ProdR(_)
        ProdR(i) == IF i = 0 THEN 1 ELSE S(i)[1] * ProdR(i - 1)
        RECURSIVE ProdC(_)
        ProdC(i) == IF i = 0 THEN 1 ELSE S(i)[2] * ProdC(i - 1)
        RECURSIVE SumR(_)
        SumR(i) == IF i = 0 THEN 0 ELSE S(i)[1] * (IF "mult" \in DOMAIN t.p THEN t.p.mult[i] ELSE 1) + SumR(i - 1)
        RECURSIVE SumC(_)
        SumC(i) == IF i = 0 THEN 0 ELSE S(i)[2] * (IF "mult" \in DOMAIN t.p THEN t.p.mult[i] ELSE 1) + SumC(i - 1)
    IN
    CASE t.k \in {"Dense", "Triangular", "Sparse", "Jacobian", "Hessian", "Array"} -> <<t.p.m.r, t.p.m.c>>
      [] t.k = "Diagonal" -> <<Len(t.p.v), Len(t.p.v)>>
      [] t.k = "Tridiagonal" -> <<Len(t.p.be), Len(t.p.be)>>
      [] t.k \in {"Identity", "ScalarMul", "FFT"} -> <<t.p.n, t.p.n>>
      [] t.k = "Permutation" -> <<Len(t.p.perm), Len(t.p.perm)>>
      [] t.k = "Householder" -> <<Len(t.p.v), Len(t.p.v)>>
      [] t.k = "Kernel" -> <<Len(t.p.x1), Len(t.p.x2)>>
      [] t.k \in {"Product", "op_matmul"} -> <<S(1)[1], S(Len(t.a))[2]>>
      [] t.k \in {"Sum", "op_add", "op_sum", "op_sub"} -> S(1)
      [] t.k \in {"Kronecker", "op_kron", "KronSum", "op_kronsum"} -> <<ProdR(Len(t.a)), ProdC(Len(t.a))>>
      [] t.k \in {"BlockDiag", "op_block_diag"} -> <<SumR(Len(t.a)), SumC(Len(t.a))>>
      [] t.k \in {"Transpose", "op_T", "Adjoint", "op_H"} -> <<S(1)[2], S(1)[1]>>
      [] t.k \in {"Sliced", "op_getitem"} -> <<Len(t.p.rows), Len(t.p.cols)>>
      [] t.k \in {"GramT", "GramH", "GramWinH", "GramWinT"} -> <<S(1)[2], S(1)[2]>>
      [] t.k = "GramHr" -> <<S(1)[1], S(1)[1]>>
      [] t.k = "Concatenated" ->
            IF t.p.axis = 0 THEN <<SumR(Len(t.a)), S(1)[2]>> ELSE <<S(1)[1], SumC(Len(t.a))>>
      [] OTHER -> S(1)

\* a tree denotes a matrix iff its parts fit together
RECURSIVE WellFormed(_)
WellFormed(t) ==
    /\ \A i \in 1..Len(t.a): WellFormed(t.a[i])
    /\ CASE t.k \in {"Product", "op_matmul"} ->
              \A i \in 1..(Len(t.a) - 1): ShapeOf(t.a[i])[2] = ShapeOf(t.a[i + 1])[1]
         [] t.k \in {"Sum", "op_add", "op_sum", "op_sub"} ->
              \A i \in 2..Len(t.a): ShapeOf(t.a[i]) = ShapeOf(t.a[1])
         [] t.k \in {"KronSum", "op_kronsum"} ->
              \A i \in 1..Len(t.a): ShapeOf(t.a[i])[1] = ShapeOf(t.a[i])[2]
         [] t.k = "Concatenated" ->
              \A i \in 2..Len(t.a): ShapeOf(t.a[i])[2 - t.p.axis] = ShapeOf(t.a[1])[2 - t.p.axis]
         [] t.k \in {"op_rdiv", "op_inv", "op_pow", "SelfProd"} -> ShapeOf(t.a[1])[1] = ShapeOf(t.a[1])[2]
         [] t.k \in {"GramWinH", "GramWinT"} -> ShapeOf(t.a[1])[1] >= 2
         [] OTHER -> TRUE

\* definitional dtype: the promoted dtype of the dense computation
RECURSIVE DTypeOf(_)
DTypeOf(t) ==
    CASE Len(t.a) = 0 -> t.p.dt
      [] t.k \in {"op_smul", "op_rsmul", "op_div", "op_rdiv"} ->
            IF t.p.ck \in {"pycomplex", "npc64"} THEN Complexify(DTypeOf(t.a[1]))
            ELSE IF t.p.ck = "npc128" THEN "c128" ELSE DTypeOf(t.a[1])
      [] OTHER -> PromoteSeq([i \in 1..Len(t.a) |-> DTypeOf(t.a[i])])

RECURSIVE Depth(_)
Depth(t) ==
    IF Len(t.a) = 0 THEN 0
    ELSE 1 + (LET ds == {Depth(t.a[i]): i \in 1..Len(t.a)} IN CHOOSE m \in ds: \A x \in ds: x <= m)

RECURSIVE Size(_)
Size(t) == IF Len(t.a) = 0 THEN 1
           ELSE 1 + (LET RECURSIVE F(_)
                         F(i) == IF i = 0 THEN 0 ELSE Size(t.a[i]) + F(i - 1)
                     IN F(Len(t.a)))
=============================================================================
