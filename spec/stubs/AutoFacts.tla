---- MODULE AutoFacts ----
\* Stub used only for syntax checking (setup.sh); the real module is generated on every run of harness/rulesfam2.py
EXTENDS Integers, Sequences
AF_Shapes == <<[n |-> 4, m |-> 4], [n |-> 1024, m |-> 1024]>>
AF_Anns == <<{}, {"PSD"}>>
AF_Tols == <<[def |-> TRUE], [def |-> FALSE, p |-> 1, q |-> 1000]>>
AF_Opts == <<{}, {"tol"}, {"max_iters"}>>
====
