---- MODULE HutchCatalog ----
\* Stub used only for syntax checking (setup.sh); the real module is generated on every run of ./check C17
EXTENDS Integers, Sequences
HC_Cases == <<[name |-> "m", n |-> 2, k |-> 0, m |-> <<<<1, 2>>, <<3, 4>>>>]>>
====
