---- MODULE UnaryCatalog ----
\* Stub used only for syntax checking (setup.sh); the real module is generated on every run of harness/rulesfam2.py
EXTENDS Integers, Sequences
UC_Seeds == <<[k |-> "Identity", a |-> <<>>, p |-> [n |-> 2, dt |-> "f64"]]>>
UC_Operands == UC_Seeds
UC_Small == UC_Seeds
====
