---- MODULE PersistModel ----
\* Stub used only for syntax checking (setup.sh); the real module is generated on every run of ./check C18
EXTENDS Integers, Sequences
PM_Pool == <<[n |-> 3, spd |-> TRUE], [n |-> 3, spd |-> TRUE]>>
PM_Acts == <<[name |-> "matmul", req |-> "any", out |-> "none"], [name |-> "T", req |-> "any", out |-> "same"]>>
PM_MaxLen == 2
PM_SampleMod == 1
PM_SampleRes == 0
PM_Paths == <<[name |-> "inv_tri_lower", role |-> "rhs"], [name |-> "lanczos", role |-> "start"]>>
PM_Roles == [rhs |-> [sides |-> <<"R", "L">>, classes |-> <<"vec", "mat">>], start |-> [sides |-> <<"A">>, classes |-> <<"vec">>]]
PM_Classes == [vec |-> <<"v1", "v1s", "v1ro">>, mat |-> <<"C", "F", "T", "S", "Cro">>]
PM_SweepLen == 2
PM_SweepAll == FALSE
PM_SweepRes == 0
PM_Decls == <<"PSD", "none">>
PM_Algebra == <<[name |-> "neg", arity |-> 1], [name |-> "sub", arity |-> 2]>>
PM_AlgLen == 2
PM_AlgAll == FALSE
PM_AlgRes == 0
====
