---- MODULE PersistModel ----
\* Stub used only for syntax checking (setup.sh); the real module is generated on every run of ./check C18
EXTENDS Integers, Sequences
PM_Pool == <<[n |-> 3, spd |-> TRUE], [n |-> 3, spd |-> TRUE]>>
PM_Acts == <<[name |-> "matmul", req |-> "any", out |-> "none"], [name |-> "T", req |-> "any", out |-> "same"]>>
PM_MaxLen == 2
PM_SampleMod == 1
PM_SampleRes == 0
====
