---- MODULE RulesCatalog ----
\* Stub used only for syntax checking (setup.sh); the real module is generated on every run of harness/rulesfam.py
EXTENDS Integers, Sequences
RC_Seeds == <<[k |-> "Identity", a |-> <<>>, p |-> [n |-> 2, dt |-> "f64"]]>>
RC_Operands == RC_Seeds
RC_Small == RC_Seeds
====
