---- MODULE BigDetCatalog ----
EXTENDS Integers, Sequences
BigCases == << [k |-> "Ident", n |-> 3] >>
====
