---- MODULE KrylovCatalog ----
\* Stub used only for syntax checking (setup.sh); the real module is generated on every run of ./check C14 / C15
EXTENDS Mat
KC_Cases == <<[name |-> "s", A |-> FromInts(<<<<2, -1>>, <<-1, 2>>>>), herm |-> TRUE, hasEig |-> TRUE,
               V |-> FromInts(<<<<1, 1>>, <<1, -1>>>>), lam |-> <<<<1, 0>>, <<3, 0>>>>, sup |-> <<0>>,
               v |-> <<<<1, 0>>, <<0, 0>>>>, exact |-> FALSE]>>
====
