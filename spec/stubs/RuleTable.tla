---- MODULE RuleTable ----
\* Stub used only for syntax checking (setup.sh); the real module is generated on every run of ./check C04
EXTENDS Integers, Sequences
RT_Sigs == <<[f |-> "f", idx |-> 0, types |-> <<1>>, p2 |-> 0, cond |-> FALSE]>>
RT_LEPairs == {<<1, 1>>}
RT_Structural == {1}
RT_Samples == <<[name |-> "s", inst |-> {1}, condtrue |-> {}]>>
RT_Calls == <<[f |-> "f", args |-> <<1>>]>>
====
