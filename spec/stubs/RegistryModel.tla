---- MODULE RegistryModel ----
\* Stub used only for syntax checking (setup.sh); the real module is generated on every run of ./check C18
EXTENDS Integers, Sequences, TLC
RG_Classes == {"LinearOperator", "Dense"}
RG_Parent == ("LinearOperator" :> "" @@ "Dense" :> "LinearOperator")
RG_Born0 == {"LinearOperator", "Dense"}
RG_Dyn0 == ("LinearOperator" :> ("A" :> "unset" @@ "shape" :> "static") @@ "Dense" :> ("A" :> "unset" @@ "shape" :> "static"))
RG_Inst == <<[cls |-> "Dense",
              attrs |-> <<[n |-> "A", first |-> [dd |-> TRUE, items |-> <<[t |-> "arr", p |-> <<>>, i |-> 0]>>],
                                      fin |-> [dd |-> TRUE, items |-> <<[t |-> "arr", p |-> <<>>, i |-> 0]>>]]>>,
              sorted |-> <<1>>]>>
RG_Templates == <<[name |-> "Dense", root |-> 1, ev |-> <<[i |-> 1, a |-> 1]>>]>>
RG_MaxLen == 1
RG_KnownBad == {}
RG_AllLen == 1
RG_Conflict == {"Dense"}
====
