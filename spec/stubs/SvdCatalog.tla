---- MODULE SvdCatalog ----
\* Stub used only for syntax checking (setup.sh); the real module is generated on every run of ./check C16
\* sa / lam (optional): the operator is DECLARED SelfAdjoint, lam = its eigenvalues listed by decreasing modulus
EXTENDS Integers, Sequences
SCases == <<[id |-> "stub", sig |-> <<2>>,
             U |-> [r |-> 1, c |-> 1, d |-> 1, e |-> <<<<<<-1, 0>>>>>>],
             V |-> [r |-> 1, c |-> 1, d |-> 1, e |-> <<<<<<1, 0>>>>>>],
             A |-> [r |-> 1, c |-> 1, d |-> 1, e |-> <<<<<<-2, 0>>>>>>],
             sa |-> TRUE, lam |-> <<-2>>]>>
====
