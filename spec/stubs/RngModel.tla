---- MODULE RngModel ----
\* Stub used only for syntax checking (setup.sh); the real module is generated on every run of ./check C17
EXTENDS Integers, Sequences
RM_Routines == <<"hutch_diag", "lobpcg", "raw_randn">>
RM_Ops == <<"base", "f32", "f64", "raw52f32">>
RM_Keys == <<1, 2>>
RM_Seeds == <<"s7">>
RM_Disc == [r \in {"hutch_diag", "lobpcg", "raw_randn"} |-> IF r = "lobpcg" THEN "global" ELSE "keyed"]
RM_RandnRestores == TRUE
RM_RandnStateless == TRUE
RM_Acts == <<[t |-> "draw"], [t |-> "seed", s |-> "s7"], [t |-> "call", r |-> "hutch_diag", op |-> "base", k |-> 1],
             [t |-> "call", r |-> "hutch_diag", op |-> "f32", k |-> 1], [t |-> "call", r |-> "hutch_diag", op |-> "f64", k |-> 1],
             [t |-> "call", r |-> "raw_randn", op |-> "raw52f32", k |-> 1]>>
RM_Modes == <<[name |-> "base", acts |-> <<1, 2, 3>>, maxlen |-> 2, mod |-> 1, res |-> 0],
              [name |-> "variant:hutch_diag", acts |-> <<1, 4, 5, 6>>, maxlen |-> 2, mod |-> 1, res |-> 0]>>
====
