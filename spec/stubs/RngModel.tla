---- MODULE RngModel ----
\* Stub used only for syntax checking (setup.sh); the real module is generated on every run of ./check C17
EXTENDS Integers, Sequences
RM_Routines == <<"hutch_diag", "lobpcg">>
RM_Keys == <<1, 2>>
RM_Seeds == <<"s7">>
RM_Disc == [r \in {"hutch_diag", "lobpcg"} |-> IF r = "lobpcg" THEN "global" ELSE "keyed"]
RM_RandnRestores == TRUE
RM_Acts == <<[t |-> "draw"], [t |-> "seed", s |-> "s7"], [t |-> "call", r |-> "hutch_diag", k |-> 1]>>
RM_MaxLen == 2
RM_SampleMod == 1
RM_SampleRes == 0
====
