---- MODULE PinvCatalog ----
\* Stub used only for syntax checking (setup.sh); the real module is generated on every run of ./check C16
\* scales (optional): Gaussian rationals c for which TLC checks pinv(c A) b = pinv(A) b / c
\* kind "Tree" (optional fields tree, revlaw): lazy composite operator, A = Expr!Denote(tree); revlaw = the catalog's claim
\* whether the reverse-order candidate Fn^+ .. F1^+ b equals pinv(F1 .. Fn) b
EXTENDS Integers, Sequences
PCases == <<[id |-> "stub", kind |-> "Dense",
             A |-> [r |-> 1, c |-> 1, d |-> 1, e |-> <<<<<<2, 0>>>>>>],
             b |-> [r |-> 1, c |-> 1, d |-> 1, e |-> <<<<<<1, 0>>>>>>],
             sc |-> <<0, 0>>, diag |-> <<<<0, 0>>>>, perm |-> <<1>>,
             scales |-> <<[n |-> <<1, 0>>, d |-> 10], [n |-> <<0, 1>>, d |-> 1]>>],
            [id |-> "stubtree", kind |-> "Tree",
             A |-> [r |-> 1, c |-> 1, d |-> 1, e |-> <<<<<<6, 0>>>>>>],
             b |-> [r |-> 1, c |-> 1, d |-> 1, e |-> <<<<<<1, 0>>>>>>],
             sc |-> <<0, 0>>, diag |-> <<<<0, 0>>>>, perm |-> <<1>>, scales |-> <<>>, revlaw |-> TRUE,
             tree |-> [k |-> "Product", p |-> [none |-> TRUE],
                       a |-> <<[k |-> "Dense", a |-> <<>>, p |-> [m |-> [r |-> 1, c |-> 1, d |-> 1, e |-> <<<<<<2, 0>>>>>>], dt |-> "f64"]],
                               [k |-> "Dense", a |-> <<>>, p |-> [m |-> [r |-> 1, c |-> 1, d |-> 1, e |-> <<<<<<3, 0>>>>>>], dt |-> "f64"]]>>]]>>
====
