---- MODULE GmresCatalog ----
\* Stub used only for syntax checking (setup.sh); the real module is generated on every run of ./check C13
EXTENDS Integers, Sequences
GCases == <<[id |-> "stub", kdim |-> 1, wide |-> FALSE, hom |-> TRUE,
             A |-> [r |-> 1, c |-> 1, d |-> 1, e |-> <<<<<<2, 0>>>>>>],
             b |-> [r |-> 1, c |-> 1, d |-> 1, e |-> <<<<<<1, 0>>>>>>],
             x0 |-> [r |-> 1, c |-> 1, d |-> 1, e |-> <<<<<<0, 0>>>>>>]]>>
====
