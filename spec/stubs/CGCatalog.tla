---- MODULE CGCatalog ----
\* Stub used only for syntax checking (setup.sh); the real module is generated on every run of ./check C12
EXTENDS Integers, Sequences
CG_Systems == <<[A |-> [r |-> 1, c |-> 1, d |-> 1, e |-> <<<< <<2, 0>> >>>>],
                 M |-> [r |-> 1, c |-> 1, d |-> 1, e |-> <<<< <<1, 0>> >>>>],
                 B |-> <<[r |-> 1, c |-> 1, d |-> 1, e |-> <<<< <<1, 0>> >>>>]>>,
                 X0 |-> <<[r |-> 1, c |-> 1, d |-> 1, e |-> <<<< <<0, 0>> >>>>]>>,
                 mult |-> <<[n |-> <<1, 0>>, d |-> 1]>>, eqv |-> <<FALSE>>, cplx |-> FALSE]>>
====
