------------------------------- MODULE Mat -------------------------------
(***************************************************************************)
(* Exact matrix arithmetic for the cola reference semantics.               *)
(*                                                                         *)
(* Scalars are Gaussian integers <<re, im>>.  A matrix is a record         *)
(*   [r |-> rows, c |-> cols, d |-> D, e |-> <<row_1, ..., row_r>>]        *)
(* whose entries are Gaussian integers and whose value is  e / D  with D a *)
(* positive integer common denominator (so Gaussian *rationals* are        *)
(* covered without ever normalising: equality is by cross multiplication). *)
(* A rational scalar is [n |-> <<re, im>>, d |-> D].                       *)
(*                                                                         *)
(* TLC integers are 32 bit and overflow is an evaluation error, never a    *)
(* silent wrap, so every result below is either exact or the run aborts.   *)
(***************************************************************************)
EXTENDS Integers, Sequences, FiniteSets, TLC

---------------------------------------------------------------------------
(* Gaussian integers *)
CZ == <<0, 0>>
C1 == <<1, 0>>
CI == <<0, 1>>
CInt(n) == <<n, 0>>
CAdd(x, y) == <<x[1] + y[1], x[2] + y[2]>>
CSub(x, y) == <<x[1] - y[1], x[2] - y[2]>>
CNeg(x) == <<-x[1], -x[2]>>
CMul(x, y) == <<x[1] * y[1] - x[2] * y[2], x[1] * y[2] + x[2] * y[1]>>
CConj(x) == <<x[1], -x[2]>>
CScaleI(n, x) == <<n * x[1], n * x[2]>>
CAbs2(x) == x[1] * x[1] + x[2] * x[2]
CIsReal(x) == x[2] = 0

RECURSIVE CSumSeq(_)
CSumSeq(s) == IF s = <<>> THEN CZ ELSE CAdd(Head(s), CSumSeq(Tail(s)))

RECURSIVE CProdSeq(_)
CProdSeq(s) == IF s = <<>> THEN C1 ELSE CMul(Head(s), CProdSeq(Tail(s)))

RECURSIVE CPow(_, _)
CPow(x, k) == IF k = 0 THEN C1 ELSE CMul(x, CPow(x, k - 1))

RECURSIVE IPow(_, _)
IPow(x, k) == IF k = 0 THEN 1 ELSE x * IPow(x, k - 1)

Abs(n) == IF n < 0 THEN -n ELSE n

RECURSIVE GcdNat(_, _)
GcdNat(a, b) == IF b = 0 THEN a ELSE GcdNat(b, a % b)
Gcd(a, b) == GcdNat(Abs(a), Abs(b))

(* rational scalars *)
Q(re, im, d) == [n |-> <<re, im>>, d |-> d]
QInt(k) == Q(k, 0, 1)
QMul(x, y) == [n |-> CMul(x.n, y.n), d |-> x.d * y.d]
QAdd(x, y) == [n |-> CAdd(CScaleI(y.d, x.n), CScaleI(x.d, y.n)), d |-> x.d * y.d]
QNeg(x) == [n |-> CNeg(x.n), d |-> x.d]
QConj(x) == [n |-> CConj(x.n), d |-> x.d]
QEq(x, y) == CScaleI(y.d, x.n) = CScaleI(x.d, y.n)
QIsZero(x) == x.n = CZ
\* 1/x = conj(x.n) * x.d / |x.n|^2
QInv(x) == [n |-> CScaleI(x.d, CConj(x.n)), d |-> CAbs2(x.n)]
QDiv(x, y) == QMul(x, QInv(y))
QIsReal(x) == x.n[2] = 0
QAbs2(x) == [n |-> <<CAbs2(x.n), 0>>, d |-> x.d * x.d]
RECURSIVE QPow(_, _)
QPow(x, k) == IF k = 0 THEN QInt(1) ELSE QMul(x, QPow(x, k - 1))

---------------------------------------------------------------------------
(* Matrices *)
MkMat(r, c, f(_, _)) ==
    [r |-> r, c |-> c, d |-> 1, e |-> [i \in 1..r |-> [j \in 1..c |-> f(i, j)]]]
MkMatD(r, c, d, f(_, _)) ==
    [r |-> r, c |-> c, d |-> d, e |-> [i \in 1..r |-> [j \in 1..c |-> f(i, j)]]]

\* integer matrix literal  <<<<1,2>>,<<3,4>>>>  (real entries)
FromInts(rows) ==
    [r |-> Len(rows), c |-> IF Len(rows) = 0 THEN 0 ELSE Len(rows[1]), d |-> 1,
     e |-> [i \in 1..Len(rows) |-> [j \in 1..Len(rows[i]) |-> <<rows[i][j], 0>>]]]
\* complex literal: entries already pairs
FromPairs(rows) ==
    [r |-> Len(rows), c |-> IF Len(rows) = 0 THEN 0 ELSE Len(rows[1]), d |-> 1, e |-> rows]

Zero(r, c) == MkMat(r, c, LAMBDA i, j: CZ)
Eye(n) == MkMat(n, n, LAMBDA i, j: IF i = j THEN C1 ELSE CZ)
At(M, i, j) == M.e[i][j]

\* cancel the common factor of all numerators and the denominator (keeps 32-bit integers small)
RECURSIVE GcdRow(_, _)
GcdRow(row, acc) ==
    IF row = <<>> \/ acc = 1 THEN acc
    ELSE GcdRow(Tail(row), Gcd(Gcd(acc, Head(row)[1]), Head(row)[2]))
RECURSIVE GcdRows(_, _)
GcdRows(rows, acc) ==
    IF rows = <<>> \/ acc = 1 THEN acc ELSE GcdRows(Tail(rows), GcdRow(Head(rows), acc))
\* every |re|, |im| and the denominator are at most b  (32-bit safety margin for the next operation)
EntriesWithin(M, b) ==
    /\ M.d <= b
    /\ \A i \in 1..M.r: \A j \in 1..M.c:
          /\ M.e[i][j][1] <= b /\ M.e[i][j][1] >= -b /\ M.e[i][j][2] <= b /\ M.e[i][j][2] >= -b
MNormalize(M) ==
    LET g == GcdRows(M.e, M.d) IN
    IF g <= 1 THEN M
    ELSE MkMatD(M.r, M.c, M.d \div g, LAMBDA i, j: <<M.e[i][j][1] \div g, M.e[i][j][2] \div g>>)


MAdd(A, B) ==
    IF A.d = B.d
    THEN IF A.d = 1 THEN MkMatD(A.r, A.c, 1, LAMBDA i, j: CAdd(A.e[i][j], B.e[i][j]))
         ELSE MNormalize(MkMatD(A.r, A.c, A.d, LAMBDA i, j: CAdd(A.e[i][j], B.e[i][j])))
    ELSE LET g == Gcd(A.d, B.d)     \* least common denominator, then cancel
         IN MNormalize(MkMatD(A.r, A.c, (A.d \div g) * B.d,
                              LAMBDA i, j: CAdd(CScaleI(B.d \div g, A.e[i][j]), CScaleI(A.d \div g, B.e[i][j]))))
MNeg(A) == MkMatD(A.r, A.c, A.d, LAMBDA i, j: CNeg(A.e[i][j]))
MSub(A, B) == MAdd(A, MNeg(B))
MScale(s, A) ==
    IF s.d = 1 /\ A.d = 1 THEN MkMatD(A.r, A.c, 1, LAMBDA i, j: CMul(s.n, A.e[i][j]))
    ELSE MNormalize(MkMatD(A.r, A.c, A.d * s.d, LAMBDA i, j: CMul(s.n, A.e[i][j])))
MMul(A, B) ==
    MkMatD(A.r, B.c, A.d * B.d,
           LAMBDA i, j: CSumSeq([k \in 1..A.c |-> CMul(A.e[i][k], B.e[k][j])]))
MTr(A) == MkMatD(A.c, A.r, A.d, LAMBDA i, j: A.e[j][i])
MConj(A) == MkMatD(A.r, A.c, A.d, LAMBDA i, j: CConj(A.e[i][j]))
MAdj(A) == MkMatD(A.c, A.r, A.d, LAMBDA i, j: CConj(A.e[j][i]))
MKron(A, B) ==
    MkMatD(A.r * B.r, A.c * B.c, A.d * B.d,
           LAMBDA i, j: CMul(A.e[((i - 1) \div B.r) + 1][((j - 1) \div B.c) + 1],
                             B.e[((i - 1) % B.r) + 1][((j - 1) % B.c) + 1]))
\* A (+) B  =  A (x) I  +  I (x) B      (square A, B)
MKronSum(A, B) == MAdd(MKron(A, Eye(B.r)), MKron(Eye(A.r), B))
\* [A 0; 0 B]
MBlock2(A, B) ==
    MkMatD(A.r + B.r, A.c + B.c, A.d * B.d,
           LAMBDA i, j: IF i <= A.r /\ j <= A.c THEN CScaleI(B.d, A.e[i][j])
                        ELSE IF i > A.r /\ j > A.c THEN CScaleI(A.d, B.e[i - A.r][j - A.c])
                        ELSE CZ)
MVStack(A, B) ==
    MkMatD(A.r + B.r, A.c, A.d * B.d,
           LAMBDA i, j: IF i <= A.r THEN CScaleI(B.d, A.e[i][j]) ELSE CScaleI(A.d, B.e[i - A.r][j]))
MHStack(A, B) ==
    MkMatD(A.r, A.c + B.c, A.d * B.d,
           LAMBDA i, j: IF j <= A.c THEN CScaleI(B.d, A.e[i][j]) ELSE CScaleI(A.d, B.e[i][j - A.c]))
\* rows / cols are sequences of 1-based indices
MGather(A, rows, cols) ==
    MkMatD(Len(rows), Len(cols), A.d, LAMBDA i, j: A.e[rows[i]][cols[j]])
MDiagOf(v) == MkMat(Len(v), Len(v), LAMBDA i, j: IF i = j THEN v[i] ELSE CZ)
\* row i has its 1 in column p[i]   (P @ v = v[p], p 1-based)
MPerm(p) == MkMat(Len(p), Len(p), LAMBDA i, j: IF p[i] = j THEN C1 ELSE CZ)
\* sub-diagonal al (len n-1), diagonal be (len n), super-diagonal ga (len n-1)
MTriDiag(al, be, ga) ==
    MkMat(Len(be), Len(be),
          LAMBDA i, j: IF i = j THEN be[i] ELSE IF i = j + 1 THEN al[j]
                       ELSE IF j = i + 1 THEN ga[i] ELSE CZ)
\* column vector from a sequence of scalars
MCol(v) == MkMat(Len(v), 1, LAMBDA i, j: v[i])
\* I - beta v v^H , v a sequence, beta a rational
MHouseholder(v, beta) ==
    MSub(Eye(Len(v)), MScale(beta, MMul(MCol(v), MAdj(MCol(v)))))
\* k-th diagonal as a sequence of entries (numerators; denominator is M.d)
DiagK(M, k) ==
    IF k >= 0 THEN [p \in 1..(IF M.c - k < M.r THEN M.c - k ELSE M.r) |-> M.e[p][p + k]]
    ELSE [p \in 1..(IF M.r + k < M.c THEN M.r + k ELSE M.c) |-> M.e[p - k][p]]
MTrace(M) == [n |-> CSumSeq([p \in 1..M.r |-> M.e[p][p]]), d |-> M.d]

MEq(A, B) ==
    /\ A.r = B.r /\ A.c = B.c
    /\ \A i \in 1..A.r: \A j \in 1..A.c: CScaleI(B.d, A.e[i][j]) = CScaleI(A.d, B.e[i][j])
MIsZero(A) == \A i \in 1..A.r: \A j \in 1..A.c: A.e[i][j] = CZ
MIsReal(A) == \A i \in 1..A.r: \A j \in 1..A.c: A.e[i][j][2] = 0

---------------------------------------------------------------------------
(* Determinant / adjugate of the numerator matrix by Laplace expansion     *)
(* (sizes <= 4; subset dynamic programming above).  det(M) = DetN(M) / M.d^n *)
Minor(M, i, j) ==
    MkMatD(M.r - 1, M.c - 1, M.d,
           LAMBDA a, b: M.e[IF a < i THEN a ELSE a + 1][IF b < j THEN b ELSE b + 1])
\* Determinant by dynamic programming over column subsets (n * 2^(n-1) products instead of n!): D_k[S] is the
\* minor on rows 1..k and the column set S (|S| = k), expanded along row k.  TLCEval forces each level into an
\* explicit function so that the previous level is looked up, not recomputed.
SortedSeq(S) ==
    LET RECURSIVE F(_)
        F(T) == IF T = {} THEN <<>>
                ELSE LET m == CHOOSE x \in T: \A y \in T: x <= y IN <<m>> \o F(T \ {m})
    IN F(S)
DetDP(M) ==
    LET n == M.r
        RECURSIVE Lvl(_)
        Lvl(k) ==
            IF k = 0 THEN [S \in {{}} |-> C1]
            ELSE LET prev == Lvl(k - 1)
                 IN TLCEval([S \in {T \in SUBSET (1..n): Cardinality(T) = k} |->
                        LET s == SortedSeq(S)
                        IN CSumSeq([p \in 1..k |->
                              LET j == s[p] IN
                              IF M.e[k][j] = CZ THEN CZ
                              ELSE CMul(IF (k + p) % 2 = 0 THEN M.e[k][j] ELSE CNeg(M.e[k][j]), prev[S \ {j}])])])
    IN Lvl(n)[1..n]
\* an upper bound on |re| + |im| of every minor that DetDP forms (product of the row 1-norms, each at least 1, times
\* sqrt(2)^n for the complex products), saturating at Cap: DetDP(M) is overflow-free when this is below 2^30
RowNormBound(M, Cap) ==
    LET RowNorm(i) == LET v == CSumSeq([j \in 1..M.c |-> <<Abs(M.e[i][j][1]) + Abs(M.e[i][j][2]), 0>>])[1]
                      IN IF v < 1 THEN 1 ELSE v
        cplx == \E i \in 1..M.r: \E j \in 1..M.c: M.e[i][j][2] # 0
        RECURSIVE P(_)
        P(i) == IF i = 0 THEN 1
                ELSE LET q == P(i - 1)
                         f == RowNorm(i) * (IF cplx THEN 2 ELSE 1)
                     IN IF q >= Cap \/ f >= Cap \/ q > Cap \div f THEN Cap ELSE q * f
    IN P(M.r)

RECURSIVE DetN(_)
DetN(M) ==
    IF M.r >= 5 THEN DetDP(M)
    ELSE IF M.r = 0 THEN C1
    ELSE IF M.r = 1 THEN M.e[1][1]
    ELSE IF M.r = 2 THEN CSub(CMul(M.e[1][1], M.e[2][2]), CMul(M.e[1][2], M.e[2][1]))
    ELSE CSumSeq([j \in 1..M.c |->
            IF M.e[1][j] = CZ THEN CZ
            ELSE CMul(IF j % 2 = 1 THEN M.e[1][j] ELSE CNeg(M.e[1][j]), DetN(Minor(M, 1, j)))])
Det(M) == [n |-> DetN(M), d |-> IPow(M.d, M.r)]
\* adjugate of the numerator matrix: N * AdjN(N) = DetN(N) * I
AdjN(M) ==
    MkMat(M.r, M.c, LAMBDA i, j:
        LET m == DetN(Minor(M, j, i)) IN IF (i + j) % 2 = 0 THEN m ELSE CNeg(m))
\* inverse of a matrix whose determinant is a non-zero *real* or complex number:
\*   (N/d)^-1 = d * adj(N) / det(N) = d * adj(N) * conj(det) / |det|^2
MInverse(M) ==
    LET dn == DetN(M)
        a == AdjN(M)
    IN IF dn[2] = 0
       THEN MNormalize(MkMatD(M.r, M.c, Abs(dn[1]),
                              LAMBDA i, j: CScaleI(IF dn[1] < 0 THEN -M.d ELSE M.d, a.e[i][j])))
       ELSE MNormalize(MkMatD(M.r, M.c, CAbs2(dn), LAMBDA i, j: CScaleI(M.d, CMul(CConj(dn), a.e[i][j]))))
MIsSingular(M) == DetN(M) = CZ

---------------------------------------------------------------------------
(* Structural predicates (exact) *)
IsSquare(M) == M.r = M.c
IsHermitian(M) == IsSquare(M) /\ \A i \in 1..M.r: \A j \in 1..M.c: M.e[i][j] = CConj(M.e[j][i])
IsSymmetric(M) == IsSquare(M) /\ \A i \in 1..M.r: \A j \in 1..M.c: M.e[i][j] = M.e[j][i]
IsLower(M) == \A i \in 1..M.r: \A j \in 1..M.c: j > i => M.e[i][j] = CZ
IsUpper(M) == \A i \in 1..M.r: \A j \in 1..M.c: j < i => M.e[i][j] = CZ
IsDiagonal(M) == IsLower(M) /\ IsUpper(M)
IsUpperHessenberg(M) == \A i \in 1..M.r: \A j \in 1..M.c: i > j + 1 => M.e[i][j] = CZ
\* M^H M = I   (orthonormal columns)
IsStiefel(M) == MEq(MMul(MAdj(M), M), Eye(M.c))
IsUnitary(M) == IsSquare(M) /\ IsStiefel(M) /\ MEq(MMul(M, MAdj(M)), Eye(M.r))
\* principal sub-matrix on an index set given as an ascending sequence
SetToSeq(S) ==
    LET RECURSIVE F(_)
        F(T) == IF T = {} THEN <<>>
                ELSE LET m == CHOOSE x \in T: \A y \in T: x <= y IN <<m>> \o F(T \ {m})
    IN F(S)
\* Hermitian and every principal minor >= 0 (numerators: sign is that of the minor
\* because the denominator is positive)
IsPD(M) ==
    /\ IsHermitian(M)
    /\ \A k \in 1..M.r:
          LET s == [i \in 1..k |-> i]
              dm == DetN(MGather(M, s, s))
          IN dm[2] = 0 /\ dm[1] > 0
\* (Sylvester for the definite case first: n determinants instead of 2^n - 1)
IsPSD(M) ==
    /\ IsHermitian(M)
    /\ \/ IsPD(M)
       \/ \A S \in (SUBSET (1..M.r)) \ {{}}:
             LET s == SetToSeq(S)
                 dm == DetN(MGather(M, s, s))
             IN dm[2] = 0 /\ dm[1] >= 0
IsPermutationMatrix(M) ==
    /\ IsSquare(M) /\ M.d = 1
    /\ \A i \in 1..M.r: Cardinality({j \in 1..M.c: M.e[i][j] # CZ}) = 1
    /\ \A j \in 1..M.c: Cardinality({i \in 1..M.r: M.e[i][j] # CZ}) = 1
    /\ \A i \in 1..M.r: \A j \in 1..M.c: M.e[i][j] \in {CZ, C1}

\* parity of a permutation given as a sequence (1-based): +1 / -1
PermSign(p) ==
    LET inv == Cardinality({ij \in (1..Len(p)) \X (1..Len(p)): ij[1] < ij[2] /\ p[ij[1]] > p[ij[2]]})
    IN IF inv % 2 = 0 THEN 1 ELSE -1

\* folds over sequences of matrices
RECURSIVE MSumSeq(_)
MSumSeq(s) == IF Len(s) = 1 THEN s[1] ELSE MAdd(s[1], MSumSeq(Tail(s)))
RECURSIVE MProdSeq(_)
MProdSeq(s) == IF Len(s) = 1 THEN s[1] ELSE MMul(s[1], MProdSeq(Tail(s)))
RECURSIVE MKronSeq(_)
\* left-to-right: ((A (x) B) (x) C) = A (x) (B (x) C)
MKronSeq(s) == IF Len(s) = 1 THEN s[1] ELSE MKron(s[1], MKronSeq(Tail(s)))
RECURSIVE MKronSumSeq(_)
MKronSumSeq(s) == IF Len(s) = 1 THEN s[1] ELSE MKronSum(s[1], MKronSumSeq(Tail(s)))
RECURSIVE MBlockSeq(_)
MBlockSeq(s) == IF Len(s) = 1 THEN s[1] ELSE MBlock2(s[1], MBlockSeq(Tail(s)))
RECURSIVE MVStackSeq(_)
MVStackSeq(s) == IF Len(s) = 1 THEN s[1] ELSE MVStack(s[1], MVStackSeq(Tail(s)))
RECURSIVE MHStackSeq(_)
MHStackSeq(s) == IF Len(s) = 1 THEN s[1] ELSE MHStack(s[1], MHStackSeq(Tail(s)))
RECURSIVE MPow(_, _)
MPow(A, k) == IF k = 0 THEN Eye(A.r) ELSE MMul(A, MPow(A, k - 1))

\* repeat each element of s[i] m[i] times, consecutively
RECURSIVE Repeat(_, _)
Repeat(s, m) ==
    IF s = <<>> THEN <<>>
    ELSE [i \in 1..m[1] |-> s[1]] \o Repeat(Tail(s), Tail(m))
=============================================================================
