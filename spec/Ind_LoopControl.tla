------------------------- MODULE Ind_LoopControl -------------------------
(***************************************************************************)
(* Unbounded proof (Apalache, inductive invariant) of the contract of the  *)
(* Lanczos / Arnoldi control skeleton for EVERY operator size n >= 1,      *)
(* every requested cap m >= 1 and every sequence of test outcomes:         *)
(*   IndInit => IndInv               (length 0)                            *)
(*   IndInv /\ Next => IndInv'       (length 1)                            *)
(* IndInv contains LoopControl!CtlInv, the invariant that MC_LoopControl   *)
(* checks for small (n, m) and Trace_LoopControl validates on recorded     *)
(* executions.                                                             *)
(***************************************************************************)
EXTENDS Integers, Sequences, LoopControl

VARIABLES
    \* @type: Str;
    alg,
    \* @type: Int;
    n,
    \* @type: Int;
    m,
    \* @type: { ctr: Int, done: Bool, evals: Int, bodies: Int };
    st

TypeOK == /\ alg \in Algs /\ n \in Int /\ m \in Int /\ n >= 1 /\ m >= 1
          /\ st.ctr \in Int /\ st.evals \in Int /\ st.bodies \in Int /\ st.done \in BOOLEAN
          /\ st.bodies >= 0

Init == /\ alg \in Algs /\ n \in Int /\ m \in Int /\ n >= 1 /\ m >= 1
        /\ st = CtlInit(alg)

Next == /\ ~st.done
        /\ \E large \in BOOLEAN: st' = CtlStep(alg, st, Cap(m, n), large)
        /\ UNCHANGED <<alg, n, m>>

\* negative control: a loop that tests `ctr <= cap + 1` (one step too many) must break the induction
NextMutant == /\ ~st.done
              /\ \E large \in BOOLEAN: st' = CtlAdvance(st, Cont(alg, st.ctr, Cap(m, n) + 1, large))
              /\ UNCHANGED <<alg, n, m>>

IndInv == TypeOK /\ CtlInv(alg, n, m, st)

\* an arbitrary state satisfying the invariant (the induction hypothesis)
IndInit == /\ alg \in Algs /\ n \in Int /\ m \in Int
           /\ \E c \in Int, e \in Int, b \in Int, d \in BOOLEAN: st = [ctr |-> c, done |-> d, evals |-> e, bodies |-> b]
           /\ IndInv
=============================================================================
