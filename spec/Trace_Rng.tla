----------------------------- MODULE Trace_Rng -----------------------------
(***************************************************************************)
(* Trace validation for C17 (module Rng).  The harness executes the        *)
(* interleavings printed by MC_Rng against the real library, sharing       *)
(* common prefixes, so the recording is a TREE of events: node i is one    *)
(* executed action                                                         *)
(*   [p  parent node (0 = first action of a behaviour),                    *)
(*    fc, nc  its children are the nodes fc .. fc+nc-1,                    *)
(*    a  "d" user draw | "s" user seed | "c" call,  r, k  routine and key, *)
(*    g0, g1  identity of np.random.get_state() before / after the action, *)
(*    o  identity of the bytes returned by the call (0 for user actions)]. *)
(* Identities are SHA-256 digests interned to small integers (injective).  *)
(*                                                                         *)
(* Every root-to-leaf path is one behaviour; the state carries the         *)
(* specification variables g and out of module Rng along the path and the  *)
(* verdict of the last event:                                              *)
(*   cont  the recorded pre-state is the specification's g (nothing moved  *)
(*         the generator between two recorded actions),                    *)
(*   sane  a user draw does change the recorded identity (the observation  *)
(*         is sensitive; binding check, not part of the property),         *)
(*   okg   a call leaves g unchanged              (clause global_state),   *)
(*   okd   equal (routine, key) => equal output   (clause determinism).    *)
(* A rejected event does not stop the walk (g, out continue from the       *)
(* recorded values) so that every event gets a verdict.                    *)
(***************************************************************************)
EXTENDS Integers, Sequences, Json, TLC, IOUtils

CONSTANTS NR, NK      \* number of routines, number of keys

Nodes == ndJsonDeserialize(IOEnv.TRACE_FILE)
N == Len(Nodes)

VARIABLES l, g, out, v

NoOut == [r \in 1..NR |-> [k \in 1..NK |-> 0]]
BootG == Nodes[1].g0

Judge(e, gpre, opre) ==
    [cont |-> e.g0 = gpre,
     sane |-> (e.a = "d") => (e.g1 # e.g0),
     okg  |-> (e.a = "c") => (e.g1 = e.g0),
     okd  |-> (e.a = "c") => (opre[e.r][e.k] = 0 \/ e.o = opre[e.r][e.k])]

Remember(e, opre) ==
    IF e.a = "c" /\ opre[e.r][e.k] = 0 THEN [opre EXCEPT ![e.r][e.k] = e.o] ELSE opre

Enter(i, gpre, opre) ==
    LET e == Nodes[i] IN
    /\ l' = i
    /\ g' = e.g1
    /\ out' = Remember(e, opre)
    /\ v' = Judge(e, gpre, opre)

Init == \E i \in {j \in 1..N: Nodes[j].p = 0}:
            LET e == Nodes[i] IN
            /\ l = i
            /\ g = e.g1
            /\ out = Remember(e, NoOut)
            /\ v = Judge(e, BootG, NoOut)

Next == \E c \in Nodes[l].fc .. (Nodes[l].fc + Nodes[l].nc - 1): Enter(c, g, out)

Spec == Init /\ [][Next]_<<l, g, out, v>>

Accepted == v.cont /\ v.sane /\ v.okg /\ v.okd
Verdict == Accepted \/ PrintT(ToJson([l |-> l, cont |-> v.cont, sane |-> v.sane, okg |-> v.okg, okd |-> v.okd]))
=============================================================================
