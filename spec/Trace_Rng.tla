----------------------------- MODULE Trace_Rng -----------------------------
(***************************************************************************)
(* Trace validation for C17 (module Rng).  The harness executes the        *)
(* interleavings printed by MC_Rng against the real library.  The          *)
(* recording is a FOREST of events: node i is one executed action          *)
(*   [p  parent node (0 = first action of a behaviour),                    *)
(*    fc, nc  its children are the nodes fc .. fc+nc-1,                    *)
(*    a  "d" user draw | "s" user seed | "c" call,                         *)
(*    s  the SLOT of a call: identity of its (routine, operator, key)      *)
(*       triple, interned to 1, 2, ... (0 for user actions),               *)
(*    g0, g1  identity of np.random.get_state() before / after the action, *)
(*    o  identity of the bytes returned by the call (0 for user actions)]. *)
(* Identities are SHA-256 digests interned to small integers (injective).  *)
(* The last line of the file is not a node but the harness's claim         *)
(*   [canon |-> <<o_1, o_2, ...>>]   the output of slot 1, 2, ...          *)
(* Behaviours of the base mode share prefixes (a tree per operator; the    *)
(* harness restores the global state between siblings); behaviours of the  *)
(* variant modes (calls on the float32 / float64 / complex64 / complex128  *)
(* versions of one matrix, unrelated keyed draws, user draws) are executed *)
(* linearly, several of them one after the other in a fresh process: a     *)
(* chain, i.e. one long history.                                           *)
(*                                                                         *)
(* Every root-to-leaf path is one behaviour; the state carries the         *)
(* specification variables g and out of module Rng along the path and the  *)
(* verdict of the last event:                                              *)
(*   cont  the recorded pre-state is the specification's g (nothing moved  *)
(*         the generator between two recorded actions),                    *)
(*   sane  a user draw does change the recorded identity (the observation  *)
(*         is sensitive; binding check, not part of the property),         *)
(*   okg   a call leaves g unchanged              (clause global_state),   *)
(*   okd   equal (routine, operator, key) => equal output, against every   *)
(*         earlier call ON THIS PATH, whatever came in between (calls on   *)
(*         other dtypes / shapes / keys included)   (clause determinism),  *)
(*   okf   ... and against the calls of every OTHER recorded history: the  *)
(*         output is the one claimed for its slot (canon).  Whatever the   *)
(*         harness claims, all ACCEPTED calls of a slot carry one and the  *)
(*         same output, in whichever history they occur.                   *)
(* out and canon are indexed by the slot, i.e. by the full triple          *)
(* (routine, operator, key): calls that differ in routine, operator (the   *)
(* float32 and the float64 version of a matrix are different operators) or *)
(* key are never compared (not forced equal).                              *)
(* A rejected event does not stop the walk (g, out continue from the       *)
(* recorded values) so that every event gets a verdict.                    *)
(***************************************************************************)
EXTENDS Integers, Sequences, Json, TLC, IOUtils

Lines == ndJsonDeserialize(IOEnv.TRACE_FILE)
N == Len(Lines) - 1
Nodes == Lines                     \* nodes 1..N; line N+1 is the claim
Canon == Lines[N + 1].canon

VARIABLES l, g, out, v

NoOut == (0 :> 0)                  \* no call seen yet (slot 0 is not a call)
Seen(o, e) == e.s \in DOMAIN o
BootG == Nodes[1].g0

Judge(e, gpre, opre) ==
    [cont |-> e.g0 = gpre,
     sane |-> (e.a = "d") => (e.g1 # e.g0),
     okg  |-> (e.a = "c") => (e.g1 = e.g0),
     okd  |-> (e.a = "c") => (~Seen(opre, e) \/ e.o = opre[e.s]),
     okf  |-> (e.a = "c") => (e.s \in 1..Len(Canon) /\ e.o = Canon[e.s])]

Remember(e, opre) ==
    IF e.a = "c" /\ ~Seen(opre, e) THEN (e.s :> e.o) @@ opre ELSE opre

Enter(i, gpre, opre) ==
    LET e == Nodes[i] IN
    /\ l' = i
    /\ g' = e.g1
    /\ out' = Remember(e, opre)
    /\ v' = Judge(e, gpre, opre)

Init == \E i \in {j \in 1..N: Nodes[j].p = 0}:
            LET e == Nodes[i] IN
            /\ l = i
            /\ g = e.g1
            /\ out = Remember(e, NoOut)
            /\ v = Judge(e, BootG, NoOut)

Next == \E c \in Nodes[l].fc .. (Nodes[l].fc + Nodes[l].nc - 1): Enter(c, g, out)

Spec == Init /\ [][Next]_<<l, g, out, v>>

Accepted == v.cont /\ v.sane /\ v.okg /\ v.okd /\ v.okf
Verdict == Accepted \/ PrintT(ToJson([l |-> l, cont |-> v.cont, sane |-> v.sane, okg |-> v.okg, okd |-> v.okd,
                                      okf |-> v.okf]))
=============================================================================
