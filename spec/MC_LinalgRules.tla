-------------------------- MODULE MC_LinalgRules --------------------------
(***************************************************************************)
(* Enumeration model for LinalgRules (style of MC_Ops): the state is one   *)
(* constructor-level operator tree over a generated leaf catalog, grown by *)
(* one constructor application per step.  In every state TLC              *)
(*  - decides the correctness statements of LinalgRules (INVARIANTs), and  *)
(*  - prints one JSON line: the tree, and for inv / slogdet / diag(k) /    *)
(*    trace the rules fired in call order, the exception class if the code *)
(*    refuses, the class skeleton of the inverse and the exact values,     *)
(*    which the conformance harness (harness/rulesfam.py) replays through  *)
(*    the real library.                                                    *)
(***************************************************************************)
EXTENDS LinalgRules, RulesCatalog, Json, TLC

CONSTANTS MaxLvl,      \* number of constructor applications
          MaxDim,      \* bound on rows and on columns of every tree
          Acts,        \* enabled constructor names
          DoEmit,      \* print JSON lines
          EntryBound   \* bound on |re|, |im|, denominator of every entry (32-bit safety)

VARIABLES t, lvl, ph   \* ph: "new" (just built, cheap) -> "done" (invariants decided, JSON printed): the heavy work
                      \* happens on the new -> done step, which any worker can take (load balance)
vars == <<t, lvl, ph>>

Fits(x) == LET s == ShapeOf(x) IN s[1] <= MaxDim /\ s[2] <= MaxDim /\ s[1] >= 1 /\ s[2] >= 1
Seeds == {RC_Seeds[i]: i \in 1..Len(RC_Seeds)}
Operands == {RC_Operands[i]: i \in 1..Len(RC_Operands)}
Smalls == {RC_Small[i]: i \in 1..Len(RC_Small)}

Init == t \in Seeds /\ lvl = 0 /\ ph = "new"

Unary(x) ==
    (IF "Transpose" \in Acts THEN {N("Transpose", <<x>>, NoP)} ELSE {})
    \cup (IF "Adjoint" \in Acts THEN {N("Adjoint", <<x>>, NoP)} ELSE {})
    \cup (IF "NoDispatch" \in Acts THEN {N("NoDispatch", <<x>>, NoP)} ELSE {})
    \cup (IF "Annot" \in Acts /\ x.k # "Annot" /\ ShapeOf(x)[1] <= 4 /\ ShapeOf(x)[2] <= 4
          THEN {N("Annot", <<x>>, [ann |-> a]): a \in {b \in {"PSD", "SelfAdjoint", "Unitary"}: Holds(b, Denote(x))}}
          ELSE {})
Binary(x, o) ==
    (IF "Product" \in Acts THEN {N("Product", <<x, o>>, NoP), N("Product", <<o, x>>, NoP)} ELSE {})
    \cup (IF "Sum" \in Acts THEN {N("Sum", <<x, o>>, NoP)} ELSE {})
    \cup (IF "Kronecker" \in Acts THEN {N("Kronecker", <<x, o>>, NoP), N("Kronecker", <<o, x>>, NoP)} ELSE {})
    \cup (IF "KronSum" \in Acts THEN {N("KronSum", <<x, o>>, NoP)} ELSE {})
    \cup (IF "BlockDiag" \in Acts
          THEN {N("BlockDiag", <<x, o>>, [mult |-> m]): m \in {<<1, 1>>, <<2, 1>>, <<1, 2>>}} ELSE {})
Ternary(x, o1, o2) ==
    (IF "Kronecker3" \in Acts THEN {N("Kronecker", <<x, o1, o2>>, NoP), N("Kronecker", <<o1, x, o2>>, NoP)} ELSE {})
    \cup (IF "Product3" \in Acts THEN {N("Product", <<o1, x, o2>>, NoP), N("Product", <<x, o1, o2>>, NoP)} ELSE {})
    \cup (IF "BlockDiag3" \in Acts THEN {N("BlockDiag", <<x, o1, o2>>, [mult |-> <<1, 2, 1>>])} ELSE {})
    \cup (IF "Sum3" \in Acts THEN {N("Sum", <<o1, o2, x>>, NoP)} ELSE {})

\* entries stay small enough that no 32-bit overflow can occur in the rules and in the exact oracles
Accept(n) == WellFormed(n) /\ Fits(n) /\ EntriesWithin(Denote(n), EntryBound)

Step(n) == /\ lvl < MaxLvl /\ Accept(n)
           /\ t' = n /\ lvl' = lvl + 1 /\ ph' = "new"
Grow == /\ ph = "done" /\ lvl < MaxLvl
        /\ \/ \E n \in Unary(t): Step(n)
           \/ \E o \in Operands: \E n \in Binary(t, o): Step(n)
           \/ \E o1 \in Smalls: \E o2 \in Smalls: \E n \in Ternary(t, o1, o2): Step(n)
Decide == ph = "new" /\ ph' = "done" /\ UNCHANGED <<t, lvl>>
Next == Decide \/ Grow
Spec == Init /\ [][Next]_vars

---------------------------------------------------------------------------
Ks == <<-1, 0, 1>>

Out ==
    LET iv == InvRule(t)
        dt == DetRule(t)
        tr == TraceRule(t)
        pl == PluRule(t)
        ch == CholRule(t)
        D == Denote(t)
    IN [t |-> t, lvl |-> lvl, sh |-> ShapeOf(t), sq |-> IsSq(t),
        nonsing |-> (IsSq(t) /\ ~MIsSingular(D)), infersound |-> InferSoundAll(t),
        inv |-> [calls |-> iv.calls, exc |-> iv.exc, skel |-> IF OK(iv) THEN Skel(iv.val) ELSE SL("Raise"),
                 def |-> IF OK(iv) THEN AllDef(iv.val) ELSE FALSE],
        det |-> [calls |-> dt.calls, exc |-> dt.exc, val |-> dt.val],
        diag |-> [j \in 1..Len(Ks) |->
                    LET dg == DiagRule(t, Ks[j]) IN
                    [k |-> Ks[j], calls |-> dg.calls, exc |-> dg.exc,
                     val |-> IF OK(dg) THEN MNormalize(dg.val) ELSE Zero(0, 1), dom |-> DiagDomain(t),
                     sound |-> (OK(dg) => MEq(dg.val, DiagVec(D, Ks[j])))]],
        trace |-> [calls |-> tr.calls, exc |-> tr.exc, val |-> tr.val, dom |-> TraceDomain(t),
                   sound |-> (OK(tr) => QEq(tr.val, MTrace(D)))],
        plu |-> [calls |-> pl.calls, exc |-> pl.exc, skel |-> IF OK(pl) THEN Skel3(pl.val) ELSE <<>>],
        chol |-> [calls |-> ch.calls, exc |-> ch.exc, skel |-> IF OK(ch) THEN Skel(ch.val) ELSE SL("Raise"),
                  def |-> IF OK(ch) THEN AllDef(ch.val) ELSE FALSE, pd |-> IsPDTree(t), dom |-> CholDomain(t)]]
Chk == ph = "done"
Emit == (DoEmit /\ Chk) => PrintT(ToJson(Out))

\* ---- the invariants (statements in LinalgRules.tla, section 5)
InvRuleSound == Chk => InvSoundAt(t)
InvGuardComplete == Chk => InvCompleteAt(t)
DetRuleSound == Chk => DetSoundAt(t)
DetRuleComplete == Chk => DetCompleteAt(t)
DiagRuleSound == Chk => \A j \in 1..Len(Ks): DiagSoundAt(t, Ks[j])
TraceRuleSound == Chk => TraceSoundAt(t)
PluRuleSound == Chk => PluSoundAt(t)
CholRuleSound == Chk => CholSoundAt(t)
CholGuardComplete == Chk => CholCompleteAt(t)
\* expected to FAIL (known finding: cholesky of a positive definite Kronecker product whose factors are not)
CholGuardCompleteEverywhere == Chk => CholCompleteEverywhereAt(t)
\* expected to FAIL: the code's BlockDiag / Kronecker diag rules and the generic trace do not test that the
\* blocks / factors are square (defect witnesses, run separately by the harness)
DiagRuleSoundEverywhere == Chk => \A j \in 1..Len(Ks): DiagSoundEverywhereAt(t, Ks[j])
TraceRuleSoundEverywhere == Chk => TraceSoundEverywhereAt(t)
\* model sanity
ShapeConsistent == Chk => LET d == Denote(t) IN <<d.r, d.c>> = ShapeOf(t)
=============================================================================
