----------------------------- MODULE MC_Registry -----------------------------
(***************************************************************************)
(* All construction orders (without repetition) of the instance templates  *)
(* up to length RG_MaxLen.  Each step records what the model predicts for  *)
(* the template just constructed (leaves of flatten(), verdict against the *)
(* oracle, registry rows of the classes involved); every order is printed  *)
(* for replay in fresh interpreters.         `Bad` lists, for the state   *)
(* reached, the templates for which the property fails if built next.      *)
(* HistoryIndependent (module Registry) is the property as an invariant;   *)
(* on a tree with known first-assignment defects it is evaluated into the  *)
(* printed records instead of stopping TLC at the first counterexample.    *)
(***************************************************************************)
EXTENDS Registry, Json

VARIABLES hist, pred

NT == Len(RG_Templates)

ClassesOf(t) == {RG_Inst[RG_Templates[t].ev[j].i].cls: j \in 1..Len(RG_Templates[t].ev)}
RowOf(d, c) == {<<a, d[c][a]>>: a \in {x \in DOMAIN d[c]: d[c][x] # "unset"}}

MCInit == Init /\ hist = <<>> /\ pred = <<>>

Step(t) ==
    /\ Len(hist) < RG_MaxLen
    /\ \A j \in 1..Len(hist): hist[j] # t
    /\ LET r == After(t)
           lv == Leaves(RG_Templates[t].root, r.dyn, <<>>) IN
       /\ dyn' = r.dyn /\ born' = r.born
       /\ hist' = Append(hist, t)
       /\ pred' = Append(pred, [leaves |-> lv, ok |-> lv = Oracle(t),
                                reg |-> {<<c, RowOf(r.dyn, c)>>: c \in ClassesOf(t)}])

MCNext == \E t \in 1..NT: Step(t)
MCSpec == MCInit /\ [][MCNext]_<<dyn, born, hist, pred>>

Bad == {t \in 1..NT: (\A j \in 1..Len(hist): hist[j] # t) /\ Probe(t) # Oracle(t)}

Emit == (Len(hist) >= 1) =>
            PrintT(ToJson([h |-> [j \in 1..Len(hist) |-> RG_Templates[hist[j]].name],
                           pred |-> pred,
                           bad |-> {RG_Templates[t].name: t \in Bad}]))
=============================================================================
