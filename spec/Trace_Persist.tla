---------------------------- MODULE Trace_Persist ----------------------------
(***************************************************************************)
(* Trace validation for the persistence part of C18 (module Persist).  The *)
(* harness executes the operation sequences printed by MC_Persist (and     *)
(* seeded longer random ones) against real cola, sharing prefixes, so the  *)
(* recording is a tree; node 1.. are events                                *)
(*   [p parent (0: the initial snapshot), fc, nc children fc..fc+nc-1,     *)
(*    sig  identity of (operation, operand ids),  res  identity of the     *)
(*         returned value / created operator / raised exception class,     *)
(*    ow   <<digest of every caller-owned array>>  (fixed order),          *)
(*    ops  <<[d, a, l, h]>>  dense / annotation-set / flatten-leaves /     *)
(*         full-state identity (shape, dtype, static fields and every      *)
(*         attribute reachable from the instance, hidden ones included)    *)
(*         of every live operator AFTER the event, in creation order,      *)
(*    ab, aa  layout sweep only (0, 0 otherwise): identity of the swept    *)
(*         ARGUMENT - bytes, shape, strides, flags of the array handed to  *)
(*         the call and bytes of the buffer it is a view of - taken        *)
(*         immediately before and immediately after the call]              *)
(* In a layout-sweep chain every event is a call of ONE path with ONE      *)
(* argument value, presented in another memory layout each time; sig does  *)
(* not contain the layout, ow covers every layout of the value.            *)
(* The state carries owned, ops, memo of module Persist along each path    *)
(* and the verdict of the last event:                                      *)
(*   arr   every caller-owned array is unchanged        (array_mutated)    *)
(*   den / ann / lea / hid   every pre-existing operator - operand of the  *)
(*         call or not - has the same dense matrix / annotations / leaves  *)
(*         / full state (operator_changed, annotations_changed)            *)
(*   grow  at most one operator was created, none disappeared              *)
(*   argf  the argument of the call is what it was before the call         *)
(*         (frame condition on arguments, in whatever layout)              *)
(*   rep   a repeated call returned the remembered result (repeat_differs; *)
(*         in a layout sweep: the result does not depend on the layout of  *)
(*         the argument, read-only included)                               *)
(* A rejected event does not stop the walk.                                *)
(***************************************************************************)
EXTENDS Integers, Sequences, Json, TLC, IOUtils

Nodes == ndJsonDeserialize(IOEnv.TRACE_FILE)
N == Len(Nodes)

VARIABLES l, owned, ops, memo, v

AllTrue == [arr |-> TRUE, argf |-> TRUE, den |-> TRUE, ann |-> TRUE, lea |-> TRUE, hid |-> TRUE, grow |-> TRUE, rep |-> TRUE]

Judge(e, ow, op, m) ==
    LET k == Len(op) IN
    [arr  |-> e.ow = ow,
     argf |-> e.aa = e.ab,
     grow |-> Len(e.ops) >= k /\ Len(e.ops) <= k + 1,
     den  |-> \A i \in 1..k: i <= Len(e.ops) => e.ops[i].d = op[i].d,
     ann  |-> \A i \in 1..k: i <= Len(e.ops) => e.ops[i].a = op[i].a,
     lea  |-> \A i \in 1..k: i <= Len(e.ops) => e.ops[i].l = op[i].l,
     hid  |-> \A i \in 1..k: i <= Len(e.ops) => e.ops[i].h = op[i].h,
     rep  |-> \A q \in 1..Len(m): m[q][1] = e.sig => m[q][2] = e.res]

Known(m, s) == \E q \in 1..Len(m): m[q][1] = s

Init == \E i \in {j \in 1..N: Nodes[j].p = 0}:
            /\ l = i
            /\ owned = Nodes[i].ow
            /\ ops = Nodes[i].ops
            /\ memo = <<>>
            /\ v = AllTrue

Next == \E c \in Nodes[l].fc .. (Nodes[l].fc + Nodes[l].nc - 1):
            LET e == Nodes[c] IN
            /\ l' = c
            /\ v' = Judge(e, owned, ops, memo)
            /\ owned' = e.ow
            /\ ops' = e.ops
            /\ memo' = IF Known(memo, e.sig) THEN memo ELSE Append(memo, <<e.sig, e.res>>)

Spec == Init /\ [][Next]_<<l, owned, ops, memo, v>>

Accepted == v.arr /\ v.argf /\ v.den /\ v.ann /\ v.lea /\ v.hid /\ v.grow /\ v.rep
Verdict == Accepted \/ PrintT(ToJson([l |-> l, v |-> v]))
=============================================================================
