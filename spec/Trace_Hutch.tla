----------------------------- MODULE Trace_Hutch -----------------------------
(***************************************************************************)
(* Control contract of the Hutchinson loop (C17: "stops no later than      *)
(* max_iters"; one fresh key per iteration obtained by chaining next_key;   *)
(* the running sums are divided by iterations * probes).  The recorder      *)
(* wraps np_fns.next_key and np_fns.randn (the originals are still called)  *)
(* and logs, per run of hutchinson_diag_estimate,                           *)
(*   [e |-> "nk", i, o]              next_key(i) returned o                 *)
(*   [e |-> "rn", key, rows, cols]   randn(rows, cols, key=key)             *)
(*   [e |-> "done", iters, div]      iterations executed; div = the divisor *)
(*        recovered by the harness from the recorded probes and the         *)
(*        returned mean (sum of the per-probe estimators / returned mean)   *)
(* Keys are decimal strings (they exceed TLC's 32-bit integers).            *)
(* One line of the trace file is one run: [tid, n, bs, maxit, key0, ev].    *)
(***************************************************************************)
EXTENDS Integers, Sequences, FiniteSets, Json, TLC, IOUtils

Runs == ndJsonDeserialize(IOEnv.TRACE_FILE)

VARIABLES t, j, i, key, used, ph, st, why

Init == /\ t \in 1..Len(Runs)
        /\ j = 0 /\ i = 0
        /\ key = Runs[t].key0
        /\ used = {}
        /\ ph = "top"
        /\ st = "run" /\ why = ""

Reject(w) == /\ st' = "rej" /\ why' = w
             /\ UNCHANGED <<t, j, i, key, used, ph>>

NextKey(e) ==
    IF ph = "top" /\ e.i = key
    THEN /\ key' = e.o /\ ph' = "keyed" /\ j' = j + 1
         /\ UNCHANGED <<t, i, used, st, why>>
    ELSE Reject("key_chain")

Randn(e) ==
    IF ~(ph = "keyed" /\ e.key = key /\ e.key \notin used) THEN Reject("key_chain")
    ELSE IF ~(e.rows = Runs[t].n /\ e.cols = Runs[t].bs) THEN Reject("probe_shape")
    ELSE IF ~(i + 1 <= Runs[t].maxit) THEN Reject("cap")
    ELSE /\ i' = i + 1 /\ used' = used \cup {e.key} /\ ph' = "top" /\ j' = j + 1
         /\ UNCHANGED <<t, key, st, why>>

Done(e) ==
    IF ~(ph = "top" /\ e.iters = i /\ i >= 1) THEN Reject("count")
    ELSE IF ~(e.div = i * Runs[t].bs) THEN Reject("divisor")
    ELSE IF ~(j + 1 = Len(Runs[t].ev)) THEN Reject("count")
    ELSE /\ st' = "acc" /\ j' = j + 1
         /\ UNCHANGED <<t, i, key, used, ph, why>>

Next == /\ st = "run"
        /\ IF j = Len(Runs[t].ev) THEN Reject("no_done")
           ELSE LET e == Runs[t].ev[j + 1] IN
                CASE e.e = "nk" -> NextKey(e)
                  [] e.e = "rn" -> Randn(e)
                  [] e.e = "done" -> Done(e)

Spec == Init /\ [][Next]_<<t, j, i, key, used, ph, st, why>>

NeverBeyondCap == i <= Runs[t].maxit
Verdict == (st = "run") \/ PrintT(ToJson([tid |-> Runs[t].tid, st |-> st, why |-> why, at |-> j + 1, iters |-> i]))
=============================================================================
