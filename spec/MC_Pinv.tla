------------------------------ MODULE MC_Pinv ------------------------------
(***************************************************************************)
(* C16 (pinv).  Exact minimum-norm least-squares solutions x = pinv(A) b   *)
(* for a catalog of full-rank matrices of every shape class (m < n, m = n, *)
(* m > n; real and complex) and of the structured kinds that have their    *)
(* own pinv rule (Identity, ScalarMul, Diagonal, Permutation).             *)
(*                                                                         *)
(* Two states per case: "posed" -> "solved" (the exact work happens in the *)
(* successor so that TLC spreads it over its workers).  Invariants:        *)
(*   CatalogOK        A has full rank, b fits, a structured kind's matrix  *)
(*                    is the one its parameters define;                    *)
(*   MoorePenrose     the exported x satisfies A^H (A x - b) = 0 and       *)
(*                    x in range(A^H)  (exact characterisation of pinv);   *)
(*   StructuralRuleOK the modelled structural rule (reciprocal scalar /    *)
(*                    reciprocal diagonal / inverse permutation / the      *)
(*                    identity itself) applied to b equals x;              *)
(*   Emit             prints {id, A, b, x, law}.                           *)
(*   ScalingLawOK     LeastSquares!PinvScalingLaw: pinv(c A) b = pinv(A) b / c  *)
(*                    for every scale c listed with the case (optional     *)
(*                    field `scales`: Gaussian rationals for which the      *)
(*                    scaled normal equations stay within 32 bits, e.g.     *)
(*                    2, -3, 1/2, 10, 1/10, i, 1000, 1/1000 ...).  The      *)
(*                    harness applies the law with c = 1e-7 and 1e3, which  *)
(*                    are not representable: expected x_c = x / c.          *)
(*                    (field `lawpow`, default 1, exists only for the       *)
(*                    negative control: the claim x / c^lawpow with         *)
(*                    lawpow # 1 must be rejected.)                         *)
(*                                                                         *)
(* Composite (lazy) operators: kind = "Tree", field `tree` an operator     *)
(* tree of Expr.tla over exact leaves (Product of rectangular factors,     *)
(* BlockDiag / Kronecker of rectangular leaves, scalar multiples, sums).   *)
(*   CompositeOK      the tree is well formed and Case.A = Expr!Denote(tree)*)
(*                    (so MoorePenrose / Emit speak about the minimum-norm  *)
(*                    least-squares solution of the composite's OWN matrix);*)
(*   ReverseOrderFact for products (field `revlaw`): every factor has full  *)
(*                    rank and LeastSquares!ReverseOrderLawHolds(factors, b)*)
(*                    is exactly what the catalog claims - FALSE on the     *)
(*                    witnesses tall@tall, wide@wide, wide@tall, square@tall*)
(*                    wide@square: the specification never relies on        *)
(*                    (BC)^+ = C^+ B^+;                                     *)
(*   EmitComposite    prints {cid, rev} per product case.                  *)
(***************************************************************************)
EXTENDS LeastSquares, PinvCatalog, Json, TLC

VARIABLES c, phase
vars == <<c, phase>>

Case == PCases[c]
N == Case.A.c

Init == c \in 1..Len(PCases) /\ phase = "posed"
Next == phase = "posed" /\ phase' = "solved" /\ c' = c
Spec == Init /\ [][Next]_vars

\* the matrix a structured operator represents, from its parameters
KindDense ==
    CASE Case.kind = "Identity" -> Eye(N)
      [] Case.kind = "ScalarMul" -> MkMat(N, N, LAMBDA i, j: IF i = j THEN Case.sc ELSE CZ)
      [] Case.kind = "Diagonal" -> MDiagOf(Case.diag)
      [] Case.kind = "Permutation" -> MPerm(Case.perm)
      [] OTHER -> Case.A

\* the structural pinv rules as coded: pinv(I) = I, pinv(c I) = (1/c) I, pinv(diag d) = diag(1/d),
\* pinv(P_p) = P_argsort(p)
InvPerm(p) == [k \in 1..Len(p) |-> CHOOSE i \in 1..Len(p): p[i] = k]
RECURSIVE ProdAbs2(_)
ProdAbs2(s) == IF s = <<>> THEN 1 ELSE CAbs2(Head(s)) * ProdAbs2(Tail(s))
RuleMat ==
    CASE Case.kind = "Identity" -> Eye(N)
      [] Case.kind = "ScalarMul" -> MScale(QInv([n |-> Case.sc, d |-> 1]), Eye(N))
      [] Case.kind = "Diagonal" ->
            LET D == ProdAbs2(Case.diag) IN
            MkMatD(N, N, D, LAMBDA i, j: IF i = j THEN CScaleI(D \div CAbs2(Case.diag[i]), CConj(Case.diag[i]))
                                         ELSE CZ)
      [] Case.kind = "Permutation" -> MPerm(InvPerm(Case.perm))
      [] OTHER -> Zero(N, Case.A.r)

X == PinvSolve(Case.A, Case.b)

CatalogOK ==
    /\ Case.b.r = Case.A.r /\ Case.b.c = 1
    /\ FullRank(Case.A)
    /\ MEq(KindDense, Case.A)
MoorePenrose == phase = "solved" => IsMinNormLsq(Case.A, Case.b, X)
StructuralRuleOK == (phase = "solved" /\ Case.kind \notin {"Dense", "Tree"}) => MEq(MMul(RuleMat, Case.b), X)
Scales == IF "scales" \in DOMAIN Case THEN Case.scales ELSE <<>>
LawPow == IF "lawpow" \in DOMAIN Case THEN Case.lawpow ELSE 1
ScalingLawOK ==
    phase = "solved" =>
        \A i \in 1..Len(Scales):
            IF LawPow = 1 THEN PinvScalingLaw(Case.A, Case.b, Scales[i])
            ELSE MEq(PinvSolve(MScale(Scales[i], Case.A), Case.b), MScale(QPow(QInv(Scales[i]), LawPow), X))
Emit == phase = "solved" => PrintT(ToJson([id |-> Case.id, kind |-> Case.kind, A |-> Case.A, b |-> Case.b, x |-> X,
                                            law |-> Len(Scales)]))

\* composite operators (operator trees of Expr.tla)
EX == INSTANCE Expr
IsTree == Case.kind = "Tree" /\ "tree" \in DOMAIN Case
CompositeOK == IsTree => /\ EX!WellFormed(Case.tree)
                         /\ MEq(EX!Denote(Case.tree), Case.A)
IsProductTree == IsTree /\ Case.tree.k \in {"Product", "op_matmul"} /\ "revlaw" \in DOMAIN Case
Factors == [i \in 1..Len(Case.tree.a) |-> EX!Denote(Case.tree.a[i])]
RevHolds == ReverseOrderLawHolds(Factors, Case.b)
ReverseOrderFact ==
    (phase = "solved" /\ IsProductTree) =>
        /\ \A i \in 1..Len(Factors): FullRank(Factors[i])
        /\ MEq(MProdSeq(Factors), Case.A)
        /\ (RevHolds <=> Case.revlaw)
EmitComposite == (phase = "solved" /\ IsProductTree) => PrintT(ToJson([cid |-> Case.id, rev |-> RevHolds]))
=============================================================================
