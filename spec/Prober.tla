------------------------------- MODULE Prober -------------------------------
(***************************************************************************)
(* Index arithmetic of cola's exact diagonal prober                        *)
(* (cola/linalg/trace/diagonal_estimation.py: exact_diag and               *)
(* get_I_chunk_like), transcribed with NumPy's slicing and broadcasting    *)
(* rules.  No matrix payload is needed: a chunk of the identity is the     *)
(* sequence of the unit-vector indices that make up its columns, and the   *)
(* "shifted chunk" is, per column, the row in which it holds its 1 (or 0   *)
(* for a zero column).  ((A @ chunk) * shifted).sum(-1) then adds, to row  *)
(* r, the entry A[r, chunk[c]] for every column c with shifted[c] = r.     *)
(*                                                                         *)
(* Rows / columns are 0-based naturals as in the code; 0 - 1 = "none" is   *)
(* encoded as -1.                                                          *)
(***************************************************************************)
EXTENDS Integers, Sequences, FiniteSets

Min2(a, b) == IF a < b THEN a ELSE b
Max2(a, b) == IF a > b THEN a ELSE b
AbsI(k) == IF k < 0 THEN -k ELSE k

\* columns a, a+1, ..., b-1 of the n x n identity  (Id[:, a:b] with NumPy clipping)
IdCols(n, a, b) == [j \in 1..Max2(0, Min2(b, n) - Min2(a, n)) |-> Min2(a, n) + j - 1]
FirstK(s, m) == SubSeq(s, 1, Min2(m, Len(s)))                       \* s[:m]
LastK(s, m) == SubSeq(s, Len(s) - Min2(m, Len(s)) + 1, Len(s))      \* s[-m:]

\* get_I_chunk_like(A, i, bs, shift = k)  ->  [chunk, shifted]  (sequences as described above)
Chunk(n, i, bs, k) ==
    IF k = 0 THEN
        LET ic == IdCols(n, i, i + bs) IN [chunk |-> ic, shifted |-> ic]
    ELSE IF k < 0 THEN
        LET kk == -k
            ic == IdCols(n, i, i + bs + kk)
            \* padded (n x (bs + kk)): first Len(ic) columns are ic, the rest zero
            padded == [c \in 1..(bs + kk) |-> IF c <= Len(ic) THEN ic[c] ELSE -1]
            ch == FirstK(ic, bs)
        \* shifted_chunk = padded_chunk[:, k:k + bs][:, :chunk.shape[-1]]
        IN [chunk |-> ch,
            shifted |-> FirstK([c \in 1..bs |-> padded[kk + c]], Len(ch))]
    ELSE
        LET ic == IdCols(n, Max2(i - k, 0), i + bs)
            \* padded (n x (bs + k)): LAST Len(ic) columns are ic
            off == (bs + k) - Len(ic)
            padded == [c \in 1..(bs + k) |-> IF c > off THEN ic[c - off] ELSE -1]
            ch == LastK(ic, bs)
        \* shifted_chunk = padded_chunk[:, :bs][:, -chunk.shape[-1]:]
        IN [chunk |-> ch,
            shifted |-> LastK([c \in 1..bs |-> padded[c]], Len(ch))]

\* NumPy broadcasting of (n, wc) * (n, ws) along the last axis
BroadcastOK(wc, ws) == wc = ws \/ wc = 1 \/ ws = 1
\* entries read into row sums by one chunk: set of <<row, col, column position>> (position keeps duplicates apart)
ChunkReads(n, i, bs, k) ==
    LET ch == Chunk(n, i, bs, k)
        wc == Len(ch.chunk)
        ws == Len(ch.shifted)
        w == Max2(wc, ws)
    IN {<<ch.shifted[IF ws = 1 THEN 1 ELSE c], ch.chunk[IF wc = 1 THEN 1 ELSE c], i, c>> : c \in
            {c \in 1..w: wc > 0 /\ ws > 0 /\ ch.shifted[IF ws = 1 THEN 1 ELSE c] >= 0}}

ChunkStarts(n, bs) == {i \in 0..(n - 1): i % bs = 0}
\* the loop `for i in range(0, n, bs)`; "error" if some chunk cannot be broadcast (the code raises ValueError)
ShapeError(n, bs, k) ==
    \E i \in ChunkStarts(n, bs):
        LET ch == Chunk(n, i, bs, k) IN ~BroadcastOK(Len(ch.chunk), Len(ch.shifted))
Reads(n, bs, k) == UNION {ChunkReads(n, i, bs, k): i \in ChunkStarts(n, bs)}

\* output position p (0-based) of the returned vector is row Row(p); its length is OutLen
OutLen(n, k) == n - AbsI(k)
Row(p, k) == IF k <= 0 THEN p + AbsI(k) ELSE p
\* the k-th diagonal by definition: entry (p, p + k) for k >= 0, (p - k, p) for k < 0
WantCol(p, k) == IF k <= 0 THEN p ELSE p + k

\* the property: no error, and every output position sums exactly its own diagonal entry once
ProberCorrect(n, bs, k) ==
    /\ ~ShapeError(n, bs, k)
    /\ \A p \in 0..(OutLen(n, k) - 1):
          {<<r[1], r[2]>> : r \in {x \in Reads(n, bs, k): x[1] = Row(p, k)}} = {<<Row(p, k), WantCol(p, k)>>}
          /\ Cardinality({x \in Reads(n, bs, k): x[1] = Row(p, k)}) = 1
=============================================================================
