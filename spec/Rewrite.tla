------------------------------ MODULE Rewrite ------------------------------
(***************************************************************************)
(* Mechanism model of cola's rewriting layer: Impl(e) is the operator      *)
(* tree (constructor level: Dense, Product, Sum, ScalarMul, ...) that the  *)
(* code builds for an API-level expression e (op_add, op_matmul, op_smul,  *)
(* op_T, ... over catalog leaves, the op_* nodes of Expr.tla).             *)
(*                                                                         *)
(* Transcribed rule by rule from                                           *)
(*   cola/ops/operator_base.py  __matmul__ __rmatmul__ __add__ __radd__    *)
(*                              __sub__ __neg__ __mul__ __rmul__           *)
(*                              __truediv__ __rtruediv__  .T  .H           *)
(*   cola/fns.py                dot add mul transpose adjoint kron kronsum *)
(*                              block_diag lazify                          *)
(*   cola/linalg/inverse/inv.py inv   (reached through  c / A)             *)
(*   cola/annotations.py        get_annotations (the conditions of the     *)
(*                              rules read the annotations)                *)
(* One definition per dispatch rule, named  <function>_<parameter types>;  *)
(* rule SELECTION is not re-invented: the rule table RW_Sigs below is fed  *)
(* to the transcription of the plum resolver (Dispatch.tla, the module     *)
(* that C04 validates against the real resolver), so specificity, the      *)
(* order-dependent candidate loop, precedence and the +0.5 bonus of        *)
(* conditional rules are exactly the code's.  The conformance harness      *)
(* (harness/rewritefam.py) compares RW_Sigs with the live plum tables.     *)
(*                                                                         *)
(* Representation.  Impl trees are ordinary Expr trees, so Denote, ShapeOf *)
(* and DTypeOf apply unchanged.  A catalog leaf carries p.id (the object   *)
(* identity: the harness builds every leaf id once per case, so the same   *)
(* id is the same Python object).  Leaves created by a rule (Dense(A.A.T), *)
(* ScalarMul(A.c * c), fused Diagonal ...) have no id.  Result classes     *)
(* that Expr.tla does not know (TriangularInv, a Diagonal with rational    *)
(* entries, the Product of triangular solves built by inv's LU / Cholesky  *)
(* fallback) are "matrix leaves": kind "Dense" (so Denote returns p.m)     *)
(* with the real class in p.cls.                                           *)
(*                                                                         *)
(* Known defects of the code that the model reproduces (and that the      *)
(* invariants of MC_Rewrite therefore state as explicit exceptions):       *)
(*  - c * A inherits A's annotations whatever c is (KF-C05), so the        *)
(*    self-adjoint shortcuts of .T / .H fire on a false premise;           *)
(*  - A @ I returns A: the dtype of the Identity is lost (DTypeLoss).      *)
(*                                                                         *)
(* Domain restrictions (enforced by MC_Rewrite!ApiOK / RDivOK / Accept):   *)
(*  - scalars of the catalog kinds (pyint, pyfloat, npf32, np0d,           *)
(*    pycomplex, npc64); operator * operator is not an API node            *)
(*    (mul(A, ScalarMul) is an AmbiguousLookupError in the code);          *)
(*  - catalog objects are leaf operators (any class, possibly wrapped by   *)
(*    one annotation declaration) and plain arrays; two references are     *)
(*    the same Python object iff they are the same catalog id;             *)
(*  - the LU / Cholesky fallback of inv is opaque: its factors come from   *)
(*    a floating-point pivoted factorisation, the model keeps only the     *)
(*    class structure Product[TriangularInv, TriangularInv(, Permutation)] *)
(*    and the inverse matrix; c / A is not applied to an A that already    *)
(*    contains such a node, nor where an inferred annotation of a          *)
(*    sub-operator is false (Cholesky of a non-PD matrix: known finding);  *)
(*  - well-formed expressions only (shape errors are C03's business).      *)
(***************************************************************************)
EXTENDS Annot

CONSTANT Mutant      \* "none", or the name of a deliberately wrong rule variant (negative controls)

---------------------------------------------------------------------------
(* 1. Class lattice seen by isinstance / beartype                          *)
OpHints == {"Dense", "Triangular", "Sparse", "Diagonal", "Identity", "ScalarMul", "Product", "Sum", "Kronecker",
            "KronSum", "BlockDiag", "Transpose", "Adjoint", "Permutation"}
AlgHints == {"Auto", "LU", "Cholesky", "CG", "GMRES"}
Hints == {"Any", "LinearOperator", "Algorithm"} \cup OpHints \cup AlgHints
HintLE(a, b) ==
    \/ a = b
    \/ b = "Any"
    \/ b = "LinearOperator" /\ a \in OpHints
    \/ b = "Dense" /\ a = "Triangular"                 \* class Triangular(Dense)
    \/ b = "Algorithm" /\ a \in AlgHints
RW_LE == {ab \in Hints \X Hints: HintLE(ab[1], ab[2])}

---------------------------------------------------------------------------
(* 2. The rule table, in registration order (= source order of each file). *)
Rule(f, idx, name, types, prec, cond) ==
    [f |-> f, idx |-> idx, name |-> name, types |-> types, prec |-> prec, cond |-> cond,
     p2 |-> 2 * prec + (IF cond THEN 1 ELSE 0)]
LO == "LinearOperator"
RW_Sigs == <<
    \* cola/fns.py
    Rule("dot", 0, "dot_LO_LO", <<LO, LO>>, 0, FALSE),
    Rule("dot", 1, "dot_Product_LO", <<"Product", LO>>, 0, FALSE),
    Rule("dot", 2, "dot_LO_Product", <<LO, "Product">>, 0, FALSE),
    Rule("dot", 3, "dot_Product_Product", <<"Product", "Product">>, 0, FALSE),
    Rule("dot", 4, "dot_Any_Identity", <<"Any", "Identity">>, 1, FALSE),
    Rule("dot", 5, "dot_Identity_Any", <<"Identity", "Any">>, 1, FALSE),
    Rule("dot", 6, "dot_Identity_Identity", <<"Identity", "Identity">>, 1, FALSE),
    Rule("add", 0, "add_Any_Any", <<"Any", "Any">>, 0, FALSE),
    Rule("add", 1, "add_LO_LO", <<LO, LO>>, 0, FALSE),
    Rule("add", 2, "add_Sum_LO", <<"Sum", LO>>, 0, FALSE),
    Rule("add", 3, "add_LO_Sum", <<LO, "Sum">>, 0, FALSE),
    Rule("add", 4, "add_Sum_Sum", <<"Sum", "Sum">>, 0, FALSE),
    Rule("mul", 0, "mul_LO_Scalar", <<LO, "Any">>, 0, FALSE),
    Rule("mul", 1, "mul_ScalarMul_Scalar", <<"ScalarMul", "Any">>, 0, FALSE),
    Rule("mul", 2, "mul_Scalar_ScalarMul", <<"Any", "ScalarMul">>, 0, FALSE),
    Rule("mul", 3, "mul_ScalarMul_ScalarMul", <<"ScalarMul", "ScalarMul">>, 0, FALSE),
    Rule("transpose", 0, "transpose_LO", <<LO>>, 0, FALSE),
    Rule("transpose", 1, "transpose_Transpose", <<"Transpose">>, 0, FALSE),
    Rule("transpose", 2, "transpose_Dense", <<"Dense">>, 0, FALSE),
    Rule("transpose", 3, "transpose_LO_if_real_selfadjoint", <<LO>>, 0, TRUE),
    Rule("transpose", 4, "transpose_Triangular", <<"Triangular">>, 0, FALSE),
    Rule("transpose", 5, "transpose_Sparse", <<"Sparse">>, 0, FALSE),
    Rule("adjoint", 0, "adjoint_LO", <<LO>>, 0, FALSE),
    Rule("adjoint", 1, "adjoint_LO_if_selfadjoint", <<LO>>, 0, TRUE),
    Rule("adjoint", 2, "adjoint_Adjoint", <<"Adjoint">>, 0, FALSE),
    Rule("adjoint", 3, "adjoint_Dense", <<"Dense">>, 0, FALSE),
    Rule("adjoint", 4, "adjoint_Triangular", <<"Triangular">>, 0, FALSE),
    Rule("kron", 0, "kron_Any_Any", <<"Any", "Any">>, 0, FALSE),
    Rule("kron", 1, "kron_LO_LO", <<LO, LO>>, 0, FALSE),
    Rule("kron", 2, "kron_Diagonal_Diagonal", <<"Diagonal", "Diagonal">>, 0, FALSE),
    Rule("kron", 3, "kron_Kronecker_LO", <<"Kronecker", LO>>, 0, FALSE),
    Rule("kron", 4, "kron_LO_Kronecker", <<LO, "Kronecker">>, 0, FALSE),
    Rule("kron", 5, "kron_Kronecker_Kronecker", <<"Kronecker", "Kronecker">>, 0, FALSE),
    Rule("kronsum", 0, "kronsum_Any_Any", <<"Any", "Any">>, 0, FALSE),
    Rule("kronsum", 1, "kronsum_LO_LO", <<LO, LO>>, 0, FALSE),
    Rule("kronsum", 2, "kronsum_KronSum_LO", <<"KronSum", LO>>, 0, FALSE),
    Rule("kronsum", 3, "kronsum_LO_KronSum", <<LO, "KronSum">>, 0, FALSE),
    Rule("kronsum", 4, "kronsum_KronSum_KronSum", <<"KronSum", "KronSum">>, 0, FALSE),
    \* cola/linalg/inverse/inv.py   (the abstract definition supplies alg = Auto())
    Rule("inv", 0, "inv_LO_GMRES", <<LO, "GMRES">>, -1, FALSE),
    Rule("inv", 1, "inv_LO_CG", <<LO, "CG">>, -1, FALSE),
    Rule("inv", 2, "inv_LO_Auto", <<LO, "Auto">>, -1, FALSE),
    Rule("inv", 3, "inv_LO_Cholesky", <<LO, "Cholesky">>, -1, FALSE),
    Rule("inv", 4, "inv_LO_LU", <<LO, "LU">>, -1, FALSE),
    Rule("inv", 5, "inv_LO_if_unitary", <<LO, "Algorithm">>, 0, TRUE),
    Rule("inv", 6, "inv_Identity", <<"Identity", "Algorithm">>, 0, FALSE),
    Rule("inv", 7, "inv_ScalarMul", <<"ScalarMul", "Algorithm">>, 0, FALSE),
    Rule("inv", 8, "inv_Permutation", <<"Permutation", "Algorithm">>, 0, FALSE),
    Rule("inv", 9, "inv_Product_if_all_square", <<"Product", "Algorithm">>, 0, TRUE),
    Rule("inv", 10, "inv_BlockDiag", <<"BlockDiag", "Algorithm">>, 0, FALSE),
    Rule("inv", 11, "inv_Kronecker", <<"Kronecker", "Algorithm">>, 0, FALSE),
    Rule("inv", 12, "inv_Diagonal", <<"Diagonal", "Algorithm">>, 0, FALSE),
    Rule("inv", 13, "inv_Triangular", <<"Triangular", "Algorithm">>, 0, FALSE)
>>

\* the resolver of the plum fork (Resolver.resolve, Signature.match / __le__), instantiated on this table
D == INSTANCE Dispatch WITH Sigs <- RW_Sigs, LEPairs <- RW_LE, Samples <- <<>>

---------------------------------------------------------------------------
(* 3. Nodes: class, identity, payload                                      *)
IsCat(x) == "id" \in DOMAIN x.p                  \* a catalog object (built once per case by the harness)
RECURSIVE Payload(_)
Payload(x) == IF x.k = "Annot" THEN Payload(x.a[1]) ELSE x.p     \* cola.PSD(A) copies A: same class, same fields
RECURSIVE ClassOf(_)
ClassOf(x) ==
    IF x.k = "Annot" THEN ClassOf(x.a[1])
    ELSE IF "cls" \in DOMAIN x.p THEN x.p.cls
    ELSE IF x.k = "Array" THEN "ndarray"
    ELSE x.k
IsOpaque(x) == "opq" \in DOMAIN x.p
\* `is`: two references denote one Python object iff both are the same catalog object.  (Expressions are trees and no
\* rule duplicates an operand, so two composite results are never one object.)
SameObj(x, y) == IsCat(x) /\ IsCat(y) /\ x.p.id = y.p.id
IsReal(x) == ~IsComplexDT(DTypeOf(x))
Rows(x) == ShapeOf(x)[1]
Fail(why) == N("DispatchError", <<>>, [why |-> why])

MkDense(m, dt) == N("Dense", <<>>, [m |-> m, dt |-> dt])
MkTriangular(m, dt, lower) == N("Triangular", <<>>, [m |-> m, dt |-> dt, lower |-> lower])
MkSparse(m, dt) == N("Sparse", <<>>, [m |-> m, dt |-> dt])
MkScalarMul(c, n, dt) == N("ScalarMul", <<>>, [c |-> c, n |-> n, dt |-> dt])
MkPermutation(perm, dt) == N("Permutation", <<>>, [perm |-> perm, dt |-> dt])
\* a diagonal operator with entries v[i] / d
MkDiagonal(v, d, dt) ==
    IF d = 1 THEN N("Diagonal", <<>>, [v |-> v, dt |-> dt])
    ELSE N("Dense", <<>>, [m |-> MNormalize(MkMatD(Len(v), Len(v), d, LAMBDA i, j: IF i = j THEN v[i] ELSE CZ)),
                           dt |-> dt, cls |-> "Diagonal"])
DiagVec(x) ==
    LET p == Payload(x) IN
    IF "v" \in DOMAIN p THEN [v |-> p.v, d |-> 1]
    ELSE [v |-> [i \in 1..p.m.r |-> p.m.e[i][i]], d |-> p.m.d]
\* cola.fns.lazify
Lazify(x) == IF x.k = "Array" THEN MkDense(x.p.m, x.p.dt) ELSE x

---------------------------------------------------------------------------
(* 4. Annotations of a constructor-level tree: cola/annotations.py         *)
(*    get_annotations (dispatched per class) + explicit annotations given  *)
(*    to LinearOperator.__init__ (FFT) + the declaration wrappers.         *)
AreTheSame(X, Y) ==         \* are_the_same(A.Ms[0], A.Ms[1])
    IF ClassOf(Y) = "Adjoint" THEN SameObj(X, Y.a[1])
    ELSE IF ClassOf(Y) = "Transpose" THEN SameObj(X, Y.a[1]) /\ IsReal(X)
    ELSE IF ClassOf(X) = "Adjoint" THEN SameObj(X.a[1], Y)
    ELSE IF ClassOf(X) = "Transpose" THEN SameObj(X.a[1], Y) /\ IsReal(Y)
    ELSE FALSE

RECURSIVE Anns(_)
Anns(t) ==
    LET Ch(i) == Anns(t.a[i])
        RECURSIVE Meet(_)
        Meet(i) == IF i = 1 THEN Ch(1) ELSE Ch(i) \cap Meet(i - 1)          \* intersect_annotations
        NonScalar == {i \in 1..Len(t.a): ClassOf(t.a[i]) # "ScalarMul"}
    IN
    CASE t.k = "Annot" -> Anns(t.a[1]) \cup {t.p.ann}                       \* WrapMeta.__call__
      [] "cls" \in DOMAIN t.p -> {}                                          \* TriangularInv, Diagonal, opaque Product
      [] t.k \in {"Kronecker", "BlockDiag"} -> Meet(Len(t.a))
      [] t.k = "Sum" -> Meet(Len(t.a)) \ {"Unitary", "Stiefel"}
      [] t.k = "Product" ->
            \* issubclass(type(A), Product[LO, Transpose|Adjoint] | Product[Transpose|Adjoint, LO]) and are_the_same
            IF Len(t.a) = 2 /\ AreTheSame(t.a[1], t.a[2])
            THEN (Meet(2) \cap {"Unitary", "Stiefel"}) \cup {"PSD"}
            ELSE IF Cardinality(NonScalar) = 1 THEN Ch(CHOOSE i \in NonScalar: TRUE)
            ELSE Meet(Len(t.a)) \cap {"Unitary", "Stiefel"}
      [] t.k = "Hessian" -> {"SelfAdjoint"}
      [] t.k = "Identity" -> {"Unitary", "PSD"}
      [] t.k \in {"Permutation", "FFT"} -> {"Unitary"}
      [] t.k \in {"Transpose", "Adjoint"} -> Ch(1) \ {"Stiefel"}
      [] OTHER -> {}
IsaAnn(x, a) == Isa(Anns(x), a)                                              \* LinearOperator.isa

---------------------------------------------------------------------------
(* 5. Rule selection                                                       *)
CondHolds(name, x) ==
    CASE name = "transpose_LO_if_real_selfadjoint" -> IsaAnn(x, "SelfAdjoint") /\ IsReal(x)
      [] name = "adjoint_LO_if_selfadjoint" -> IsaAnn(x, "SelfAdjoint")
      [] name = "inv_LO_if_unitary" -> IsaAnn(x, "Unitary")
      [] name = "inv_Product_if_all_square" ->
            ClassOf(x) = "Product" /\ \A i \in 1..Len(x.a): ShapeOf(x.a[i])[1] = ShapeOf(x.a[i])[2]
      [] OTHER -> FALSE
InstOf(x) ==
    LET c == ClassOf(x) IN
    IF c = "ndarray" THEN {"Any"}
    ELSE IF c \in OpHints THEN {h \in Hints: HintLE(c, h)}
    ELSE {"LinearOperator", "Any"}
Arg(x) == [inst |-> InstOf(x),
           condtrue |-> {i \in 1..Len(RW_Sigs): RW_Sigs[i].cond /\ CondHolds(RW_Sigs[i].name, x)}]
ScalarArg == [inst |-> {"Any"}, condtrue |-> {}]
AlgArg(a) == [inst |-> {h \in Hints: HintLE(a, h)}, condtrue |-> {}]
\* name of the selected rule, or "ambiguous" / "notfound" (AmbiguousLookupError / NotFoundLookupError)
Pick(f, args) ==
    LET r == D!Resolve(f, args) IN IF r.tag = "ok" THEN RW_Sigs[r.rule].name ELSE r.tag

---------------------------------------------------------------------------
(* 6. dot  /  __matmul__ , __rmatmul__                                     *)
dot_LO_LO(A, B) == N("Product", <<A, B>>, NoP)
dot_Product_LO(A, B) ==
    IF Mutant = "dot_no_flatten" THEN N("Product", <<A, B>>, NoP) ELSE N("Product", A.a \o <<B>>, NoP)
dot_LO_Product(A, B) == N("Product", <<A>> \o B.a, NoP)
dot_Product_Product(A, B) == N("Product", A.a \o B.a, NoP)
dot_Any_Identity(A, B) == IF Mutant = "dot_identity_returns_identity" THEN B ELSE A
dot_Identity_Any(A, B) == B
dot_Identity_Identity(A, B) == B
Dot(A, B) ==
    LET r == Pick("dot", <<Arg(A), Arg(B)>>) IN
    CASE r = "dot_LO_LO" -> dot_LO_LO(A, B)
      [] r = "dot_Product_LO" -> dot_Product_LO(A, B)
      [] r = "dot_LO_Product" -> dot_LO_Product(A, B)
      [] r = "dot_Product_Product" -> dot_Product_Product(A, B)
      [] r = "dot_Any_Identity" -> dot_Any_Identity(A, B)
      [] r = "dot_Identity_Any" -> dot_Identity_Any(A, B)
      [] r = "dot_Identity_Identity" -> dot_Identity_Identity(A, B)
      [] OTHER -> Fail(r)
\* a product with a plain array is evaluated (A._matmat(X) / A._rmatmat(X)): the result is an array, not an operator
ArrayResult(A, B) == N("Array", <<>>, [m |-> MMul(Denote(A), Denote(B)), dt |-> Promote(DTypeOf(A), DTypeOf(B))])
MatMul(A, B) == IF A.k = "Array" \/ B.k = "Array" THEN ArrayResult(A, B) ELSE Dot(A, B)

---------------------------------------------------------------------------
(* 7. add  /  __add__ , __radd__ , __sub__                                 *)
RECURSIVE Add(_, _)
add_Any_Any(A, B) == Add(Lazify(A), Lazify(B))
add_LO_LO(A, B) == N("Sum", <<A, B>>, NoP)
add_Sum_LO(A, B) == IF Mutant = "add_no_flatten" THEN N("Sum", <<A, B>>, NoP) ELSE N("Sum", A.a \o <<B>>, NoP)
add_LO_Sum(A, B) == N("Sum", <<A>> \o B.a, NoP)
add_Sum_Sum(A, B) == N("Sum", A.a \o B.a, NoP)
Add(A, B) ==
    LET r == Pick("add", <<Arg(A), Arg(B)>>) IN
    CASE r = "add_Any_Any" -> add_Any_Any(A, B)
      [] r = "add_LO_LO" -> add_LO_LO(A, B)
      [] r = "add_Sum_LO" -> add_Sum_LO(A, B)
      [] r = "add_LO_Sum" -> add_LO_Sum(A, B)
      [] r = "add_Sum_Sum" -> add_Sum_Sum(A, B)
      [] OTHER -> Fail(r)
\* A + B: LinearOperator.__add__;  array + A: ndarray defers (__array_ufunc__ = None), A.__radd__(array) = A.__add__(array)
OpAdd(A, B) == IF A.k = "Array" THEN Add(B, A) ELSE Add(A, B)

---------------------------------------------------------------------------
(* 8. mul  /  __mul__ , __rmul__ , __neg__ , __truediv__                   *)
\* a scalar is a record [c |-> exact value, ck |-> kind of Python object]
ComplexScalar(s) == s.ck \in {"pycomplex", "npc64", "npc128"}
ScaledDType(A, s) ==                                       \* _scaled_dtype
    IF ComplexScalar(s) /\ IsReal(A) THEN Promote(DTypeOf(A), "c64") ELSE DTypeOf(A)
mul_LO_Scalar(A, s) == N("Product", <<MkScalarMul(s.c, Rows(A), ScaledDType(A, s)), A>>, NoP)
mul_ScalarMul_Scalar(A, s) ==
    MkScalarMul(IF Mutant = "mul_scalarmul_drops_factor" THEN s.c ELSE QMul(Payload(A).c, s.c),
                Payload(A).n, ScaledDType(A, s))
Mul(A, s) ==
    LET r == Pick("mul", <<Arg(A), ScalarArg>>) IN
    CASE r = "mul_LO_Scalar" -> mul_LO_Scalar(A, s)
      [] r = "mul_ScalarMul_Scalar" -> mul_ScalarMul_Scalar(A, s)
      \* mul_Scalar_ScalarMul / mul_ScalarMul_ScalarMul need an operator as second argument: A * B is not an API node
      [] OTHER -> Fail(r)
MinusOne == [c |-> QInt(-1), ck |-> "pyint"]
Neg(A) == Mul(A, MinusOne)                                                  \* __neg__:  -1 * A  ->  __rmul__  ->  A * -1
\* 1 / x of a Python / NumPy scalar: int becomes float, complex stays complex
Reciprocal(s) == [c |-> QInv(s.c), ck |-> IF s.ck = "pyint" THEN "pyfloat" ELSE s.ck]
Div(A, s) == Mul(A, Reciprocal(s))                                          \* __truediv__
\* A - B = A.__add__(-B);  -B of an array is NumPy's negation
Sub(A, B) == Add(A, IF B.k = "Array" THEN N("Array", <<>>, [m |-> MNeg(B.p.m), dt |-> B.p.dt]) ELSE Neg(B))

---------------------------------------------------------------------------
(* 9. transpose / adjoint  (.T / .H)                                       *)
transpose_LO(A) == N("Transpose", <<A>>, NoP)
transpose_Transpose(A) == A.a[1]
transpose_Dense(A) ==
    MkDense(IF Mutant = "transpose_dense_conj" THEN MAdj(Payload(A).m) ELSE MTr(Payload(A).m), Payload(A).dt)
transpose_LO_if_real_selfadjoint(A) == A
transpose_Triangular(A) == MkTriangular(MTr(Payload(A).m), Payload(A).dt, ~Payload(A).lower)
transpose_Sparse(A) == MkSparse(MTr(Payload(A).m), Payload(A).dt)      \* Sparse(data, cols, rows, swapped shape)
TransposeOf(A) ==
    LET r == Pick("transpose", <<Arg(A)>>) IN
    CASE r = "transpose_LO" -> transpose_LO(A)
      [] r = "transpose_Transpose" -> transpose_Transpose(A)
      [] r = "transpose_Dense" -> transpose_Dense(A)
      [] r = "transpose_LO_if_real_selfadjoint" -> transpose_LO_if_real_selfadjoint(A)
      [] r = "transpose_Triangular" -> transpose_Triangular(A)
      [] r = "transpose_Sparse" -> transpose_Sparse(A)
      [] OTHER -> Fail(r)

adjoint_LO(A) == N("Adjoint", <<A>>, NoP)
adjoint_LO_if_selfadjoint(A) == A
adjoint_Adjoint(A) == A.a[1]
adjoint_Dense(A) == MkDense(MAdj(Payload(A).m), Payload(A).dt)
adjoint_Triangular(A) == MkTriangular(MAdj(Payload(A).m), Payload(A).dt, ~Payload(A).lower)
AdjointOf(A) ==
    LET r == Pick("adjoint", <<Arg(A)>>) IN
    CASE r = "adjoint_LO" -> adjoint_LO(A)
      [] r = "adjoint_LO_if_selfadjoint" -> adjoint_LO_if_selfadjoint(A)
      [] r = "adjoint_Adjoint" -> adjoint_Adjoint(A)
      [] r = "adjoint_Dense" -> adjoint_Dense(A)
      [] r = "adjoint_Triangular" -> adjoint_Triangular(A)
      [] OTHER -> Fail(r)

---------------------------------------------------------------------------
(* 10. kron / kronsum / block_diag                                         *)
RECURSIVE Kron(_, _)
kron_Any_Any(A, B) == Kron(Lazify(A), Lazify(B))
kron_LO_LO(A, B) == N("Kronecker", <<A, B>>, NoP)
\* diag = (A.diag[:, None] * B.diag[None, :]).reshape(-1)
kron_Diagonal_Diagonal(A, B) ==
    LET a == IF Mutant = "kron_diag_swapped" THEN DiagVec(B) ELSE DiagVec(A)
        b == IF Mutant = "kron_diag_swapped" THEN DiagVec(A) ELSE DiagVec(B)
        nb == Len(b.v)
    IN MkDiagonal([k \in 1..(Len(a.v) * nb) |-> CMul(a.v[((k - 1) \div nb) + 1], b.v[((k - 1) % nb) + 1])],
                  a.d * b.d, Promote(DTypeOf(A), DTypeOf(B)))
kron_Kronecker_LO(A, B) == N("Kronecker", A.a \o <<B>>, NoP)
kron_LO_Kronecker(A, B) == N("Kronecker", <<A>> \o B.a, NoP)
kron_Kronecker_Kronecker(A, B) == N("Kronecker", A.a \o B.a, NoP)
Kron(A, B) ==
    LET r == Pick("kron", <<Arg(A), Arg(B)>>) IN
    CASE r = "kron_Any_Any" -> kron_Any_Any(A, B)
      [] r = "kron_LO_LO" -> kron_LO_LO(A, B)
      [] r = "kron_Diagonal_Diagonal" -> kron_Diagonal_Diagonal(A, B)
      [] r = "kron_Kronecker_LO" -> kron_Kronecker_LO(A, B)
      [] r = "kron_LO_Kronecker" -> kron_LO_Kronecker(A, B)
      [] r = "kron_Kronecker_Kronecker" -> kron_Kronecker_Kronecker(A, B)
      [] OTHER -> Fail(r)

RECURSIVE KronSumF(_, _)
kronsum_Any_Any(A, B) == KronSumF(Lazify(A), Lazify(B))
kronsum_LO_LO(A, B) == N("KronSum", <<A, B>>, NoP)
kronsum_KronSum_LO(A, B) == N("KronSum", A.a \o <<B>>, NoP)
kronsum_LO_KronSum(A, B) == N("KronSum", <<A>> \o B.a, NoP)
kronsum_KronSum_KronSum(A, B) == N("KronSum", A.a \o B.a, NoP)
KronSumF(A, B) ==
    LET r == Pick("kronsum", <<Arg(A), Arg(B)>>) IN
    CASE r = "kronsum_Any_Any" -> kronsum_Any_Any(A, B)
      [] r = "kronsum_LO_LO" -> kronsum_LO_LO(A, B)
      [] r = "kronsum_KronSum_LO" -> kronsum_KronSum_LO(A, B)
      [] r = "kronsum_LO_KronSum" -> kronsum_LO_KronSum(A, B)
      [] r = "kronsum_KronSum_KronSum" -> kronsum_KronSum_KronSum(A, B)
      [] OTHER -> Fail(r)

\* block_diag(*ops) = BlockDiag(*ops): no dispatch, the constructor lazifies, multiplicities default to 1
BlockDiagF(xs) == N("BlockDiag", [i \in 1..Len(xs) |-> Lazify(xs[i])], [mult |-> [i \in 1..Len(xs) |-> 1]])

---------------------------------------------------------------------------
(* 11. inv  (c / A  =  inv(A).__mul__(c),  inv(A) = inv(A, Auto()))        *)
Reverse(s) == [i \in 1..Len(s) |-> s[Len(s) + 1 - i]]
RECURSIVE Abs2Except(_, _, _)
Abs2Except(v, i, k) == IF k = 0 THEN 1 ELSE (IF k = i THEN 1 ELSE CAbs2(v[k])) * Abs2Except(v, i, k - 1)
\* the LU / Cholesky fallback: factors of a floating-point factorisation of A.to_dense(); opaque (see header)
OpaqueInverse(A, how) ==
    N("Dense", <<>>, [m |-> MInverse(Denote(A)), dt |-> DTypeOf(A), cls |-> "Product", opq |-> how])

RECURSIVE Inv(_, _)
inv_LO_Auto(A) ==          \* np.prod(A.shape) <= 1e6 in every model
    IF IsaAnn(A, "PSD") THEN Inv(A, "Cholesky") ELSE Inv(A, "LU")
inv_LO_Cholesky(A) == OpaqueInverse(A, "Cholesky")      \* inv(L.H) @ inv(L): Product[TriangularInv, TriangularInv]
inv_LO_LU(A) == OpaqueInverse(A, "LU")       \* inv(U) @ inv(L) @ inv(P): Product[TriangularInv, TriangularInv, Permutation]
inv_LO_if_unitary(A) == N("Annot", <<AdjointOf(A)>>, [ann |-> "Unitary"])
inv_Identity(A) == A
inv_ScalarMul(A) == MkScalarMul(QInv(Payload(A).c), Payload(A).n, Payload(A).dt)
\* Permutation(argsort(perm))
inv_Permutation(A) ==
    LET p == Payload(A).perm IN MkPermutation([j \in 1..Len(p) |-> CHOOSE i \in 1..Len(p): p[i] = j], Payload(A).dt)
inv_Product_if_all_square(A, alg) == N("Product", Reverse([i \in 1..Len(A.a) |-> Inv(A.a[i], alg)]), NoP)
inv_BlockDiag(A, alg) == N("BlockDiag", [i \in 1..Len(A.a) |-> Inv(A.a[i], alg)], [mult |-> A.p.mult])
inv_Kronecker(A, alg) == N("Kronecker", [i \in 1..Len(A.a) |-> Inv(A.a[i], alg)], NoP)
\* Diagonal(1. / A.diag): entry  d conj(v_i) / |v_i|^2  over the common denominator  prod_j |v_j|^2
inv_Diagonal(A) ==
    LET a == DiagVec(A)
        n == Len(a.v)
    IN MkDiagonal([i \in 1..n |-> CScaleI(a.d * Abs2Except(a.v, i, n), CConj(a.v[i]))], Abs2Except(a.v, 0, n),
                  DTypeOf(A))
\* TriangularInv(A): a triangular solve with A's matrix
inv_Triangular(A) ==
    N("Dense", <<>>, [m |-> MInverse(Payload(A).m), dt |-> Payload(A).dt, cls |-> "TriangularInv",
                      src |-> Payload(A).m, lower |-> Payload(A).lower])
Inv(A, alg) ==
    LET r == Pick("inv", <<Arg(A), AlgArg(alg)>>) IN
    CASE r = "inv_LO_Auto" -> inv_LO_Auto(A)
      [] r = "inv_LO_Cholesky" -> inv_LO_Cholesky(A)
      [] r = "inv_LO_LU" -> inv_LO_LU(A)
      [] r = "inv_LO_if_unitary" -> inv_LO_if_unitary(A)
      [] r = "inv_Identity" -> inv_Identity(A)
      [] r = "inv_ScalarMul" -> inv_ScalarMul(A)
      [] r = "inv_Permutation" -> inv_Permutation(A)
      [] r = "inv_Product_if_all_square" -> inv_Product_if_all_square(A, alg)
      [] r = "inv_BlockDiag" -> inv_BlockDiag(A, alg)
      [] r = "inv_Kronecker" -> inv_Kronecker(A, alg)
      [] r = "inv_Diagonal" -> inv_Diagonal(A)
      [] r = "inv_Triangular" -> inv_Triangular(A)
      \* inv_LO_GMRES / inv_LO_CG build IterativeOperatorWInfo: never selected from Auto on these sizes
      [] OTHER -> Fail(r)
RDiv(A, s) == Mul(Inv(A, "Auto"), s)                                        \* __rtruediv__

---------------------------------------------------------------------------
(* 12. Impl: the tree cola builds for an API-level expression              *)
IsApi(k) == k \in {"op_matmul", "op_add", "op_sub", "op_sum", "op_neg", "op_smul", "op_rsmul", "op_div", "op_rdiv",
                   "op_kron", "op_kronsum", "op_block_diag", "op_T", "op_H"}
\* left-to-right folds of the binary Python operators over an operand list
MatMulSeq(xs) ==
    LET RECURSIVE F(_, _)
        F(acc, i) == IF i > Len(xs) THEN acc ELSE F(MatMul(acc, xs[i]), i + 1)
    IN F(xs[1], 2)
OpAddSeq(xs) ==
    LET RECURSIVE F(_, _)
        F(acc, i) == IF i > Len(xs) THEN acc ELSE F(OpAdd(acc, xs[i]), i + 1)
    IN F(xs[1], 2)

RECURSIVE Impl(_)
Impl(e) ==
    LET X(i) == Impl(e.a[i])
        Xs == [i \in 1..Len(e.a) |-> Impl(e.a[i])]
    IN
    CASE ~IsApi(e.k) -> e                                                   \* a catalog object
      [] e.k = "op_matmul" -> MatMulSeq(Xs)                 \* A @ B (@ C ...), left to right
      [] e.k = "op_add" -> OpAdd(X(1), X(2))
      [] e.k = "op_sub" -> Sub(X(1), X(2))
      [] e.k = "op_sum" -> OpAddSeq(Xs)                     \* sum([..]): 0 + A is A (Number 0)
      [] e.k = "op_neg" -> Neg(X(1))
      [] e.k \in {"op_smul", "op_rsmul"} -> Mul(X(1), e.p)                  \* c * A = A.__rmul__(c) = A * c
      [] e.k = "op_div" -> Div(X(1), e.p)
      [] e.k = "op_rdiv" -> RDiv(X(1), e.p)
      [] e.k = "op_kron" -> Kron(X(1), X(2))
      [] e.k = "op_kronsum" -> KronSumF(X(1), X(2))
      [] e.k = "op_block_diag" -> BlockDiagF(Xs)
      [] e.k = "op_T" -> TransposeOf(X(1))
      [] e.k = "op_H" -> AdjointOf(X(1))

\* KNOWN FINDING (KF-C03-identity-permutation-dtype): the Identity rules of dot return the other operand itself, so
\* the dtype of the eliminated Identity takes no part in the promotion (f32 A @ f64 I is the f32 A).  DTypeLoss(e)
\* marks the expressions in which that happened somewhere; everywhere else the dtype is preserved exactly.
DotLosesDType(A, B) ==
    /\ A.k # "Array" /\ B.k # "Array"
    /\ Pick("dot", <<Arg(A), Arg(B)>>) \in {"dot_Any_Identity", "dot_Identity_Any", "dot_Identity_Identity"}
    /\ DTypeOf(Dot(A, B)) # Promote(DTypeOf(A), DTypeOf(B))
RECURSIVE DTypeLoss(_)
DTypeLoss(e) ==
    \/ \E i \in 1..Len(e.a): DTypeLoss(e.a[i])
    \/ /\ e.k = "op_matmul"
       /\ LET Xs == [i \in 1..Len(e.a) |-> Impl(e.a[i])] IN
          \E i \in 2..Len(Xs): DotLosesDType(MatMulSeq(SubSeq(Xs, 1, i - 1)), Xs[i])
DTypeLE(a, b) == Promote(a, b) = b

---------------------------------------------------------------------------
(* 13. Facts about Impl trees                                              *)
\* every dispatch resolved to exactly one rule and the result is a constructor-level tree (or an array)
RECURSIVE Resolved(_)
Resolved(t) == t.k \in CtorKinds \cup {"Array"} /\ \A i \in 1..Len(t.a): Resolved(t.a[i])
RECURSIVE HasOpaque(_)
HasOpaque(t) == IsOpaque(t) \/ \E i \in 1..Len(t.a): HasOpaque(t.a[i])
\* every annotation the code infers anywhere in t is true of the exact matrix
RECURSIVE AnnsTrue(_)
AnnsTrue(t) == /\ t.k = "Array" \/ \A a \in Anns(t): Holds(a, Denote(t))
               /\ \A i \in 1..Len(t.a): AnnsTrue(t.a[i])

\* the normal-form facts the rules establish on every tree they build from catalog objects
NormalNode(x) ==
    LET c == ClassOf(x)
        kid(i) == ClassOf(x.a[i])
    IN
    \* flattening: add / kron / kronsum never nest their own result class
    /\ (c \in {"Sum", "Kronecker", "KronSum"} /\ ~IsOpaque(x)) => \A i \in 1..Len(x.a): kid(i) # c
    /\ (c \in {"Product", "Sum", "Kronecker", "KronSum"} /\ ~IsOpaque(x)) => Len(x.a) >= 2
    \* transposition: involution is cancelled, dense-backed kinds are materialised, the (real) self-adjoint
    \* shortcut leaves no wrapper around a (real) self-adjoint operand
    /\ c = "Transpose" => /\ kid(1) \notin {"Transpose", "Dense", "Triangular", "Sparse"}
                          /\ ~(IsaAnn(x.a[1], "SelfAdjoint") /\ IsReal(x.a[1]))
    /\ c = "Adjoint" => /\ kid(1) \notin {"Adjoint", "Dense", "Triangular"}
                        /\ ~IsaAnn(x.a[1], "SelfAdjoint")
    \* every BlockDiag / Kronecker / Sum / Product child is an operator (arrays are lazified)
    /\ \A i \in 1..Len(x.a): x.a[i].k # "Array"
RECURSIVE Normal(_)
Normal(t) == NormalNode(t) /\ \A i \in 1..Len(t.a): Normal(t.a[i])
\* identity elimination + scalars in front: no Product built by dot / mul starts with an Identity
\* (inv reverses factor lists, so this is stated for expressions without c / A)
RECURSIVE NoLeadingIdentity(_)
NoLeadingIdentity(t) ==
    /\ (ClassOf(t) = "Product" /\ ~IsOpaque(t)) => ClassOf(t.a[1]) # "Identity"
    /\ \A i \in 1..Len(t.a): NoLeadingIdentity(t.a[i])

---------------------------------------------------------------------------
(* 14. Skeleton for conformance: classes, object ids, payloads of created  *)
(*     leaves, dtypes, annotations                                         *)
RECURSIVE Skel(_)
Skel(t) ==
    LET c == ClassOf(t) IN
    IF t.k = "Array" THEN [k |-> "ndarray"]
    ELSE IF IsCat(t) THEN [k |-> c, id |-> t.p.id, dt |-> DTypeOf(t), anns |-> Anns(t)]
    ELSE IF IsOpaque(t)
    THEN [k |-> "Product", opaque |-> TRUE,
          a |-> IF t.p.opq = "LU"
                THEN <<[k |-> "TriangularInv", opaque |-> TRUE], [k |-> "TriangularInv", opaque |-> TRUE],
                       [k |-> "Permutation", opaque |-> TRUE]>>
                ELSE <<[k |-> "TriangularInv", opaque |-> TRUE], [k |-> "TriangularInv", opaque |-> TRUE]>>]
    ELSE IF t.k = "Annot" THEN [k |-> c, wrapped |-> Skel(t.a[1]), dt |-> DTypeOf(t), anns |-> Anns(t)]
    ELSE IF Len(t.a) = 0
    THEN CASE c \in {"Dense", "Sparse"} -> [k |-> c, m |-> t.p.m, dt |-> t.p.dt, anns |-> Anns(t)]
           [] c = "Triangular" -> [k |-> c, m |-> t.p.m, lower |-> t.p.lower, dt |-> t.p.dt, anns |-> Anns(t)]
           [] c = "TriangularInv" -> [k |-> c, m |-> t.p.src, lower |-> t.p.lower, dt |-> t.p.dt, anns |-> Anns(t)]
           [] c = "Diagonal" -> [k |-> c, v |-> DiagVec(t).v, d |-> DiagVec(t).d, dt |-> t.p.dt, anns |-> Anns(t)]
           [] c = "ScalarMul" -> [k |-> c, c |-> t.p.c, n |-> t.p.n, dt |-> t.p.dt, anns |-> Anns(t)]
           [] c = "Permutation" -> [k |-> c, perm |-> t.p.perm, dt |-> t.p.dt, anns |-> Anns(t)]
           [] OTHER -> [k |-> c, dt |-> t.p.dt, anns |-> Anns(t)]
    ELSE IF c = "BlockDiag"
    THEN [k |-> c, a |-> [i \in 1..Len(t.a) |-> Skel(t.a[i])], mult |-> t.p.mult, dt |-> DTypeOf(t), anns |-> Anns(t)]
    ELSE [k |-> c, a |-> [i \in 1..Len(t.a) |-> Skel(t.a[i])], dt |-> DTypeOf(t), anns |-> Anns(t)]

\* the expression with catalog objects replaced by their ids (the harness holds the catalog)
RECURSIVE Strip(_)
Strip(e) ==
    IF IsApi(e.k) THEN [k |-> e.k, a |-> [i \in 1..Len(e.a) |-> Strip(e.a[i])], p |-> e.p]
    ELSE [k |-> "leaf", a |-> <<>>, p |-> [id |-> e.p.id]]
=============================================================================
