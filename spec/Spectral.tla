------------------------------ MODULE Spectral ------------------------------
(***************************************************************************)
(* Exact spectral decompositions  A = sum_i lam_i P_i  of operator trees   *)
(* (lam_i pairwise distinct Gaussian rationals, P_i the exact rational     *)
(* spectral projectors: P_i P_j = delta_ij P_i, sum_i P_i = I).            *)
(*                                                                         *)
(* Leaves carry a catalogued eigendecomposition  A = V diag(lam) V^-1      *)
(* (payload sp = [V, lam]); composites are derived structurally:           *)
(*   Kronecker (lam mu, P (x) Q), KronSum (lam + mu, P (x) Q), BlockDiag   *)
(*   (union, zero padded), Transpose (lam, P^T), Adjoint (conj lam, P^H),  *)
(*   scalar multiples (c lam, P), annotation wrappers.                     *)
(* SpectralValid checks the decomposition against Denote in every state,   *)
(* so the oracle handed to the conformance harness (f(A) = sum f(lam) P)   *)
(* is itself verified by TLC and never trusted from Python.                *)
(***************************************************************************)
EXTENDS Annot

\* a spectral decomposition is a sequence of [lam |-> rational scalar, P |-> matrix]
SP(lam, P) == [lam |-> lam, P |-> P]

\* merge terms with equal eigenvalue (sum of projectors)
RECURSIVE MergeInto(_, _)
MergeInto(acc, term) ==
    IF acc = <<>> THEN <<term>>
    ELSE IF QEq(Head(acc).lam, term.lam) THEN <<SP(Head(acc).lam, MAdd(Head(acc).P, term.P))>> \o Tail(acc)
    ELSE <<Head(acc)>> \o MergeInto(Tail(acc), term)
RECURSIVE Merge(_)
Merge(s) == IF s = <<>> THEN <<>> ELSE MergeInto(Merge(Tail(s)), Head(s))

\* selector matrix E_i: 1 at (i, i)
Sel(n, i) == MkMat(n, n, LAMBDA a, b: IF a = i /\ b = i THEN C1 ELSE CZ)

\* from an eigendecomposition V diag(lam) V^-1
FromEig(V, lam) ==
    LET Vi == MInverse(V) IN
    Merge([i \in 1..Len(lam) |-> SP(lam[i], MNormalize(MMul(MMul(V, Sel(V.r, i)), Vi)))])

\* zero-pad a projector of block b (sizes before / after) into the block-diagonal space
PadBlock(P, before, after) ==
    MkMatD(before + P.r + after, before + P.c + after, P.d,
           LAMBDA i, j: IF i > before /\ i <= before + P.r /\ j > before /\ j <= before + P.c
                        THEN P.e[i - before][j - before] ELSE CZ)

QFromC(x) == [n |-> x, d |-> 1]

RECURSIVE SpecOf(_)
SpecOf(t) ==
    CASE "sp" \in DOMAIN t.p -> FromEig(t.p.sp.V, t.p.sp.lam)
      [] t.k = "Diagonal" -> Merge([i \in 1..Len(t.p.v) |-> SP(QFromC(t.p.v[i]), Sel(Len(t.p.v), i))])
      [] t.k = "Identity" -> <<SP(QInt(1), Eye(t.p.n))>>
      [] t.k = "ScalarMul" -> <<SP(t.p.c, Eye(t.p.n))>>
      [] t.k \in {"Annot", "NoDispatch"} -> SpecOf(t.a[1])
      [] t.k = "Transpose" -> LET s == SpecOf(t.a[1]) IN [i \in 1..Len(s) |-> SP(s[i].lam, MTr(s[i].P))]
      [] t.k = "Adjoint" -> LET s == SpecOf(t.a[1]) IN [i \in 1..Len(s) |-> SP(QConj(s[i].lam), MAdj(s[i].P))]
      [] t.k = "Kronecker" ->
            LET a == SpecOf(t.a[1])
                b == SpecOf(t.a[2])
            IN Merge([k \in 1..(Len(a) * Len(b)) |->
                        LET i == ((k - 1) \div Len(b)) + 1
                            j == ((k - 1) % Len(b)) + 1
                        IN SP(QMul(a[i].lam, b[j].lam), MKron(a[i].P, b[j].P))])
      [] t.k = "KronSum" ->
            LET a == SpecOf(t.a[1])
                b == SpecOf(t.a[2])
            IN Merge([k \in 1..(Len(a) * Len(b)) |->
                        LET i == ((k - 1) \div Len(b)) + 1
                            j == ((k - 1) % Len(b)) + 1
                        IN SP(QAdd(a[i].lam, b[j].lam), MKron(a[i].P, b[j].P))])
      [] t.k = "BlockDiag" ->       \* two blocks, multiplicities <<1, 1>>
            LET a == SpecOf(t.a[1])
                b == SpecOf(t.a[2])
                na == ShapeOf(t.a[1])[1]
                nb == ShapeOf(t.a[2])[1]
            IN Merge([i \in 1..Len(a) |-> SP(a[i].lam, PadBlock(a[i].P, 0, nb))]
                     \o [j \in 1..Len(b) |-> SP(b[j].lam, PadBlock(b[j].P, na, 0))])
      [] t.k = "Product" ->         \* scalar multiple: Product(ScalarMul c, X)
            LET s == SpecOf(t.a[2]) IN [i \in 1..Len(s) |-> SP(QMul(t.a[1].p.c, s[i].lam), s[i].P)]
      [] t.k = "Sum" ->             \* spectral shift: Sum(X, ScalarMul c) or Sum(ScalarMul c, X): lam + c, same projectors
            LET xi == IF t.a[1].k = "ScalarMul" THEN 2 ELSE 1
                s == SpecOf(t.a[xi])
                c == t.a[3 - xi].p.c
            IN Merge([i \in 1..Len(s) |-> SP(QAdd(s[i].lam, c), s[i].P)])

\* trees for which SpecOf is defined
RECURSIVE HasSpec(_)
HasSpec(t) ==
    \/ "sp" \in DOMAIN t.p
    \/ t.k \in {"Diagonal", "Identity", "ScalarMul"}
    \/ t.k \in {"Annot", "NoDispatch", "Transpose", "Adjoint"} /\ HasSpec(t.a[1])
    \/ t.k \in {"Kronecker", "KronSum"} /\ Len(t.a) = 2 /\ HasSpec(t.a[1]) /\ HasSpec(t.a[2])
    \/ t.k = "BlockDiag" /\ Len(t.a) = 2 /\ t.p.mult = <<1, 1>> /\ HasSpec(t.a[1]) /\ HasSpec(t.a[2])
    \/ t.k = "Product" /\ Len(t.a) = 2 /\ t.a[1].k = "ScalarMul" /\ HasSpec(t.a[2])
    \/ t.k = "Sum" /\ Len(t.a) = 2 /\ ((t.a[1].k = "ScalarMul" /\ HasSpec(t.a[2])) \/ (t.a[2].k = "ScalarMul" /\ HasSpec(t.a[1])))

RECURSIVE SumLamP(_)
SumLamP(s) == IF Len(s) = 1 THEN MScale(s[1].lam, s[1].P) ELSE MAdd(MScale(s[1].lam, s[1].P), SumLamP(Tail(s)))
RECURSIVE SumP(_)
SumP(s) == IF Len(s) = 1 THEN s[1].P ELSE MAdd(s[1].P, SumP(Tail(s)))

SpectralValid(t) ==
    LET s == SpecOf(t)
        D == Denote(t)
    IN /\ Len(s) >= 1
       /\ \A i \in 1..Len(s): \A j \in 1..Len(s): i # j => ~QEq(s[i].lam, s[j].lam)
       /\ MEq(SumP(s), Eye(D.r))
       /\ \A i \in 1..Len(s): \A j \in 1..Len(s):
             IF i = j THEN MEq(MMul(s[i].P, s[i].P), s[i].P) ELSE MIsZero(MMul(s[i].P, s[j].P))
       /\ MEq(SumLamP(s), D)

\* multiplicity of an eigenvalue = trace of its projector (an integer)
Mult(term) == LET tr == MTrace(term.P) IN tr.n[1] \div tr.d
=============================================================================
