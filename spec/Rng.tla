------------------------------- MODULE Rng -------------------------------
(***************************************************************************)
(* Property C17, state-machine part: randomised routines are functions of  *)
(* (operator, key) and never touch the process-wide NumPy generator.       *)
(*                                                                         *)
(* g    abstract identity of the global NumPy stream: <<origin, n>> where  *)
(*      origin is "boot" or the last seed the USER installed and n the     *)
(*      number of user draws since.  Two different values of g stand for   *)
(*      two different values of np.random.get_state().                     *)
(* out  out[<<routine, key>>] = the first output observed for that routine *)
(*      and key (for the one operator of the run), or "none".              *)
(*                                                                         *)
(* The user may draw from, or reseed, the global generator at any point    *)
(* between cola calls.  The specification of a cola call is the property:  *)
(*      g' = g  /\  (out = "none" \/ result = out).                        *)
(***************************************************************************)
EXTENDS Integers, Sequences

CONSTANTS Routines,   \* names of the randomised routines
          Keys,       \* keys a caller may pass
          Seeds,      \* seeds the user may install with np.random.seed
          Digests     \* abstract output values

VARIABLES g, out

Slots == Routines \X Keys
GBoot == <<"boot", 0>>

Init == /\ g = GBoot
        /\ out = [s \in Slots |-> "none"]

UserDraw == /\ g' = <<g[1], g[2] + 1>>
            /\ UNCHANGED out

UserSeed(s) == /\ g' = <<s, 0>>
               /\ UNCHANGED out

(* The property, as the specification of one call returning `res`. *)
CallOkGlobal(gOld, gNew) == gNew = gOld
CallOkDeterministic(o, r, k, res) == o[<<r, k>>] = "none" \/ res = o[<<r, k>>]
Remember(o, r, k, res) == IF o[<<r, k>>] = "none" THEN [o EXCEPT ![<<r, k>>] = res] ELSE o

Call(r, k, res) == /\ CallOkGlobal(g, g')
                   /\ CallOkDeterministic(out, r, k, res)
                   /\ g' = g
                   /\ out' = Remember(out, r, k, res)

Next == \/ UserDraw
        \/ \E s \in Seeds: UserSeed(s)
        \/ \E r \in Routines, k \in Keys, res \in Digests: Call(r, k, res)

vars == <<g, out>>
Spec == Init /\ [][Next]_vars

(* Consequences used as sanity checks of the specification itself. *)
OnlyUserMovesG == [][g' # g => (UserDraw \/ \E s \in Seeds: UserSeed(s))]_vars
OutputsStable == [][\A s \in Slots: out[s] # "none" => out'[s] = out[s]]_vars
=============================================================================
