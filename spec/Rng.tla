------------------------------- MODULE Rng -------------------------------
(***************************************************************************)
(* Property C17, state-machine part: randomised routines are functions of  *)
(* (routine, operator, key) and never touch the process-wide NumPy         *)
(* generator.                                                              *)
(*                                                                         *)
(* g    abstract identity of the global NumPy stream: <<origin, n>> where  *)
(*      origin is "boot" or the last seed the USER installed and n the     *)
(*      number of user draws since.  Two different values of g stand for   *)
(*      two different values of np.random.get_state().                     *)
(* out  out[<<routine, operator, key>>] = the first output observed for    *)
(*      that routine, operator and key, or "none".  An operator is a value *)
(*      (matrix AND dtype): the float32, float64, complex64 and complex128 *)
(*      versions of one matrix are four different operators, and nothing   *)
(*      relates their outputs, nor those of two different keys.            *)
(*                                                                         *)
(* The user may draw from, or reseed, the global generator at any point    *)
(* between cola calls, and cola calls on OTHER operators / with other keys  *)
(* / of other routines (other dtypes, other probe shapes) may come in       *)
(* between.  The specification of a cola call is the property:             *)
(*      g' = g  /\  (out = "none" \/ result = out),                        *)
(* i.e. the result is a function of (routine, operator, key) and of        *)
(* nothing else: no earlier call, of whatever dtype / shape / key, may     *)
(* leave anything behind that a later call can observe.                    *)
(***************************************************************************)
EXTENDS Integers, Sequences

CONSTANTS Routines,   \* names of the randomised routines
          Operators,  \* operators (matrix and dtype) a caller may pass
          Keys,       \* keys a caller may pass
          Seeds,      \* seeds the user may install with np.random.seed
          Digests     \* abstract output values

VARIABLES g, out

Slots == Routines \X Operators \X Keys
GBoot == <<"boot", 0>>

Init == /\ g = GBoot
        /\ out = [s \in Slots |-> "none"]

UserDraw == /\ g' = <<g[1], g[2] + 1>>
            /\ UNCHANGED out

UserSeed(s) == /\ g' = <<s, 0>>
               /\ UNCHANGED out

(* The property, as the specification of one call returning `res`. *)
CallOkGlobal(gOld, gNew) == gNew = gOld
CallOkDeterministic(o, r, op, k, res) == o[<<r, op, k>>] = "none" \/ res = o[<<r, op, k>>]
Remember(o, r, op, k, res) == IF o[<<r, op, k>>] = "none" THEN [o EXCEPT ![<<r, op, k>>] = res] ELSE o

Call(r, op, k, res) == /\ CallOkGlobal(g, g')
                       /\ CallOkDeterministic(out, r, op, k, res)
                       /\ g' = g
                       /\ out' = Remember(out, r, op, k, res)

Next == \/ UserDraw
        \/ \E s \in Seeds: UserSeed(s)
        \/ \E r \in Routines, op \in Operators, k \in Keys, res \in Digests: Call(r, op, k, res)

vars == <<g, out>>
Spec == Init /\ [][Next]_vars

(* Consequences used as sanity checks of the specification itself. *)
OnlyUserMovesG == [][g' # g => (UserDraw \/ \E s \in Seeds: UserSeed(s))]_vars
OutputsStable == [][\A s \in Slots: out[s] # "none" => out'[s] = out[s]]_vars

(***************************************************************************)
(* The same property over an explicit history h of events                  *)
(*   [call |-> BOOLEAN, r, op, k, o]   (o: the value returned by a call),  *)
(* as used by MC_Rng (history of the mechanism model) and by Trace_Rng     *)
(* (recorded history of the real library):                                 *)
(*   equal (routine, operator, key)  =>  equal output, WHEREVER the two    *)
(*   calls occur in the history and whatever happened in between.          *)
(* Nothing is required of two calls that differ in routine, operator or    *)
(* key (their outputs may or may not coincide).                            *)
(***************************************************************************)
SameSlot(a, b) == a.r = b.r /\ a.op = b.op /\ a.k = b.k
FunctionOfRoutineOperatorKey(h) ==
    \A i, j \in 1..Len(h): (h[i].call /\ h[j].call /\ SameSlot(h[i], h[j])) => h[i].o = h[j].o
(* the step form: appending event e to a history that satisfies the property keeps it *)
ExtendsFunction(h, e) == e.call => \A j \in 1..Len(h): (h[j].call /\ SameSlot(h[j], e)) => h[j].o = e.o
=============================================================================
