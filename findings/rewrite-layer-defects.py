"""Defects of cola's rewriting layer that the mechanism model (spec/Rewrite.tla, MC_Rewrite.tla) reproduces.

Both are already listed in /verif/known_findings.json (they were found through C02/C03/C05); the rewriting model adds
the mechanism: TLC's ImplSound / ImplDType fail on exactly these states unless the stated exception is made, and the
real operator is wrong in exactly the way Impl(e) says (harness/rewritefam.py: false_premise_states /
identity_dtype_loss_states).  cola is NOT patched here.

    PYTHONPATH=/repo:/verif /venv/bin/python -B /verif/findings/rewrite-layer-defects.py
"""
import numpy as np

import cola
from cola import ops

# 1. KF-C05-scalar-annotations -> KF-C03-complex-scalar-adjoint
#    mul(A, c) builds Product(ScalarMul(c), A); get_annotations(Product) hands A's annotations to the product
#    whatever c is; adjoint() has the rule  "SelfAdjoint -> return A".   So ((1+1j) * I).H is (1+1j) * I.
I2 = ops.Identity(shape=(2, 2), dtype=np.float32)
B = (1 + 1j) * I2
print("annotations of (1+1j)*I :", B.annotations, " (false: the matrix is not Hermitian)")
print("((1+1j)*I).H is the same object:", B.H is B)
print("((1+1j)*I).H to_dense        :", np.asarray(B.H.to_dense()).tolist())
print("expected conj transpose       :", np.asarray(B.to_dense()).conj().T.tolist())
assert not np.allclose(B.H.to_dense(), np.asarray(B.to_dense()).conj().T)
# proposed minimal patch (cola/annotations.py, get_annotations(Product)): when the single non-scalar factor is
# multiplied by ScalarMul factors, keep only what survives an arbitrary scalar: nothing, unless every scalar is
# known to be real positive (PSD) / real (SelfAdjoint) / of modulus one (Unitary).

# 2. KF-C03-identity-permutation-dtype
#    dot(A: Any, B: Identity) returns A itself, dot(A: Identity, B: Any) returns B itself: the Identity's dtype takes
#    no part in the promotion.
A = ops.Dense(np.array([[1., 2.], [3., 4.]], dtype=np.float32))
I64 = ops.Identity(shape=(2, 2), dtype=np.float64)
R = A @ I64
print("dtype of f32 A @ f64 I:", R.dtype, " expected", np.promote_types(np.float32, np.float64), "; A @ I is A:", R is A)
assert R.dtype == np.float32
# proposed minimal patch (cola/fns.py): in the three Identity rules return the other operand only when
# promote_types(A.dtype, B.dtype) == its dtype, otherwise fall through to Product(A, B).
print("both defects reproduced")
