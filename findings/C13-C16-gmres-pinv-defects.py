"""Minimal reproductions of the genuine cola defects found by ./check C13 (GMRES) and ./check C16 (pinv).

Run:  PYTHONPATH=/repo:/verif /venv/bin/python -B /verif/findings/C13-C16-gmres-pinv-defects.py
Each block prints what cola returns and what the property requires.  The proposed patch (verified: with it
./check C13 and ./check C16 report no violation, quick and thorough, without any known-finding entry) is at the end."""
import warnings

import numpy as np

from harness import shim

shim.install()                     # NumPy backend lacks vmap, which gmres needs
import cola  # noqa: E402
from cola.linalg.inverse.cg import CG  # noqa: E402
from cola.linalg.inverse.gmres import GMRES, gmres  # noqa: E402

warnings.simplefilter("ignore")
np.seterr(all="ignore")


def res2(A, b, x):
    return float(np.linalg.norm(b - A @ x) ** 2)


# 1. KF-C13-galerkin-iterate ----------------------------------------------------------------------
# gmres_fwd trims H to m x m (`H[:, :-1, :]`), so "least squares" on a square system is the plain solve
# H y = beta e1: the Galerkin / FOM iterate, not the residual minimiser.
A = np.array([[1., 2.], [3., 1.]])
b = np.array([1., 0.])
x, _ = gmres(cola.ops.Dense(A), b, max_iters=1)
print("1. gmres([[1,2],[3,1]], e1, max_iters=1): ||b-Ax||^2 =", res2(A, b, x),
      "  required: 0.9 (minimum over x = t*b, at t = 0.1); the initial residual is 1, so the iterate is worse than x0 = 0")
R = np.array([[0., -1.], [1., 0.]])
try:
    gmres(cola.ops.Dense(R), b, max_iters=1)
except Exception as e:  # noqa: BLE001
    print("   gmres([[0,-1],[1,0]], e1, max_iters=1):", type(e).__name__, e, "  required: x = 0 (residual 1, the minimum)")

# 2. KF-C13-max-iters-beyond-n --------------------------------------------------------------------
from harness.props import c13  # noqa: E402
A, B, X0 = c13.make_system({"family": "complex", "n": 30, "k": 3, "x0": "rand", "seed": 142572})   # (2+i) I + 0.9 G/sqrt(2n)
try:
    gmres(cola.ops.Dense(A), B, x0=X0, max_iters=31, tol=1e-8)
except Exception as e:  # noqa: BLE001
    print("2. gmres(A 30x30 complex well conditioned, B 30x3, max_iters=31):", type(e).__name__, e, "  required: the solution")
rng = np.random.RandomState(0)
n = 40
A = 2 * np.eye(n) + 0.9 * rng.randn(n, n) / np.sqrt(n)          # well conditioned, eigenvalues in a disc around 2
b = rng.randn(n)
out = []
for m in (30, 39, 100):                                         # 100 is the default max_iters
    try:
        out.append(f"m={m}: {np.linalg.norm(b - A @ gmres(cola.ops.Dense(A), b, max_iters=m)[0]):.2g}")
    except Exception as e:  # noqa: BLE001
        out.append(f"m={m}: {type(e).__name__}")
print("   gmres(A 40x40 real well conditioned, b): ||b-Ax|| for", ", ".join(out), "  required: non-increasing in m (and ~1e-14)")

# 3. KF-C13-zero-initial-residual -----------------------------------------------------------------
A = np.array([[2., 1.], [0., 3.]])
x, _ = gmres(cola.ops.Dense(A), A @ np.array([1., 0.]), x0=np.array([1., 0.]), max_iters=2)
print("3. gmres with x0 already exact:", x, "  required: x0 = [1, 0]")

# 4. KF-C13-inv-x0-vector -------------------------------------------------------------------------
y = cola.linalg.inv(cola.ops.Dense(A), GMRES(max_iters=2, x0=np.array([1., 0.]))) @ np.array([1., 1.])
print("4. (inv(A, GMRES(x0=x0_1d)) @ b_1d).shape =", y.shape, "  required: (2,)")

# 5. KF-C13-breakdown-continues -------------------------------------------------------------------
A = np.array([[-2., 1, -1], [0, -2, -1], [1, 0, 1]])
b = np.array([2., 1, -1])                            # an eigenvector: A b = -2 b, Krylov dimension 1
for m, tol in ((1, 1e-7), (3, 1e-10), (4, 1e-7)):
    try:
        x, _ = gmres(cola.ops.Dense(A), b, max_iters=m, tol=tol)
        print(f"5. eigenvector right-hand side, max_iters={m}, tol={tol:g}: ||b-Ax||^2 = {res2(A, b, x):.3g}   required: 0")
    except Exception as e:  # noqa: BLE001
        print(f"5. eigenvector right-hand side, max_iters={m}, tol={tol:g}:", type(e).__name__, e, "  required: x = -b/2")

# 6. KF-C16-pinv-cg-complex -----------------------------------------------------------------------
Ac = np.array([[1, 1j, 0], [0, 1, -1j]])
try:
    cola.linalg.pinv(cola.ops.Dense(Ac), CG()) @ np.array([1., 0.])
except Exception as e:  # noqa: BLE001
    print("6. pinv(complex 2x3, CG()) @ b:", type(e).__name__, e, "  required: the minimum-norm solution [2/3, -i/3, -i/3]")

PATCH = r'''
--- a/cola/linalg/inverse/gmres.py
+++ b/cola/linalg/inverse/gmres.py
@@ def gmres(...)
     if is_vector:
         rhs = rhs[..., None]
         x0 = x0[..., None]
+    elif len(x0.shape) == 1:
+        x0 = x0[..., None]
@@ def gmres_fwd(...)
     Q, H = Q.to_dense(), H.to_dense()
-    Q, H = Q[:, :, :-1], H[:, :-1, :]
+    Q = Q[:, :, :-1]  # keep the full (m+1) x m Hessenberg matrix: GMRES minimises ||beta e1 - H y||
@@
     else:
-        HT = xnp.conj(xnp.permute(H, axes=[0, 2, 1]))
-        largest_vals = xnp.max(xnp.abs(H), -1)
-        overall_max = xnp.max(largest_vals.reshape(largest_vals.shape[0], -1), -1)
-        zero_thresh = 10 * tol * overall_max[:, None]
-        padding = xnp.where(largest_vals < zero_thresh, xnp.ones_like(largest_vals), xnp.zeros_like(largest_vals))
-        added_diag = xnp.vmap(xnp.diag)(padding)
-        y = xnp.solve(HT @ H + added_diag, HT[..., 0, None]).squeeze(-1) * beta[:, None]
-        zeros = xnp.zeros_like(y)
-        y = xnp.where(largest_vals < zero_thresh, zeros, y)
+        # minimum-norm least squares: padded (zero) columns of H get a zero coefficient
+        y = xnp.vmap(xnp.lstsq)(H, xnp.permute(e1, axes=[1, 0])[..., None])[..., 0]
         pred = xnp.permute(Q @ y[..., None], axes=[1, 0, 2])[:, :, 0]
--- a/cola/linalg/decompositions/arnoldi.py
+++ b/cola/linalg/decompositions/arnoldi.py
@@ def init_arnoldi(xnp, rhs, max_iters, dtype):
     norm = xnp.norm(rhs, axis=-2)
-    rhs = rhs / norm
+    rhs = rhs / xnp.where(norm > 0, norm, xnp.ones_like(norm))
--- a/cola/utils/utils_linalg.py
+++ b/cola/utils/utils_linalg.py
@@ def get_precision(xnp, dtype):
-    if dtype == xnp.float32:
+    if dtype in (xnp.float32, xnp.complex64):
         return 1e-6
-    elif dtype == xnp.float64:
+    elif dtype in (xnp.float64, xnp.complex128):
         return 1e-15
--- a/cola/backends/np_fns.py
+++ b/cola/backends/np_fns.py
 complex64 = np.complex64
+complex128 = np.complex128
'''
