"""Minimal reproductions of what the mechanism model of the matrix-function rules, the eigenvalue rules and the Auto()
algorithm selection (spec/UnaryEigRules.tla, spec/AutoChoice.tla, harness/rulesfam2.py) finds on the pinned tree (NumPy
backend).  None of them is listed in /verif/known_findings.json (C09 restricts its quantifier to the domain where the
factor-wise rules are identities, so it never reports 1 - 3).

TLC side: the statements WITHOUT their domain restriction (PowKronSoundEverywhere, UnaryRuleSoundEverywhere,
PowIntCompleteEverywhere, EigRuleSoundEverywhere of MC_UnaryEigRules; AutoOptsForward of MC_AutoChoice) were VIOLATED:
the rule, transcribed literally, is not an identity under the guard the code uses (none).  Conformance showed that the
real code returned exactly the model's wrong value / raised the model's exception, so the defect is the code's.

STATUS (/repo HEAD 32ca66c):
  1. pow(Kronecker, non-integer) without domain guard .......... OPEN  (recorded; witness PowKronSoundEverywhere)
  2. pow(Kronecker) recursing into non-square factors .......... FIXED 32ca66c (conditional rule; mutant PowKronNoSquareGuard)
  3. apply_unary(f, Adjoint(A)) for f with non-real coefficients  FIXED 415da5a (fbar(z) = conj f(conj z); mutant UnaryAdjointNoConj)
  4. Auto options forwarded verbatim to PowerIteration ......... FIXED 00e9d62 (renamed + filtered; mutant EigPowerForwardAll)
  5. eig(A, k=0, 'LM') returns the whole spectrum .............. OPEN  (recorded; witness EigRuleSoundEverywhere)
  6. deviations of the Auto selection from its documentation .... OPEN  (recorded in AutoChoice.tla, not wrong answers)
The script prints every item and exits 0 iff the FIXED items (2, 3, 4) behave correctly on the current tree; the model
(UnaryEigRules.tla / AutoChoice.tla) follows the fixed code: the three statements are unconditional invariants now.

Run:  PYTHONPATH=/repo:/verif /venv/bin/python -B /verif/findings/unary-eig-auto-defects.py"""
import sys
import warnings

import numpy as np

from harness import build  # noqa: F401  (installs the NumPy backend shim)
import cola
from cola import ops
from cola.linalg import Auto

warnings.simplefilter("ignore")
np.set_printoptions(precision=4, suppress=True)
nd = cola.fns.no_dispatch


def dense(x):
    return np.asarray(x.to_dense())


REGRESSED = []


def fixed(item, ok):
    print(f"   [{item}] {'fixed behaviour confirmed' if ok else 'REGRESSION: the fixed item misbehaves again'}")
    if not ok:
        REGRESSED.append(item)


# 1. OPEN - GENUINE (silent wrong answer): pow(A: Kronecker, alpha) = Kronecker(pow(M_i, alpha)) is applied for EVERY alpha.
#    For a non-integer alpha = p/q, prod_i lam_i^alpha = (prod_i lam_i)^alpha * exp(2 pi i k p / q), where
#    sum_i Arg(lam_i) = Arg(prod_i lam_i) + 2 pi k: the rule is an identity iff q divides the winding number k of every
#    tuple of factor eigenvalues (invariant PowKronDomain, an IFF; e.g. all factors but one with positive spectrum).
#    Witness found by TLC: two negative definite factors.  Their Kronecker product is POSITIVE definite, its principal
#    square root is the positive definite root; cola returns MINUS that (complex dtype) or NaN (real dtype), also for an
#    operator declared PSD, also for isqrt and cholesky-free code paths that call sqrt.
A = ops.Diagonal(np.array([-1., -4.], dtype=np.complex128))
B = ops.Diagonal(np.array([-1., -9.], dtype=np.complex128))
K = ops.Kronecker(A, B)                                            # diag(1, 9, 4, 36)
print("1. Kronecker(diag(-1,-4), diag(-1,-9)) = diag", np.diag(dense(K)).real.tolist())
print("   cola.linalg.sqrt            -> diag", np.diag(dense(cola.linalg.sqrt(K))).tolist(), "   (principal root: [1, 3, 2, 6])")
print("   same operator, no_dispatch  -> diag", np.round(np.diag(dense(cola.linalg.sqrt(nd(K)))), 6).tolist())
Kr = cola.PSD(ops.Kronecker(ops.Diagonal(np.array([-1., -4.])), ops.Diagonal(np.array([-1., -9.]))))
print("   real dtype, declared PSD    -> diag", np.diag(dense(cola.linalg.sqrt(Kr))).tolist())
# proposed minimal patch (cola/linalg/unary/unary.py): use the factor-wise rule only where it is an identity
#     def _factorwise_pow_ok(A, alpha):
#         k = int(np.round(alpha))
#         if np.isclose(alpha, k):
#             return all(M.shape[-2] == M.shape[-1] for M in A.Ms)          # see 2.
#         return sum(not M.isa(PSD) for M in A.Ms) <= 1 and all(M.shape[-2] == M.shape[-1] for M in A.Ms)
#     @dispatch(cond=lambda A, alpha, *_: _factorwise_pow_ok(A, alpha))
#     def pow(A: Kronecker, alpha: Number, alg: Algorithm = Auto()): ...
# (at most one factor not declared PSD: every other eigenvalue has argument 0, the winding number is 0)

# 2. FIXED 32ca66c - GENUINE (refusal of a valid call): the same rule recursed into NON-SQUARE factors of a square
#    Kronecker product (the defect that ccf9fbf repaired for diag / trace): integer powers and pow(., -1) raised, the
#    generic rule works.  The rule is conditional on square factors now.
T, W = ops.Dense(np.array([[1.], [2.]])), ops.Dense(np.array([[3., 4.]]))
K = ops.Kronecker(T, W)                                            # [[3,4],[6,8]]
ok2 = True
for alpha in (2, 0.5):
    ref = dense(cola.linalg.pow(nd(K), alpha))
    try:
        got = dense(cola.linalg.pow(K, alpha))
        print("2. pow(Kronecker(2x1, 1x2),", alpha, ") ->", np.round(got, 4).real.tolist())
        ok2 = ok2 and bool(np.allclose(got, ref, atol=1e-8))
    except Exception as e:  # noqa: BLE001
        print("2. pow(Kronecker(2x1, 1x2),", alpha, ") raises", type(e).__name__, "-", str(e)[:60],
              "  generic rule:", np.round(ref, 4).real.tolist())
        ok2 = False
fixed("2: 32ca66c", ok2)
# patch applied: @dispatch(cond=lambda A, *_: all(M.shape[-2] == M.shape[-1] for M in A.Ms)) on pow(A: Kronecker, ...)

# 3. FIXED 415da5a - GENUINE (silent wrong answer, user-supplied f): apply_unary(f, Adjoint(A)) = Adjoint(apply_unary(f, A))
#    needs f(conj z) = conj f(z) on the spectrum.  False for a function with non-real Taylor coefficients (the docstring
#    of apply_unary defines f(A) through the Taylor expansion, complex coefficients included) ...
f = lambda x: 1j * x                                               # noqa: E731
D = ops.Diagonal(np.array([1., 2.], dtype=np.complex128))
got3 = np.diag(dense(cola.linalg.apply_unary(f, ops.Adjoint(D))))
print("3. f(x) = i x;  apply_unary(f, Adjoint(diag(1,2))) -> diag", got3.tolist(),
      "   true: [1j, 2j];  no_dispatch ->", np.round(np.diag(dense(cola.linalg.apply_unary(f, nd(ops.Adjoint(D))))), 6).tolist())
fixed("3: 415da5a", bool(np.allclose(got3, [1j, 2j])))
#    ... and on the branch cut of sqrt / log (benign with IEEE signed zeros: conj(-1+0j) = -1-0j and np.sqrt(-1-0j) = -1j,
#    so the value is the limit from below; unchanged by the fix, the conformance harness skips such values):
N = ops.Diagonal(np.array([-1., -4.], dtype=np.complex128))
print("   sqrt(Adjoint(diag(-1,-4))) -> diag", np.diag(dense(cola.linalg.sqrt(ops.Adjoint(N)))).tolist(), "   principal: [1j, 2j]")
# patch applied (unary.py): Adjoint(A) has the decomposition (conj lam, P^H), so f(A^H) = (fbar(A))^H with
#     fbar(z) = conj(f(conj(z))):
#     def apply_unary(f, A: Adjoint, alg):  return Adjoint(apply_unary(lambda z: xnp.conj(f(xnp.conj(z))), A.A, alg))

# 4. FIXED 00e9d62 - GENUINE (crash): Auto forwarded its options verbatim to the algorithm it selects, but PowerIteration
#    spells the iteration cap `max_iter` (its docstring says max_iters) and has no start_vector: the same Auto(...) object
#    worked or raised depending on k / which (invariant AutoOptsForward of MC_AutoChoice).  eig's Auto rule now renames
#    max_iters and passes PowerIteration only the fields it has.
S = ops.Dense(np.array([[2., 1.], [1., 2.]]))
ok4 = True
for call, th in (("eig(A, 2, 'LM', Auto(max_iters=5))", lambda: cola.linalg.eig(S, 2, "LM", Auto(max_iters=5))[0].tolist()),
                 ("eigmax(A, Auto(max_iters=5))      ", lambda: cola.linalg.eigmax(S, Auto(max_iters=5)))):
    try:
        print("4.", call, "->", th())
    except Exception as e:  # noqa: BLE001
        print("4.", call, "raises", type(e).__name__, "-", str(e)[:80])
        ok4 = False
try:
    cola.linalg.eigmax(S, Auto(max_iters=5, start_vector=np.ones(2), bs=3))
except Exception as e:  # noqa: BLE001
    print("4. eigmax(A, Auto(max_iters=5, start_vector=.., bs=3)) raises", type(e).__name__)
    ok4 = False
fixed("4: 00e9d62", ok4)
# patch applied (cola/linalg/eig/eigs.py): max_iters -> max_iter, then only PowerIteration's dataclass fields are passed

# 5. OPEN - MINOR (surprising result): eig(A, k=0, 'LM') returns ALL n eigenvalues (get_slice: slice(-0, None) is the whole
#    array), eig(A, k=0, 'SM') returns none.
print("5. eig(A, 0, 'LM') ->", cola.linalg.eig(S, 0, "LM")[0].tolist(), "   eig(A, 0, 'SM') ->", cola.linalg.eig(S, 0, "SM")[0].tolist())
# proposed patch (decompositions.get_slice): 'LM': slice(len - num, None) with num clipped to [0, len], or reject num < 1.

# 6. OPEN - RECORDED DEVIATIONS of the Auto selection from its documentation / the size contract (not wrong answers):
#    a. apply_unary / exp / log / sqrt / pow: the docstring says "if A is Hermitian and small, use Eigh", the code tests
#       A.isa(PSD): a declared SelfAdjoint (indefinite) operator goes through the general eigensolver Eig (small) /
#       Arnoldi (large) - the route of known finding KF-C09-eig-repeated-eigenvalue - while eig() tests SelfAdjoint;
#    b. eig(k=1, 'LM') / eigmax use power iteration also BELOW the 1e6 switch (iterative, tolerance 1e-6, no convergence
#       when the dominant eigenvalue is not unique in magnitude) - the branch is not in the docstring and makes the chain
#       order dependent;
#    c. diag / trace have no 1e6 switch: the exact prober (n products) is used whenever tol < 1/sqrt(10 n m), i.e. for the
#       default tol = 1e-6 up to n m < 1e11; with a large tol Hutchinson is used on a 4 x 4 operator.  The logdet docstring
#       states the threshold as 1/sqrt(10 n), the code uses 1/sqrt(10 n m).
H = cola.SelfAdjoint(ops.Dense(np.array([[1., 2.], [2., -1.]])))
print("6a. exp(SelfAdjoint(dense)) ->", type(cola.linalg.exp(H)).__name__, "(Product[Dense, Diagonal, TriangularInv, TriangularInv, "
      "Permutation] = the Eig route; PSD-declared operands get Product[Dense, Diagonal, Dense] = Eigh)")

if REGRESSED:
    print("REGRESSED:", REGRESSED)
sys.exit(1 if REGRESSED else 0)
