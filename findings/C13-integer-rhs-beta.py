"""Minimal reproduction of the genuine cola defect found by ./check C13 (mixed-dtype warm starts, NumPy backend).

Run:  PYTHONPATH=<cola checkout> /venv/bin/python -B /verif/findings/C13-integer-rhs-beta.py

Defect (present up to 6470e25, repaired in /repo by e18cb94): gmres_fwd allocated the vector beta*e1 of the small
Hessenberg least-squares problem in the dtype of the right-hand side,
    e1 = xnp.zeros(shape=(H.shape[1], beta.shape[0]), dtype=rhs.dtype, device=A.device)
so beta = ||b - A x0|| was converted to rhs.dtype:
  * an INTEGER right-hand side truncated beta to a whole number: the returned iterate is x0 + (floor(beta)/beta) * (correct
    correction), silently not the residual minimiser (unless ||r0|| happens to be whole);
  * a float32 right-hand side with a float64 / complex128 operator limited the result to float32 accuracy.
Minimal patch (cola/linalg/inverse/gmres.py, gmres_fwd):  dtype=res.dtype  instead of  dtype=rhs.dtype.

The check keeps these cases (C13 evidence: mixed_dtype_*; violation attrs source=mixed_dtype, b_dtype=i64,
beta_integral=false): with the defect `./check C13 --tier quick` reported 582 violations, all with exactly these attrs."""
import warnings

import numpy as np
from cola.backends import np_fns


def _vmap(fun, in_axes=0, out_axes=0):     # the NumPy backend has no vmap
    def mapped(*args):
        if isinstance(fun, type):
            return fun(*args)
        return np.stack([fun(*[a[i] for a in args]) for i in range(len(args[0]))])
    return mapped


np_fns.vmap = _vmap

import cola  # noqa: E402
from cola.linalg.inverse.gmres import gmres  # noqa: E402

warnings.simplefilter("ignore")
A = np.array([[2, 1j], [0, 3]], dtype=np.complex128)
x0 = np.array([1 + 1j, 0])
opt = 0.6741998624632423            # exact: sqrt(rho2_1), minimum of ||b - A x|| over x0 + span{r0}
bad = False
for b in (np.array([1., 1.]), np.array([1, 1], dtype=np.int64)):
    x, _ = gmres(cola.ops.Dense(A), b, x0=x0, max_iters=1, tol=1e-12)
    res = np.linalg.norm(b - A @ x)
    print(f"b dtype {b.dtype}: ||b - A x_1|| = {res:.6f}   required {opt:.6f}   (||b - A x0|| = {np.linalg.norm(b - A @ x0):.6f})")
    bad |= abs(res - opt) > 1e-6

# without a guess: ||b|| = sqrt(5) is truncated to 2
Ar = np.array([[2., 1.], [0., 3.]])
b = np.array([1, 2], dtype=np.int64)
x, _ = gmres(cola.ops.Dense(Ar), b, max_iters=2, tol=1e-12)
print("integer b, no guess, m = n: x =", x, "  required:", np.linalg.solve(Ar, b.astype(float)))
bad |= not np.allclose(x, np.linalg.solve(Ar, b.astype(float)))
print("DEFECT PRESENT" if bad else "ok (fixed)")
