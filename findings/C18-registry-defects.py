"""Minimal reproductions of the genuine cola defects found by ./check C18 (NumPy backend).

Run:  PYTHONPATH=/repo:/verif /venv/bin/python -B /verif/findings/C18-registry-defects.py [order]
      order = a permutation of the letters below, e.g. "sa" / "as" / "mM" / "Mm" / "lL" / "Ll"   (default: all)
Each order must run in a FRESH interpreter (the registry is per class and per process), so the script
re-executes itself."""
import subprocess
import sys

if len(sys.argv) < 2:
    for order in ("sa", "as", "gG", "Gg", "mM", "Mm", "lL", "Ll", "p"):
        print(f"--- fresh interpreter, construction order {order!r}")
        subprocess.run([sys.executable, "-B", __file__, order])
    sys.exit(0)

import logging  # noqa: E402
import warnings  # noqa: E402

import numpy as np  # noqa: E402

import cola  # noqa: E402
from cola import ops  # noqa: E402
from cola.linalg.decompositions.decompositions import Lanczos  # noqa: E402

logging.disable(logging.WARNING)
warnings.simplefilter("ignore")
D = ops.Dense(np.arange(9.).reshape(3, 3))
S = cola.SelfAdjoint(ops.Dense(np.diag([1., 2., 3.])))
idx = np.array([0, 2])


def build(c):
    return {
        "s": lambda: ops.Sliced(D, (slice(0, 2), slice(0, 2))),            # slices only
        "a": lambda: ops.Sliced(D, (idx, idx)),                            # index arrays
        "g": lambda: D[0:2, 0:2],                                          # the same two through __getitem__ ...
        "G": lambda: ops.Identity((3, 3), np.float64)[idx, idx],           # ... share ONE class Sliced[] for all kinds
        "m": lambda: ops.BlockDiag(D, D, multiplicities=[1, 2]),
        "M": lambda: ops.BlockDiag(D, D, multiplicities=np.array([1, 2])),
        "l": lambda: cola.linalg.exp(S, Lanczos(max_iters=3)),
        "L": lambda: cola.linalg.exp(S, Lanczos(start_vector=np.ones(3), max_iters=3)),
        "p": lambda: cola.linalg.exp(S, Lanczos(start_vector=np.ones(3), max_iters=3)),
    }[c]()


for c in sys.argv[1]:
    A = build(c)
    leaves = [type(x).__name__ + (str(x.shape) if hasattr(x, "shape") else "") for x in A.flatten()[0]]
    print(f"  {c}: {type(A).__name__:45s} flatten() -> {leaves}")
    if c == "p":
        # KF-C18-lanczosunary-kwargs-pop: the first product removes start_vector from the operator's own kwargs
        try:
            from harness import shim  # NumPy backend lacks vmap; the harness shim provides it
            shim.install()
        except ImportError:
            pass
        try:
            A @ np.ones(3)
        except NotImplementedError:
            pass  # without the shim the product stops at vmap - after the pop has already happened
        leaves = [type(x).__name__ + (str(x.shape) if hasattr(x, "shape") else "") for x in A.flatten()[0]]
        print(f"     after A @ v:                                    flatten() -> {leaves}   (required: unchanged)")

# Required by C18: flatten() leaves are exactly the array parameters, whatever was constructed before.
# Observed: LinearOperator.__setattr__ decides ONCE PER CLASS, at the first assignment of an attribute name,
# whether the attribute is an array parameter.  For attributes whose value is an array in one instance and not in
# another (Sliced.slices, BlockDiag.multiplicities, LanczosUnary/ArnoldiUnary.kwargs) the first instance wins:
#   "sa": index arrays of `a` are hidden in the static aux data;   "as": slice objects of `s` become leaves.
#
# proposed minimal patch (cola/ops/operator_base.py) - decide per instance, keep the class map only for the
# attributes declared static up front:
#     def tree_flatten(self):
#         pytrees, aux = [], []
#         for key, val in sorted(vars(self).items()):
#             static = self._dynamic.get(key) is False and key in LinearOperator._dynamic
#             if not static and (definitely_dynamic(val) or any(map(is_array, np_fns.tree_flatten(val)[0]))):
#                 pytrees.append(val); aux.append((key, ))
#             else:
#                 aux.append((key, val))
#         return pytrees, aux
# (removes the history dependence; containers that mix arrays with slices / Python scalars still contribute those
#  as non-array leaves - a complete fix splits such containers.)
# proposed patch for the pop (cola/linalg/unary/unary.py, LanczosUnary._matmat and ArnoldiUnary._matmat):
#     kwargs = {k: v for k, v in self.kwargs.items() if k != "start_vector"}
#     Q, T, info = lanczos(self.A, V, **kwargs)
