"""Minimal reproductions of what the mechanism model of the structural linear-algebra rules
(spec/LinalgRules.tla, harness/rulesfam.py) finds on the pinned tree (NumPy backend).

TLC side: the invariants DiagRuleSoundEverywhere / TraceRuleSoundEverywhere of MC_LinalgRules are VIOLATED (the rule,
transcribed literally, is not the algebraic identity outside the domain `DiagDomain`); conformance shows that the real
code returns exactly the model's (wrong) value, so the defect is the code's.

Run:  PYTHONPATH=/repo:/verif /venv/bin/python -B /verif/findings/rules-structural-linalg-defects.py"""
import sys
import warnings

import numpy as np

from harness import build  # noqa: F401  (installs the NumPy backend shim)
import cola
from cola import ops

warnings.simplefilter("ignore")
W = ops.Dense(np.array([[2., 1.]]))                    # 1 x 2
T = ops.Dense(np.array([[1.], [3.]]))                  # 2 x 1
I2 = ops.Identity((2, 2), np.float64)
D = ops.Dense(np.array([[1., 2.], [3., 4.]]))

# 1. GENUINE (silent wrong answer): diag(BlockDiag) concatenates the blocks' diagonals without testing that the
#    blocks are square.  With non-square blocks the main diagonal of the whole does not run through the blocks'
#    main diagonals; the result has the wrong entries AND the wrong length.  trace() inherits the wrong value.
A = ops.BlockDiag(W, T)                                # [[2,1,0],[0,0,1],[0,0,3]]  (3 x 3)
print("1. BlockDiag(1x2, 2x1): dense =", A.to_dense().tolist())
print("   cola.linalg.diag  ->", cola.linalg.diag(A).tolist(), "   true:", np.diag(A.to_dense()).tolist())
print("   cola.linalg.trace ->", float(cola.linalg.trace(A)), "   true:", float(np.trace(A.to_dense())))
# proposed patch (cola/linalg/trace/diag_trace.py): make the rule conditional, like the Product rules of inv/slogdet
#     @dispatch(cond=lambda A, *_: all(M.shape[-2] == M.shape[-1] for M in A.Ms))
#     def diag(A: BlockDiag, k: int, alg: Algorithm): ...
# (non-square blocks then fall back to the generic exact prober)

# 2. GENUINE (silent wrong answer): diag(Kronecker) takes the outer product of the factors' diagonals without testing
#    that the factors are square.  (trace(Kronecker) refuses such operands: "Can't trace non square matrix".)
A = ops.Kronecker(I2, W)                               # 2 x 4:  [[2,1,0,0],[0,0,2,1]]
print("2. Kronecker(I2, 1x2): dense =", A.to_dense().tolist())
print("   cola.linalg.diag  ->", cola.linalg.diag(A).tolist(), "   true:", np.diag(A.to_dense()).tolist())
A = ops.Kronecker(T, W)                                # square 2 x 2 from non-square factors: [[2,1],[6,3]]
print("   Kronecker(2x1, 1x2): dense =", A.to_dense().tolist())
print("   cola.linalg.diag  ->", cola.linalg.diag(A).tolist(), "   true:", np.diag(A.to_dense()).tolist())
# ... and a Sum that contains it silently *broadcasts* the short vector:
S = ops.Sum(A, D)
print("   Sum(Kronecker(2x1, 1x2), D): diag ->", cola.linalg.diag(S).tolist(), "  true:", np.diag(S.to_dense()).tolist(),
      "  trace ->", float(cola.linalg.trace(S)), " true:", float(np.trace(S.to_dense())))
# proposed patch: same condition on diag(A: Kronecker, ...) (and on diag(A: KronSum, ...) for symmetry)

# 3. MINOR (crash instead of a refusal): slogdet of an operator with a non-square part never terminates cleanly.
#    LU base case: P, L, U = plu(A); slogdet(P @ L @ U): the Product has a non-square factor, the Product rule's
#    condition fails, the LU base case is selected again -> RecursionError (also for Kronecker / BlockDiag with a
#    non-square factor, whose rules recurse into the factors without a test).
sys.setrecursionlimit(300)
for nm, A in (("Dense 1x2", W), ("Kronecker(2x1, 1x2)", ops.Kronecker(T, W)), ("BlockDiag(1x2, 2x1)", ops.BlockDiag(W, T))):
    try:
        print("3.", nm, "slogdet ->", cola.linalg.slogdet(A))
    except RecursionError:
        print("3.", nm, "slogdet -> RecursionError   (a determinant does not exist / is 0: expected a clear refusal)")
# proposed patch (cola/linalg/logdet/logdet.py, both base cases):  assert A.shape[-2] == A.shape[-1], "slogdet needs a
# square operator"

# 4. NOT a wrong answer, reported precisely: the rule  inv(A: LinearOperator, alg: Algorithm) if A.isa(Unitary):
#    Unitary(A.H)  is dead code for every documented algorithm: (LinearOperator, Auto|LU|Cholesky|CG|GMRES) is more
#    specific than (LinearOperator, Algorithm), so the resolver drops the conditional rule before precedences are
#    compared.  A Unitary-declared dense operator is inverted by LU:
U = cola.Unitary(ops.Dense(np.array([[0., 1.], [1., 0.]])))
print("4. inv(Unitary(Dense)) ->", type(cola.linalg.inv(U)).__name__.split("[")[0], "of",
      [type(M).__name__.split("[")[0] for M in cola.linalg.inv(U).Ms], "  (the Unitary shortcut would return Adjoint/Dense)")

# 5. ALREADY KNOWN (known_findings.json: cholesky of a PD Kronecker product with non-PD factors), now also a failing
#    invariant of the mechanism model (CholGuardCompleteEverywhere): cholesky(Kronecker) factors every factor without
#    testing that the factors are positive definite.  (-D) (x) (-D) is SPD; the rule returns NaNs silently:
from cola.linalg.decompositions.decompositions import cholesky  # noqa: E402
Dn = ops.Diagonal(np.array([-1., -4.]))
K = ops.Kronecker(Dn, Dn)
with np.errstate(all="ignore"):
    Lk = cholesky(K)
    print("5. cholesky(Kronecker(diag(-1,-4), diag(-1,-4))): min eig of operand =", float(np.min(np.linalg.eigvalsh(K.to_dense()))),
          "  factor diag ->", np.diag(np.asarray(Lk.to_dense())).tolist())
