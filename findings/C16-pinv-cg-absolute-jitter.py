"""Minimal reproduction of a genuine cola defect found by the extended ./check C16 (scaled copies of the exact pinv
catalog, scaling law pinv(c A) = pinv(A) / c of spec/LeastSquares.tla).

Run:  PYTHONPATH=/repo:/verif /venv/bin/python -B /verif/findings/C16-pinv-cg-absolute-jitter.py
      (exit 1 while the defect is present, 0 once it is repaired)

Defect (cola/linalg/inverse/pinv.py, `pinv(A, CG)`):

    cons = get_precision(xnp, A.dtype) * max(A.shape)        # 1e-6*max(shape) single, 1e-15*max(shape) double
    Op = IterativeOperatorWInfo(M, alg)                      # M = A^H A
    return PSD(Op + cons * I_like(M)) @ A.H

The "jitter" cons*I is added to the INVERSE of the Gram matrix (not to the Gram matrix), and it is an absolute number:

    pinv(A, CG) @ b  =  pinv(A) b  +  cons * A^H b

so the relative error is about cons * sigma^2: negligible for ||A|| ~ 1 in double precision (the repository's tests),
but 4e-5 for float32 operators of norm ~ 3, O(1)..O(40) for float32 operators of norm ~ 3e3 and O(1) for float64
operators of norm ~ 3e7.  LSTSQ, Auto (small operators) and the structural rules are not affected.
The result is neither a least-squares solution (residual not orthogonal to range(A)) nor regularised in any sense.

Proposed minimal patch: /verif/findings/C16-pinv-cg-absolute-jitter.patch  (drop the term: `return PSD(Op) @ A.H`).
CG on the singular Gram matrix of a wide operator needs no jitter: the right-hand side A^H b lies in range(A^H A) and
CG started from 0 stays in that range, i.e. it converges to the minimum-norm solution (checked by ./check C16 on all
wide catalog matrices, float32/float64, scales 1e-7 / 1 / 1e3, and on the single-precision numeric family)."""
import sys
import warnings

import numpy as np

from harness import shim

shim.install()
import cola  # noqa: E402
from cola.linalg.inverse.cg import CG  # noqa: E402
from cola.linalg.inverse.pinv import LSTSQ  # noqa: E402

warnings.simplefilter("ignore")
np.seterr(all="ignore")

A0 = np.array([[2., -1., 1.], [1., 1., 3.]])        # catalog matrix w23b (2 x 3, full rank)
b = np.array([1., 0.])
x0 = np.array([18., -15., -1.]) / 50.               # exact pinv(A0) b  (TLC: spec/MC_Pinv.tla)
assert np.allclose(np.linalg.pinv(A0) @ b, x0)

bad = 0
print("pinv(c * [[2,-1,1],[1,1,3]], alg) @ e1   expected: pinv(A) e1 / c   (scaling law)")
for dt, prec in ((np.float32, 1e-6), (np.float64, 1e-15)):
    for c in (1.0, 1e3, 1e7):
        A = (A0 * c).astype(dt)
        want = x0 / c
        for name, alg in (("CG", CG(tol=1e-6 if dt is np.float32 else 1e-13, max_iters=200)), ("LSTSQ", LSTSQ())):
            x = np.asarray(cola.linalg.pinv(cola.ops.Dense(A), alg) @ b.astype(dt)).astype(np.float64)
            rel = np.abs(x - want).max() / np.abs(want).max()
            jit = prec * 3 * (A.astype(np.float64).T @ b)             # cons * A^H b, cons = prec * max(shape)
            explained = np.abs((x - want) - jit).max() <= 0.05 * np.abs(x - want).max() if rel > 1e-12 else False
            tol = 1e-4 if dt is np.float32 else 1e-6
            flag = "WRONG" if rel > tol else "ok"
            bad += rel > tol
            print(f"  {np.dtype(dt).name:8s} c={c:<6g} {name:5s} relative error {rel:9.3g}  {flag}"
                  + ("   (= cons * A^H b, cons = %g)" % (prec * 3) if explained else ""))
print("violations:", bad)
sys.exit(1 if bad else 0)
