"""C15 observation (precision, below the property's declared tolerance - NOT raised as a violation).

arnoldi() promotes a start vector to the operator's dtype only AFTER normalising it in the start vector's own dtype
(init_arnoldi: norm = xnp.norm(rhs); rhs / norm, both in rhs.dtype, then stored into the A.dtype buffer).  With a
float64 (complex128) operator and a float32 start vector the first basis vector is fl32(v / ||v||): its norm is
1 +- 6e-8 and Q, H differ from the run on v.astype(A.dtype) - the same values - by ~1e-7 instead of ~1e-16, i.e. the
float64 factorisation is only float32-accurate.  lanczos() is NOT affected (lanczos_fact re-normalises the current
vector in A.dtype at the start of every step; shown below for contrast); integer start vectors and vectors whose norm
is exactly representable are not affected either.  The start-invariance family of ./check C14 / C15 therefore
compares dtype variants up to 1e3 ulps of the NARROWER float type (kf.start_tol); at 1e3 ulps of the operator's type
the clause start_invariance (which=factorisation, api=arnoldi, start_dtype=f32, dtype=f64|c128) would fire on the
unchanged tree.

Proposed minimal patch (cola/linalg/decompositions/arnoldi.py, arnoldi()): promote before normalising,
    rhs = xnp.cast(rhs, A.dtype)      # before init_arnoldi
"""
import warnings

import numpy as np

from harness import krylovfam as kf  # noqa: F401  (installs the NumPy backend shim)
import cola
from cola.linalg.decompositions.arnoldi import arnoldi
from cola.linalg.decompositions.lanczos import lanczos

warnings.filterwarnings("ignore")
A = np.array([[2., 1., 0.], [1., 3., 1.], [0., 1., 4.]])
v32 = np.array([1., 2., 4.], dtype=np.float32)      # ||v||^2 = 21: the norm is not representable
for name, run in (("lanczos", lambda v: lanczos(cola.SelfAdjoint(cola.ops.Dense(A)), v, max_iters=3, tol=1e-12)),
                  ("arnoldi", lambda v: arnoldi(cola.ops.Dense(A), v, max_iters=3, tol=1e-12))):
    Q, T, _ = run(v32)
    Qr, Tr, _ = run(v32.astype(np.float64))
    Q, Qr = np.asarray(Q.to_dense()), np.asarray(Qr.to_dense())
    T, Tr = np.asarray(T.to_dense()), np.asarray(Tr.to_dense())
    print(f"{name}: dtype {Q.dtype}; | ||q_1|| - 1 | = {abs(np.linalg.norm(Q[:, 0]) - 1):.1e}; "
          f"|Q - Q_ref| = {np.abs(Q - Qr).max():.1e}; |T - T_ref| = {np.abs(T - Tr).max():.1e} "
          f"(float64 round-off would be ~1e-16)")
