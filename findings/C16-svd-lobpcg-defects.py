"""Genuine defects of svd(A, k, which, LOBPCG()) in the unchanged tree, found by ./check C16 (exact SVD catalog, MC_Svd).

Run:  PYTHONPATH=/repo:/verif /venv/bin/python -B /verif/findings/C16-svd-lobpcg-defects.py   (exit 1 while present)

The rule runs lobpcg on A^H A (n x n) whatever the shape; lobpcg() returns the n - 1 LARGEST eigenpairs, in single precision,
through a matvec that casts to float32:
 1. tall / square A, k = min(m, n) = n: only n - 1 triplets come back (the smallest is silently dropped; n = 1: ValueError);
 2. which = "SM": the smallest pair is never computed, so the k "smallest" triplets are wrong (tall / square); for wide A with
    n - 1 > m the slice picks zero eigenvalues of A^H A: Sigma = 0, inv(Sigma) = inf, NaN factors;
 3. complex A: the float32 cast drops the imaginary part of every product: wrong triplets, U not orthonormal.
Wide A with which = "LM" and real dtype is correct (<= 3e-7 sigma_1).
Proposed patch (verified: repo suite still 316 failed / 130 passed, extended ./check C16 green):
/verif/findings/C16-svd-lobpcg-proposed-fix.patch  (svd rule iterates on the smaller Gram matrix and completes the missing
eigenpair by the orthogonal complement; lobpcg keeps returning n - 1 pairs because tests/algorithms/test_lobpcg.py expects
that; its matvec keeps complex data in complex64)."""
import sys
import warnings

import numpy as np

from harness import shim

shim.install()
import cola  # noqa: E402
from cola.linalg.eig.lobpcg import LOBPCG  # noqa: E402
from cola.linalg.svd.svd import svd  # noqa: E402

warnings.simplefilter("ignore")
np.seterr(all="ignore")
Q3 = np.array([[1, 2, 2], [2, 1, -2], [2, -2, 1]]) / 3.
R2 = np.array([[0., -1.], [1., 0.]])
bad = 0


def run(name, A, k, which, want):
    global bad
    try:
        U, S, V = svd(cola.ops.Dense(A), k, which, LOBPCG())
        U, S, V = (np.asarray(x.to_dense()) for x in (U, S, V))
        err = np.abs(U @ S @ V.conj().T - want).max() if S.shape[0] == k else float("nan")
        ok = S.shape[0] == k and err < 1e-4
        print(f"{name}: k={k} {which}: {S.shape[0]} triplets, max |U S V^H - expected| = {err:.3g}  {'ok' if ok else 'WRONG'}")
    except Exception as e:  # noqa: BLE001
        ok = False
        print(f"{name}: k={k} {which}: {type(e).__name__}: {str(e)[:60]}  WRONG")
    bad += not ok


A = Q3 @ np.diag([6., 3., 1.]) @ Q3.T                       # square, sigma = 6, 3, 1
run("square 3x3", A, 3, "LM", A)                            # 1. two triplets
run("square 3x3", A, 1, "SM", 1. * np.outer(Q3[:, 2], Q3[:, 2]))   # 2. returns the triplet of sigma = 3
T = Q3[:, :2] @ np.diag([6., 3.]) @ R2.T                    # tall 3x2
run("tall 3x2", T, 2, "LM", T)                              # 1.
run("tall 3x1", Q3[:, :1] * 3., 1, "LM", Q3[:, :1] * 3.)    # 1. ValueError
W = np.array([[1., 2., 2., 0.]]) / 3. * 3.                  # wide 1x4: n - 1 > m
run("wide 1x4", W, 1, "SM", W)                              # 2. NaN
C = (np.diag([1, 1j, -1j]) @ Q3) @ np.diag([6., 3., 1.]) @ (np.diag([1j, -1, 1]) @ Q3).conj().T
run("complex 3x3", C, 1, "LM", 6. * np.outer((np.diag([1, 1j, -1j]) @ Q3)[:, 0], (np.diag([1j, -1, 1]) @ Q3)[:, 0].conj()))  # 3.
run("wide 2x3 (control)", R2 @ np.diag([6., 3.]) @ Q3[:, :2].T, 2, "LM", R2 @ np.diag([6., 3.]) @ Q3[:, :2].T)
print("wrong:", bad)
sys.exit(1 if bad else 0)
