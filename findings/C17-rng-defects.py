"""Minimal reproductions of what ./check C17 reports on the pinned tree (NumPy backend).

Run:  PYTHONPATH=/repo /venv/bin/python -B /verif/findings/C17-rng-defects.py"""
import hashlib
import logging
import warnings

import numpy as np

import cola
from cola.linalg.eig.lobpcg import lobpcg
from cola.linalg.tbd.randomized_svd import randomized_svd

logging.disable(logging.WARNING)
warnings.simplefilter("ignore")


def g():
    s = np.random.get_state()
    return hashlib.sha256(s[1].tobytes() + repr(s[2:]).encode()).hexdigest()[:10]


rng = np.random.RandomState(0)
M = rng.randn(8, 8)
A = cola.PSD(cola.ops.Dense(M @ M.T + 8 * np.eye(8)))

# 1. KF-C17-lobpcg-global-rng  (GENUINE: violates "neither reads nor advances the process-wide NumPy state" and
#    "bit-identical results when called again with the same operator and key") ----------------------------------
g0 = g()
e1, _ = lobpcg(A, max_iters=1)
g1 = g()
e2, _ = lobpcg(A, max_iters=1)
print("1. lobpcg: global state before/after:", g0, g1, " (required: equal)")
print("   two calls, same operator:", e1, e2, " (required: bit-identical)")
# proposed patch (cola/linalg/eig/lobpcg.py): take a key, draw through the backend's keyed generator
#     def lobpcg(A, max_iters=100, key=None):
#         ...
#         key = xnp.PRNGKey(42) if key is None else key
#         X = np.asarray(xnp.randn(A.shape[0], k, dtype=np.float32, device=A.device, key=key))
#     class LOBPCG(Algorithm):  max_iters: int = 100;  key: Optional[PRNGKey] = None

# 2. not a violation of the statement as written, reported precisely: routines that call xnp.randn WITHOUT a key
#    (randomized_svd, AdaNysPrecond.__init__, select_rank_adaptively).  np_fns.randn then logs "Non keyed randn
#    used" and falls back to PRNGKey(0); the global state is saved and restored, the result is deterministic, but
#    the caller cannot choose the key (every call uses the same sketch; AdaNysPrecond re-draws the SAME Omega
#    columns when it enlarges the rank).
g0 = g()
s1 = randomized_svd(A, 3)[0]
s2 = randomized_svd(A, 3)[0]
print("2. randomized_svd: global state unchanged:", g0 == g(), " identical results:", np.array_equal(s1, s2),
      " (no key parameter exists)")
# proposed patch: add `key=None` to randomized_svd / AdaNysPrecond / select_rank_adaptively, default
# xnp.PRNGKey(42), pass key=key to xnp.randn and advance it with xnp.next_key before every re-draw.
