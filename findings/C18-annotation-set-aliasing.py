"""C18 (latent, NOT reported as a violation by ./check C18): the annotation set of a scaled operator IS the operand's.

get_annotations(Product) returns `not_commuting[0].annotations` - the set object of the single non-scalar factor, not a
copy.  Every c * A, A * c, A / c, -A therefore shares its `annotations` set with A.  No operation of the unchanged
tree edits an annotation set in place after construction (LinearOperator.__init__ does `self.annotations.update(...)`,
but only Householder and LanczosUnary pass annotations, and neither is a Product), so the frame condition of C18 holds
today - checked by ./check C18 (mode "algebra" of MC_Persist: 35 operations x PSD / SelfAdjoint / Unitary / Stiefel /
undeclared operands, annotations + full state of the operands digested before / after every call).  But any in-place
edit of the result's annotations - by the user, or by a future "correction" inside cola such as the seeded change
/verif/seeded/C18_F - lands on the operand and changes how it dispatches later.

Run: PYTHONPATH=/repo /venv/bin/python -B /verif/findings/C18-annotation-set-aliasing.py   (exit 1 while aliased)

Proposed minimal patch (cola/annotations.py, get_annotations(A: Product)):
-        return not_commuting[0].annotations
+        return set(not_commuting[0].annotations)
"""
import sys

import numpy as np

import cola
from cola.ops import Dense

A = cola.PSD(Dense(np.array([[2., 1.], [1., 3.]])))
aliased = []
for label, B in (("2 * A", 2. * A), ("-A", -A), ("A / 3", A / 3.), ("A * 2", A * 2.)):
    if B.annotations is A.annotations:
        aliased.append(label)
print("results whose annotation set is the operand's own set object:", aliased)
B = 2. * A
B.annotations.discard(cola.PSD)          # what an in-place "correction" of the result would do
print("A.isa(PSD) after editing the annotations of 2 * A:", A.isa(cola.PSD))
sys.exit(1 if aliased else 0)
