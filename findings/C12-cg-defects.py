"""Minimal reproductions of the three genuine cola defects found by ./check C12 (NumPy backend).

Run:  PYTHONPATH=/repo /venv/bin/python -B /verif/findings/C12-cg-defects.py
Each block prints what cola returns and what the property (C12) requires."""
import warnings

import numpy as np

import cola
from cola.linalg.inverse.cg import CG, cg

warnings.simplefilter("ignore")
A = cola.PSD(cola.ops.Dense(np.array([[2., 1.], [1., 3.]])))

# 1. KF-C12-x0-not-rescaled ---------------------------------------------------------------------
# run_batched_cg divides b by ||b|| but not x0, and multiplies the result by ||b||:
# the iteration effectively starts from ||b|| * x0.
b, x0 = np.array([3., 4.]), np.array([1., 0.])
x, _ = cg(A, b, x0=x0, tol=1e-300, max_iters=0)
print("1. cg(A, b=[3,4], x0=[1,0], max_iters=0) =", x, "  required: x0 = [1, 0]")
x, _ = cg(A, b, x0=x0, tol=1e-300, max_iters=1)
print("   after one step:", x, "  required (minimiser over x0 + K_1): [1.285714, 0.857143]")
# proposed patch (cg.py, run_batched_cg):
#     init_val = initialize(A=A, b=b_norm, preconditioner=preconditioner,
#                           x0=x0 / xnp.where(mult == 0, xnp.ones_like(mult), mult), xnp=xnp)

# 2. KF-C12-inv-x0-1d -----------------------------------------------------------------------------
# IterativeOperatorWInfo._matmat receives b as (n,1); a 1-D x0 (documented shape "(n,)") then broadcasts.
y = cola.linalg.inv(A, CG(tol=1e-8, max_iters=10, x0=x0)) @ (b / 5)
print("2. (inv(A, CG(x0=x0_1d)) @ b_1d).shape =", y.shape, "  required: (2,)")
# proposed patch (cg.py, cg):  after `x0 = xnp.zeros_like(rhs)` handling add
#     if len(x0.shape) == 1 and not is_vector: x0 = x0[..., None]      (or reshape x0 to rhs.shape)

# 3. KF-C12-complex64-zero-column-nan -------------------------------------------------------------
# do_safe_div substitutes 1e-40 (a float32 subnormal) for a zero denominator; complex64 0/1e-40 is NaN.
Ac = cola.PSD(cola.ops.Dense(np.array([[2, 1j], [-1j, 2]], dtype=np.complex64)))
B = np.array([[0, 0], [2j, 0]], dtype=np.complex64)          # second column is zero
x, _ = cg(Ac, B, tol=1e-6, max_iters=5)
print("3. complex64, rhs with a zero column: x[:, 1] =", x[:, 1], "  required: exactly [0, 0]")
# proposed patch (cg.py, do_safe_div):
#     denom = xnp.where(is_zero, xnp.ones_like(denom), denom)
#     output = xnp.where(is_zero, xnp.zeros_like(num / denom), num / denom)
# (or make _small_value dtype aware: xnp.finfo(num.real.dtype).tiny ** 0.5)
