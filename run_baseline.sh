#!/bin/sh
# Runs the repository's pinned baseline test command with the guard OFF and prints the pass count.
unset COLA_VERIF
cd /repo && /venv/bin/python -m pytest -ra -q -p no:cacheprovider --timeout=900 --continue-on-collection-errors "$@"
