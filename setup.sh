#!/bin/sh
# Offline setup: nothing is built or cached; syntax-check every specification module and self-test the shim.
cd "$(dirname "$0")" || exit 2
export PYTHONPATH=/repo:/verif PYTHONHASHSEED=0 PYTHONDONTWRITEBYTECODE=1
mkdir -p build evidence
/venv/bin/python -B -m harness.selfcheck
